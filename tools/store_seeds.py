#!/usr/bin/env python3
"""Stores the second-round seeded defects (delivered by independent sub-agents under
/tmp/seed/r2-out-<P>/<s>) as /verif/seeded/<P>-<letter>/ with a meta.json built from the
detection matrix run (/tmp/matrix/<P>-<s>.out, written by tools/seedtest.sh).
One-off helper; kept for the record of how the seeded/ directory was produced."""
import json, os, re, shutil, sys, glob

NEEDS = {
 "C01/a": "Finished survives the TIME-WAIT teardown that discards unread data: active closer, peer's last data unread for >= 10 s of polled time, then recv",
 "C01/b": "listen() skips reset() on an already CLOSED socket: socket re-used after a connection that ended by RST/abort with residue (island in the reassembler, queued tx data)",
 "C02/a": "RTO timer not restarted after a fast retransmit (armed only when the emitted segment moved the send frontier): first of >= 4 segments lost, three duplicate ACKs, the fast retransmission lost too -> data in flight with no timer",
 "C02/b": "bare FIN only sent when it fits the peer's window: everything acknowledged with window 0 (reader paused with an exactly full buffer), empty transmit buffer, close() -> FIN-WAIT-1 with no deadline",
 "C03/a": "reassembly slot not cleared on expiry: partial datagram, > 60 s, then a complete fragmented datagram of another size",
 "C03/b": "TcpSeqNumber max/min compare raw i32: peer ISN (or own ISN) less than one window below 2^31 -> panic on the handshake ACK / first data",
 "C04/a": "reset() no longer clears the reassembler: out-of-order island left by connection 1, socket re-used, connection 2 reaches the island's offset",
 "C04/b": "right edge of the receive window computed with the PEER's window scale: peer announces a larger shift than ours and sends beyond the advertised edge",
 "C05/a": "FIN/PSH decided from the requested size, not the slice obtained: tx ring wraps (partially acknowledged data, more written across the end of storage), close() before the pre-wrap part is sent",
 "C05/b": "peer MSS survives socket re-use: earlier peer announced MSS > 536, later peer sends no (or zero) MSS option, application writes > 536 octets",
 "C06/a": "is_link_local widened to fe80::/10: IPHC address in fe80::/10 outside fe80::/64 loses its non-zero prefix bits",
 "C06/b": "ICMPv6 error emit cuts the quoted packet 40 octets later than buffer_len: Repr with data > 1192 octets",
 "C07/a": "Ipv6OptionsIterator not finished after a content error: Router Alert option with a length other than 2 that still fits the list, consumer keeps pulling",
 "C07/b": "Icmpv4Repr::parse trusts the IHL of the quoted header: Destination Unreachable / Time Exceeded whose inner IHL*4 exceeds the quoted bytes",
 "C08/a": "DHCP fast path skips UDP checksum verification: Ethernet + dhcpv4 socket, server->client datagram with a non-zero UDP checksum and one corrupted bit",
 "C08/b": "ICMPv6 sent as 6LoWPAN fragments checksummed over the whole fragmentation buffer: 802.15.4 medium, ICMPv6 message too large for one frame, stale buffer content",
 "C09/a": "datagram that exactly fills the MTU sent as a lone MF=1 fragment: IPv4, IP length == MTU, MTU % 8 == 4",
 "C09/b": "UDP destination port 0 reaches unbound/closed sockets; the datagram survives a later bind()",
 "C10/a": "IPv6 fit test compares against the frame MTU: Ethernet, IPv6 packet 1..14 octets above the IP MTU",
 "C10/b": "non-first IPv4 fragments refresh the header checksum on the RX capability: checksum.ipv4 == Checksum::Tx and a fragmented datagram",
 "C11/a": "reset() keeps listen_endpoint: listener re-used for connect(), simultaneous open -> SYN-RECEIVED, RST, then a SYN to the old listening port",
 "C11/b": "802.15.4 PAN filter lets frames without destination PAN through: FCF 0xc001, foreign source PAN, inline IPv6 destination = ours",
 "C11/c": "UDP destination port 0 delivered to a never-bound / closed UDP socket in the set",
 "C12/a": "IPv4 identification counter saturates at 0xffff instead of wrapping: after ~65 k dispatched packets every fragmented datagram carries the same id",
 "C12/b": "total size of a reassembled datagram computed with a fixed 20-octet header: last fragment carries IPv4 options",
 "C13/a": "renewal ACK no longer moves rebind_at: lease, answered renewal at T1, sleep to the OLD T2 -> poll_at in the past with nothing to do",
 "C13/b": "user timeout not enforced in TIME-WAIT but still scheduled: set_timeout < 10 s, active closer sits in TIME-WAIT",
 "C14/a": "dequeue_many_with rewinds read_at when the ring becomes empty: bytes written past the tail (write_unallocated) before an emptying dequeue, then enqueue_unallocated",
 "C14/b": "PacketBuffer::reset no longer clears the payload ring: reset while a non-empty packet is queued (udp close()), then reuse",
 "C15/a": "add_then_remove_front drains the front even when the insertion was refused: range pending at offset 0, tracker full, refused insertion at offset > 0",
 "C15/b": "zero-length insertion no longer short-circuited: size 0 at an offset strictly inside a hole",
 "C16/a": "neighbor cache flush resets the discovery rate limiter: request sent, update_ip_addrs(), another dispatch to an unresolved hop within the same second",
 "C16/b": "known-neighbor shortcut bypasses routing: IPv6 off-link destination D behind a gateway, NDISC message with source D seen < 60 s ago, then traffic to D",
 "C17/a": "TIME-WAIT timer armed in CLOSING by any ACK: simultaneous close, in-window ACK not acknowledging our FIN, FIN's ACK late by >= 10 s",
 "C17/b": "LAST-ACK closes when everything sent SO FAR is acknowledged: passive close with more queued data than the peer window admits, partial ACK before the FIN was sent",
 "C18/a": "rebinding flag not cleared by a renewing ACK: all renewals unanswered, rebind ACKed, then T1 of the new lease -> broadcast instead of unicast",
 "C18/b": "REQUEST bookkeeping before the packet is emitted: OFFER, transmit() refused when the first REQUEST is due, premature ACK accepted",
 "C19/a": "a server's 10 s window only starts with the first successful transmission: Ethernet, DNS server never answers ARP, pure time advance",
 "C19/b": "compression pointers to offsets >= 1024 resolved modulo 1024: response > 1 KiB with a pointer target >= 0x400",
 "C20/a": "IPHC emitter no longer clears the M bit: fragmented multicast datagram, later fragmented link-local unicast datagram from the same interface",
 "C20/b": "FRAG_N size computed with the FRAG_1 header length: short-address sender, short (broadcast) link destination, at least one full-size FRAG_N",
 "C20/c": "NHC UDP 4-bit port nibbles swapped on emit: both ports in 0xf0b0..0xf0bf and different",
}

# what had to be strengthened before the property's own check caught the seed (else "")
STRENGTHENED = {
 "C02/b": "C02 missed it; tcp2 gained the `exact-fill-rx*` configurations (stream length = 1..3 x the peer's receive buffer)",
 "C01/b": "C01/C02 missed it at first (only C04's socket-reuse prefixes caught it); tcp2 gained the `reuse-after-abort` / `reuse-after-close` configurations (explored connection is the second one on the same sockets)",
 "C06/a": "C06 missed it; address alphabet gained fe80::/10-outside-/64 classes",
 "C06/b": "C06 missed it; ICMPv6/ICMPv4 error data lengths above 1192 added, expected value = data cut to buffer_len",
 "C08/a": "C08 missed it; part (c) gained DHCP OFFER/ACK base packets with a real dhcpv4 socket",
 "C08/b": "C08 missed it (C10 caught it); part (b) gained a two-interface 802.15.4 world with an independent 6LoWPAN decoder",
 "C09/b": "C09 missed it; inbound alphabet gained destination port 0, offered in every socket state",
 "C10/b": "C10 missed it; capability sets `all-rx-off` (Checksum::Tx) and `all-off` (Checksum::None) added",
 "C11/a": "C11 itself cannot see it (needs a TCP history); caught by C17's reuse prefix",
 "C11/b": "C11 missed it; link-destination variants without destination addressing added",
 "C11/c": "C11 missed it; never-bound and closed UDP sockets plus port 0 added",
 "C12/a": "C12 missed it; S1c sweep: identification counter started at 0xfffd..0xffff through the seed",
 "C12/b": "C12 missed it; rx family `fragments-with-ip-options` added",
 "C13/a": "C13 missed it (C18 caught it); interface BFS gained a scripted DHCP server (`iface-dhcp-served`) - which also found the genuine defect fixed by a72db7e",
 "C18/b": "C18 missed it; device back-pressure (block-tx / unblock-tx) added",
 "C19/a": "C19 missed it; see DESIGN.md",
 "C19/b": "C19 missed it; see DESIGN.md",
 "C20/a": "C20 missed it (C06 caught it); sequence part (two datagrams on the same interfaces) and tx-buffer pre-fill polarities added",
}

NEEDS3 = {
 "C01/a": "data segment with an OLD acknowledgment number is processed and rewinds SND.UNA: bidirectional data, two of the peer's data segments (ACK advancing between them) delivered in swapped order, victim sends more afterwards",
 "C01/b": "checksum tail handling `>= 2` -> `> 2`: last octet of a 4n+2-octet buffer never summed; a bit flip confined to the last octet of such a segment is accepted",
 "C03/a": "ACK covering only our SYN/FIN no longer repairs SND.NXT >= SND.UNA after an RTO whose retransmission could not be emitted (neighbor expired / device refused): late ACK of the SYN-ACK or FIN -> flight_size() panics in every later poll",
 "C03/b": "icmp socket bound to Endpoint::Udp reads the quoted UDP source port without a length check: ICMPv6 error whose quotation ends 0 or 1 octets after the inner IPv6 header -> panic in poll",
 "C04/a": "rx_fin_received set before the state match: a stray bare FIN (seq 0 or >= 2^31+1) to a LISTENING socket survives the later handshake; connection then ends by RST and recv reports Finished",
 "C04/b": "last advertised ACK/window recorded BEFORE emit: the transmit carrying a window update fails (device refuses), the socket then accepts data beyond every window the peer was shown",
 "C05/a": "peer's window field shifted by OUR window shift: both sides scale, local receive buffer > 64 KiB with a larger shift than the peer's, more queued data than the peer's real window",
 "C05/b": "zero-window probe takes its sequence number from SND.UNA but its octet from SND.NXT: probe while data is in flight (shrinking window / partial ACK that closes the window)",
 "C06/a": "IPHC buffer_len() decides source-address elision differently from emit(): short link-layer address equal to the low 16 bits of a non-ff:fe00 IID, or an extended address whose EUI-64 looks like a short-address IID",
 "C06/b": "NDISC Router Advertisement: option cursor advanced by the unpadded option length: RouterAdvert + 8-octet (802.15.4) lladdr + MTU or prefix option",
 "C06/extra-c": "NHC UDP header_len() uses the exclusive range 0xf0b0..0xf0bf: one port exactly 0xf0bf, the other in 0xf0b0..=0xf0bf",
 "C07/a": "Ieee802154Frame::frame_counter() ignores the suppression bit for pre-2015 frames while check_len honours it: security enabled, version 2003/2006, suppression bit set, frame ends < 4 octets after the security control octet",
 "C07/b": "Ipv6HopByHopRepr::parse collects into a heapless Vec: more than IPV6_HBH_MAX_OPTIONS (4) valid options -> 'Vec::from_iter overflow' panic",
 "C08/a": "ICMPv4 receive check gated on the ipv4 capability: mixed ChecksumCapabilities (ipv4 rx off, icmpv4 rx on) and a corrupted ICMPv4 message",
 "C08/b": "TCP burst-limit window clamp written after the checksum: device with max_burst_size and a socket offering a window above burst x MSS",
 "C09/a": "UdpMetadata::local_address taken from the bound address: socket bound to (addr, port) receiving a broadcast / multicast datagram",
 "C09/b": "enqueue_with_infallible advances the payload ring by max_size while the metadata records size: send_with() whose closure returns less than max_size, then further datagrams on the same socket",
 "C10/a": "IPHC set_dst_address no longer clears the M bit (same mechanism as a round-2 C20 seed, found independently): fragmented multicast then fragmented unicast datagram on 802.15.4",
 "C10/b": "TCP checksum gated on the UDP capability: device with tcp = Both but udp tx off",
 "C11/a": "udp close() returns before the buffer resets: bind(P1), datagram queued unread, close(), bind(P2), recv() hands out the P1 datagram",
 "C11/b": "dns: `dst_port != pq.port || txid != pq.txid` became `&&`: response with the right transaction id addressed to another UDP port of ours completes the query",
 "C12/a": "PacketAssemblerSet::get() stops at the first free slot: REASSEMBLY_BUFFER_COUNT >= 2 and two interleaved datagrams (X.1 Y.1 X.2 Y.2)",
 "C12/b": "fragmenter's destination MAC stored before the 'fragmentation buffer busy' check: fragments of D1 pending, a (dropped) fragmented reply to another neighbour B overwrites the MAC: D1's remaining fragments go to B",
 "C13/a": "socket_egress `break` instead of `continue` for a socket in its neighbor-discovery silence: a later socket with queued data is never reached while poll_at stays 'now'",
 "C13/b": "dhcp poll_at no longer clamped by expires_at: all renewals unanswered, rebind sent with < 60 s left -> deadline beyond the lease end, a poll in between transmits DISCOVER",
 "C14/a": "enqueue_with_infallible head-gap test compares against the tail index: partly drained, unwrapped payload ring; closure interface; wrongly accepts and then panics slicing",
 "C14/b": "RingBuffer::enqueue_one_with counts the slot before the callback answers: a declining callback enqueues a phantom element",
 "C15/a": "early 'tracker full' refusal in add_then_remove_front: tracker at the maximum number of ranges and an insertion at offset > 0 that merges into existing ranges",
 "C15/b": "bogus pass-through fast path: range pending at offset 0 (put there by plain add) and add_then_remove_front(0, n)",
 "C16/a": "reset_expiry_if_existing no longer checks the frame's source MAC: a foreign station using the neighbor's IP source keeps a silent neighbor's entry alive beyond 60 s",
 "C16/b": "ARP sender hardware address guard tests is_broadcast instead of !is_unicast: ARP packet whose sender hardware address is a non-broadcast group MAC",
 "C17/a": "remote_last_ack updated before the zero-window-probe early return while remote_last_win is not: probe piggy-backing the ACK of fresh data moves the RST acceptance window beyond what was advertised",
 "C17/b": "connect() resets the socket before the last argument checks: a refused connect() (local address of the other family) takes a TIME-WAIT socket to CLOSED",
 "C18/a": "server T1/T2 validated against the uncapped lease: set_max_lease_duration(cap) and an ACK with explicit T1 and T2 >= cap -> no renewal before the (capped) expiry",
 "C18/b": "rebinding REQUESTs do not update the expected xid: all renewals unanswered until T2, a stale ACK for the last renewal REQUEST is accepted",
 "C19/a": "eq_names zips label iterators: a name that is a label-wise prefix or extension of the queried one matches",
 "C19/b": "dns poll_at reports the first pending query's timer instead of the earliest: two concurrent queries with staggered starts",
 "C20/a": "PacketAssemblerSet::get() stops at the first free slot (6LoWPAN side of the same change as C12/a): >= 2 reassembly buffers and interleaved fragments of two datagrams",
 "C20/b": "IPHC 32-bit multicast form chosen although octet 12 is non-zero: destination such as ff35::8000:1234",
}

STRENGTHENED3 = {
 "C03/a": "C03 missed it; caught by C02 after tcp2 gained `BlockedTick` (device refuses frames at a timer instant); C03 catalogue extension requested",
 "C03/b": "C03 and C07 missed it at first; see DESIGN.md for the catalogue extension (well-formed ICMP errors with every quotation length)",
 "C04/a": "C04 missed it; receiver harness gained stray pre-handshake segments and a peer RST event",
 "C04/b": "C04 missed it; receiver harness gained reads whose window update is refused by the device",
 "C05/a": "C05 missed it; sender harness gained configurations with our shift above the peer's and more data than the peer's largest window",
 "C06/a": "C06 missed it; link-layer addresses derived from the IP address added",
 "C08/b": "C08 and C10 missed it; burst-limited devices added to tcp2 (C01/C02/C05/C10/C13), to C10's tcp configurations and to C08 part (b)",
 "C09/a": "C09 missed it; see DESIGN.md",
 "C10/a": "C10 missed it (C20 caught it); see DESIGN.md",
 "C11/a": "C11 cannot see it (needs a bind/close/bind history); caught by C09",
 "C12/b": "C12 missed it; second neighbour, link-layer destination clause and sweep S1d added",
 "C17/a": "C17 missed it; `rst-window-zwp` configuration (delayed ACKs on, clock advancing without a poll, only RST-caused transitions judged)",
 "C17/b": "C17 missed it; refused listen()/connect() calls added to the API alphabet",
 "C18/a": "C18 missed it; weak renew clause judged in the max-lease configurations, spelled-out T1/T2 values",
 "C19/b": "C19 and C13 missed it; C13 gained the two-query DNS alphabet with a reachable server, C19 staggered starts and a per-query schedule clause",
 "C20/b": "C20 and C06 missed it; one multicast group per first-non-zero octet position",
 "C01/b": "C01 missed it (C08 caught it); tcp2 gained corruption of the last octet and a configuration with segment lengths of every residue mod 4",
 "C06/extra-c": "C20 missed it (C06 caught it); port boundary values added to C20",
}

NEEDS4 = {
 "C01/a": "ACK that empties the tx buffer stops the retransmit timer although the FIN is outstanding; with keep-alive on, the keep-alive's garbage octet lands on the FIN's sequence number: FIN segment lost, keep-alive interval elapses -> peer application gets a byte nobody wrote",
 "C02/a": "Routes::lookup picks the longest prefix first and then checks expiry: an expired more-specific route hides a valid default route; TCP peer behind it stalls for ever",
 "C02/b": "egress_permitted uses > instead of >= at the end of the neighbor-discovery silence while poll_at uses >=: after a lost ARP/NS a poll at exactly the deadline does nothing and poll_at keeps saying now",
 "C03/a": "DHCP ingress filter relaxed to the client port only while the socket still asserts the server port: one UDP frame to port 68 from another source port -> assert panic in poll",
 "C03/b": "icmpv4_reply no longer suppresses replies to source 0.0.0.0: echo request / UDP to a closed port / unknown protocol from 0.0.0.0 -> assert panic in dispatch_ip",
 "C04/a": "data carried on the initial SYN is acknowledged and then skipped (remote_seq_no = seq + segment_len): the stream starts that many octets late",
 "C04/b": "a rate-limited (suppressed) challenge ACK still records ACK/window as advertised: later data beyond every window the peer was shown is accepted",
 "C05/a": "data cursor (remote_last_seq) advanced before the device accepts the segment: emit fails (device refuses / neighbor missing) -> the next write is sent after a gap of never-transmitted octets",
 "C05/b": "window-scale shift 15 no longer clamped to 14: peer announcing WS=15 and more queued data than the real window",
 "C06/a": "IPHC 32-bit multicast form chosen although octet 12 is non-zero (emit only; buffer_len still says 48-bit form): last two octets of the declared buffer never written, address changed",
 "C06/b": "UDP zero-checksum-over-IPv6 rule loses its capability guard: datagram emitted with UDP checksumming off does not parse back under the same capabilities",
 "C07/a": "6LoWPAN context lookup off by one (index > len): CID extension with stateful compression and context id == number of configured contexts -> index panic in Repr::parse",
 "C07/b": "DHCP Router option accepts any length multiple of 4 incl. 0: option `03 00` -> slice panic in DhcpRepr::parse",
 "C08/a": "Checksum::tx() answers for Both|Rx instead of Both|Tx: device announcing Checksum::Tx gets all checksums zero",
 "C09/a": "expired reassembly slot freed by key = None instead of reset(): stale hole map joins the next fragmented datagram (same mechanism as a round-2 C03 seed, found independently)",
 "C09/b": "dropped oversized ingress reply overwrites header template and MAC of the datagram still being fragmented: its remaining fragments leave addressed to the pinger",
 "C10/a": "6LoWPAN FRAG_N size computed with the FRAG_1 header length: short source + short destination (9-octet MAC header) -> 126-octet frames",
 "C11/a": "is_broadcast_v4 uses map_while: with an IPv6 (or /32) entry in front of the IPv4 CIDR the subnet broadcast is not recognised as source/destination class",
 "C12/a": "IPv4 reassembly key takes the source address twice: same peer, same id, different destinations share a slot",
 "C12/b": "fragmentation-buffer capacity check uses the frame length (incl. Ethernet header): datagrams within the last 14 octets of the buffer size are dropped on Ethernet",
 "C13/a": "poll_at merges the 'fragments pending' deadline with Option::min: with no socket deadline it returns None while fragments are queued",
 "C13/b": "neighbor_missing returns early when already waiting for the same neighbor: silence period never re-armed after the second unanswered request -> spin",
 "C14/a": "PacketBuffer padding record keeps the recycled metadata slot's old header (left behind by dequeue_with): padding delivered as a ghost packet",
 "C14/b": "enqueue_with_infallible resets the whole buffer when the payload ring is empty: queued zero-length packets vanish",
 "C15/a": "add_then_remove_front returns Ok(0) without removing the front when offset != 0: range pending at offset 0 from a plain add",
 "C15/b": "zero-length guard at the top of add_then_remove_front skips the remove_front half: size 0 with a range pending at offset 0",
 "C16/a": "dropped oversized response to another neighbour overwrites the saved MAC of the datagram still being fragmented (same mechanism as a round-3 C12 seed, found independently)",
 "C16/b": "neighbor entry still used at exactly 60 s of age (<= instead of <)",
 "C17/a": "dispatch resets the socket unless source-address selection would pick its local address: interface with two addresses in one subnet, connection on the non-preferred one -> SYN-RECEIVED silently goes to CLOSED",
 "C17/b": "SYN|ACK validated against SND.NXT instead of ISS+1: after an RTO whose retransmission could not leave (device refused), a SYN|ACK acknowledging ISS establishes the connection",
 "C18/a": "dhcp poll_at clamps to expires_at only in the non-rebinding branch: all renewals and rebinds lost -> poll_at beyond the lease end",
 "C18/b": "DHCP option that ends exactly at the end of the datagram is dropped (<= in the bounds check): ACK without END marker whose last option is the lease time -> default lease used",
 "C19/a": "response with QDCOUNT = 0 accepted (guard != 1 became > 1)",
 "C19/b": "first server's 10 s deadline computed at start_query from a stale clock: idle gap > 10 s before start_query -> query fails without sending",
 "C20/a": "follow-on 6LoWPAN fragments take their link-layer source from the current hardware address: set_hardware_addr() between polls while fragments are pending",
 "C20/b": "off-by-one in the 6LoWPAN fragmentation-buffer fit check (<=): datagram whose compressed form is exactly the buffer size is dropped",
}

STRENGTHENED4 = {
 "C01/a": "C01 missed it (C02 caught it); tcp2 gained keep-alive configurations",
 "C02/a": "C02 and C16 missed it; see DESIGN.md (overlapping routes with different expiries in C16)",
 "C04/a": "C04 missed it; `data-on-syn` configuration",
 "C05/a": "C05 missed it; sender harness gained writes / ticks during which the device refuses frames",
 "C05/b": "C05 missed it; window scale 14/15 configurations; congestion control made explicit (fresh sockets default to CUBIC, which had hidden the window edge)",
 "C06/b": "C06 missed it; see DESIGN.md (round trips under every checksum-capability value)",
 "C08/a": "C10 missed it (C08 caught it): the egress monitor asked smoltcp's own Checksum::tx(); now an explicit match on the capability value",
 "C10/a": "C10 missed it (C20 caught it); see DESIGN.md (short hardware addresses, 125-octet device MTU)",
 "C11/a": "C11 missed it; see DESIGN.md (address-table layouts)",
 "C14/a": "C14 missed it (C09 caught it): the PacketBuffer fingerprint merged states that differ in the header residue of free metadata slots; residue added to the fingerprint",
 "C17/a": "C17 missed it; `reduced-second-address` configuration",
 "C17/b": "C17 missed it; time advance with a refusing device (`ToPollAtBlocked`) added to the alphabet",
 "C18/b": "C18 missed it; see DESIGN.md (messages cut right after the last option)",
 "C19/a": "C19 missed it; see DESIGN.md (header count deviations)",
 "C19/b": "C19 missed it; see DESIGN.md (idle gap before start_query)",
 "C20/a": "C20 missed it; see DESIGN.md (hardware address change while fragments are pending)",
 "C20/b": "C20 missed it; see DESIGN.md (length sweep up to the fragmentation buffer size)",
}

NEEDS5 = {
 "C01/a": "reset() no longer clears rx_fin_received: first connection closed gracefully by the peer, socket re-used, second connection ends by RST with data lost -> recv reports Finished",
 "C01/b": "TCP segment whose checksum field is 0x0000 accepted without verification: data segment whose correct checksum is 0 plus a bit flip elsewhere in it",
 "C02/a": "'everything acknowledged' decided with a non-modular comparison: ISN within one window below 2^31, flight of two segments crossing it, upper segment lost -> timer idle with data in flight",
 "C02/b": "ARP requests carry the interface's FIRST IPv4 address as sender: two-address host, peer in the second subnet, after the neighbor entry is gone the peer ignores our requests",
 "C03/a": "DHCP T1/T2 guards compare against the uncapped lease: max_lease cap set, ACK with T1 only and cap < T1 < lease -> Duration underflow panic in poll",
 "C04/a": "bare FIN beyond RCV.NXT (behind a hole) is processed: FIN in a segment of its own overtakes the last data segment -> ACK covers an unreceived octet, Finished too early",
 "C05/a": "data segment with a stale ACK field rewinds SND.UNA (same mechanism as a round-3 C01 seed, found independently): payload read at a shifted offset afterwards",
 "C05/b": "floor for the peer's announced MSS raised from 48 to 64: peer announcing an MSS of 48..63 receives 64-octet segments",
 "C06/a": "Ieee802154Repr::emit writes the PAN ids before the addresses: pan_id_compression off, short destination -> source PAN never written / panic",
 "C06/b": "checksum::propagate_carries folds only once: payloads whose word sum lands in a narrow window emit a checksum their own parser rejects",
 "C07/a": "Ieee802154Frame::check_len only runs its final length check for secured frames: unsecured frame cut 1-3 octets before the end of the addressing fields -> accessor panics",
 "C07/b": "6LoWPAN fragment header check_len merged for FRAG1/FRAGN: FRAGN cut to 4 octets passes new_checked -> datagram_offset() panics",
 "C08/a": "process_udp parses with checksum verification off to find the socket and verifies only on acceptance: corrupted datagram to a port without listener is answered with port unreachable",
 "C08/b": "decompress_udp fills in the checksum of a datagram whose checksum was elided by the sender: checksum-less (and corrupted) UDP/IPv6 datagrams are delivered on 802.15.4",
 "C09/a": "reassembly slot lookup claims a free slot before checking the rest (needs REASSEMBLY_BUFFER_COUNT >= 2, interleaved datagrams)",
 "C09/b": "bound address wins over UdpMetadata::local_address: socket bound to (A, port), send with local_address = Some(B) on a multi-address interface leaves from A",
 "C10/a": "DHCP renewal ACK with a different yiaddr adopted without a Configured event: later renewals are sent from an address the interface does not own",
 "C10/b": "checksum::combine folds the end-around carry once: UDP/TCP/ICMPv6 checksum off by one when three terms sum to 0x1ffff",
 "C11/a": "expired reassembly slot keeps its fragment map (key/total_size cleared only): a foreign host's first fragment joins our datagram's last fragment after the timeout",
 "C11/b": "SLAAC address outlives its valid lifetime when the poll happens exactly at valid_until (is_expired uses <, is_valid uses >)",
 "C12/a": "reassembly slot keeps total_size across expiry: X delivers its last fragment but never completes, expires; every later datagram of another size is undeliverable",
 "C12/b": "non-first IPv4 fragments refresh the header checksum on the RX capability (same as a round-2 C10 seed, found independently)",
 "C13/a": "udp poll_at tests send_queue()==0 (octets) instead of tx_buffer.is_empty(): a queued zero-length datagram reports no deadline but the next poll transmits it",
 "C13/b": "dns dispatch leaves the query pending when no source address exists: retransmit_at stays in the past -> poll_at <= now after polls that send nothing",
 "C14/a": "PacketBuffer::peek skips padding via get_allocated(0,2), which returns only the contiguous part: padding in the last metadata slot hides the packet behind it",
 "C15/a": "remove_contig_at copies within len-1: with N-1 or N ranges pending a front removal duplicates / loses the last range",
 "C15/b": "iter_data limited to the used prefix with the wrong fallback: with exactly N ranges the highest range is not reported",
 "C16/a": "our own transmissions refresh the neighbor entry: a silent neighbor we keep sending to is never re-resolved after 60 s",
 "C16/b": "is_broadcast_v4 ignores the network part: off-link x.y.z.255 is sent to the broadcast MAC instead of via the gateway",
 "C17/a": "set_keep_alive() replaces any running timer, incl. the TIME-WAIT close timer: TIME-WAIT never ends by itself",
 "C18/a": "egress_permitted re-arms the neighbor silence each time it runs out: a rebinding client notices lease expiry only on a 1 s grid",
 "C18/b": "T1 < T2 no longer checked when both options are present: inverted T1/T2 taken over, client rebinds without ever renewing",
 "C19/a": "unspecified-server check indexes the configured server list instead of the list in use: `.local` query failing over to the second mDNS group with one configured server -> index panic",
 "C19/b": "compression pointer bound checked against the full buffer instead of the shrinking prefix: two chained pointers with the second target above the first -> slice panic",
 "C20/a": "6LoWPAN busy guard checked after the new packet was compressed into the fragmentation buffer: dropped oversized reply overwrites the unsent octets of the datagram in flight",
 "C20/b": "is_link_local widened to fe80::/10 (same as a round-2 C06 seed, found independently)",
}

STRENGTHENED5 = {
 "C01/b": "C01 and C08 missed it; see DESIGN.md (base packets whose correct checksum is 0x0000)",
 "C02/b": "C02 and C16 missed it; see DESIGN.md (two-subnet interface, ARP sender-address clause)",
 "C03/a": "C03 cannot see it (needs a socket configuration knob); caught by C18's panic isolation",
 "C06/a": "C06 missed it; see DESIGN.md",
 "C08/b": "C08 and C20 missed it; see DESIGN.md (hand-built frames with elided NHC UDP checksum)",
 "C09/b": "C09 missed it; see DESIGN.md (per-datagram local_address on a multi-address interface)",
 "C10/a": "C10 and C18 missed it; DHCP scenario whose renewal ACK changes address / mask / router, application applying the events",
 "C11/b": "not seen by any check at first; see DESIGN.md (timed SLAAC part in C11)",
 "C12/a": "C12 missed it (C03 caught it); see DESIGN.md (expired-then-reused with X's last fragment delivered and a different size)",
 "C12/b": "C12 missed it (C10 caught it); see DESIGN.md (checksum-capability dimension in the tx sweeps)",
 "C13/b": "C13 missed it; DNS query added to the IPv4-less interface alphabet",
 "C16/b": "C16 and C11 missed it; see DESIGN.md (off-link destinations with all-ones host part)",
 "C17/a": "C17 missed it; set_keep_alive() added to the API alphabet",
 "C20/a": "C20 and C10 missed it; see DESIGN.md (oversized ingress-triggered reply while fragments are pending)",
}

NEEDS6 = {
 "C01/a": "Timer::set_keep_alive() overwrites a running retransmission timer: one-octet unacknowledged tail lost, application calls set_keep_alive() before the RTO - the keep-alive's dummy octet is accepted as the lost data octet",
 "C01/b": "TcpRepr::parse gates checksum verification on caps.tcp.tx() instead of rx(): with Checksum::Rx (device computes on transmit only) corrupted segments are accepted",
 "C02/a": "Socket::reset() no longer re-initialises the timer: socket reused by connect() while/after TIME-WAIT inherits Timer::Close - no retransmission timer, later silently reset in ESTABLISHED",
 "C02/b": "a rate-limited neighbor lookup re-arms the cache's global silence: two sockets waiting for the same neighbor with retry timers out of phase - no ARP request / solicitation is ever sent again",
 "C03/a": "6LoWPAN dispatch `sent_bytes += frag1_size`: a fragmented reply started in the poll right after another one finished (fragmenter finished but not yet reset) never completes; interface wedged",
 "C03/b": "get_source_address_ipv6 checks ip_addrs.is_empty() instead of 'no IPv6 address': IPv4-only interface panics on an ICMPv6 echo / unknown next header sent to ff02::1",
 "C04/a": "window_end falls back to the full window when nothing was advertised yet: data overtaking the socket's own SYN-ACK (guessed ISS) is accepted in SYN-RECEIVED",
 "C04/b": "(SynSent, Syn) arm re-records the SYN window as scaled_window(): with window scaling and a >64 KiB buffer a segment beyond the 65535 advertised in the SYN, queued right behind the SYN-ACK, is accepted",
 "C05/a": "peer MSS only learned from SYN|ACK, not from a bare crossing SYN: simultaneous open with peer MSS < 536 - data segments of 536 octets",
 "C05/b": "scaled_window() uses shift 0 in SYN-SENT/SYN-RECEIVED: a bare ACK sent from SYN-RECEIVED (keep-alive answered before the handshake completes) carries an unscaled window, > buffer once the peer scales it",
 "C06/a": "NDISC RedirectedHeader padding range `opt_len + (8 - opt_len % 8)`: emit panics when the quoted packet length is a multiple of 8",
 "C06/b": "DhcpOptionWriter::emit applies the 255 limit to kind+length+data: options with 254 or 255 data octets are refused although buffer_len() counts them",
 "C07/a": "DNS parse_name checks the pointer against the whole message length hoisted out of the loop while slicing the shrunken remainder: three pointer hops (forward, back, forward) panic",
 "C07/b": "Icmpv6 check_len admits 24-octet MLDv1 queries while mld.rs reads the MLDv2 fields unconditionally: type 130 with exactly 24 octets panics in accessors / Repr::parse",
 "C08/a": "first IPv4 fragment's checksum refresh gated on caps.ipv4.rx(): with Checksum::Tx the offset-0 fragment leaves with the checksum of the unfragmented header",
 "C08/b": "is_link_local() widened to fe80::/10 (same as earlier C06/C20 seeds, found independently): 6LoWPAN elides address bits the transport checksum covered",
 "C09/a": "PacketBuffer::enqueue `<=`: a datagram that exactly fits the head of the payload ring after the tail is padded is refused (ring 16: X(6) Y(8) in, X out, Z(6) dropped)",
 "C09/b": "dispatch_ipv4_frag sets MF after fill_checksum: every middle fragment (3+ fragments) has a wrong header checksum",
 "C10/a": "max_burst_size window clamp patched into the emitted TCP header after the checksum was filled: wrong TCP checksum whenever the clamp applies",
 "C10/b": "tcp dispatch exempts SYN-SENT from 'source address no longer owned': interface renumbered while a SYN is unanswered - retransmitted SYNs leave from an address the interface does not own",
 "C11/a": "(SynReceived, Rst) arm restores the listen endpoint with the port only: a listener bound to (A1, port) accepts a SYN to A2 after one refused handshake",
 "C11/b": "IPHC dst_context_id() reads the source nibble: with two address contexts a datagram for 'context-1 prefix + our IID' (foreign) is expanded with context 0 and delivered",
 "C12/a": "fragmenter-busy guard hoisted out of the per-socket loop in socket_egress: second socket's oversized datagram in the same egress pass is silently dropped (same change delivered as C20/b for 6LoWPAN)",
 "C12/b": "poll_at merges 'fragments pending' with Option::map: returns None with all sockets idle while fragments wait - an application following poll_at never completes the datagram",
 "C13/a": "dns dispatch skips a query whose retransmit_at is in the future before the server time-out is handled: at the 10 s time-out poll_at stays 'now' for 5 s (spin), fail-over delayed",
 "C13/b": "dhcp parse_ack validates T1 against the lease instead of T2: ACK with T2 < T1 < lease accepted, renew_at > rebind_at - poll_at stuck at rebind_at from T2 to T1",
 "C14/a": "enqueue_with_infallible takes the metadata slot only after the closure ran: with metadata full the refused call runs the closure and advances the payload ring (orphan octets)",
 "C14/b": "enqueue_with_infallible commits all max_size octets via enqueue_many while metadata records the returned size: shrinking callbacks leak payload space",
 "C15/a": "add_then_remove_front shortcut pops the first contig without shifting the rest when the in-order segment overshoots the first range: remaining ranges reported too far out",
 "C15/b": "add_then_remove_front's full-tracker fallback uses shrink_hole_to: with exactly MAX disjoint ranges an in-order insertion short of the first hole turns hole octets into data",
 "C16/a": "Cache::fill() re-opens the global discovery rate limiter: any learned neighbor lets a second request out within the silent second",
 "C16/b": "NDISC accepted with any hop limit (outer guard removed; inner check only covers RAs): forwarded NA/NS with hop limit != 255 overwrites an on-link neighbour's address",
 "C17/a": "zero-window-probe start/stop pair overwrites the TIME-WAIT timer: final segment acknowledging data+FIN with window 0 - TIME-WAIT never ends",
 "C17/b": "TIME-WAIT timer restart moved before the out-of-window RST check: a stray RST re-arms the 10 s timer",
 "C18/a": "renewal ACK can no longer shorten the lease (`expires_at.max(..)`): renewal answered with a shorter lease - address reported past the new expiry",
 "C18/b": "max_lease_duration cap folded into the Option chain: an ACK without lease option gets the 120 s default uncapped",
 "C19/a": "answer-record cursor advanced only at the end of the loop body: a foreign-owner record in front of the wanted record is re-parsed for ever, query fails",
 "C19/b": "back-off not reset at server fail-over: later servers get one datagram and no retransmission inside their window",
 "C20/a": "NHC-UDP emitter handed the whole rest of the fragmentation buffer: UDP checksum covers stale octets of an earlier longer datagram when the datagram is fragmented",
 "C20/b": "fragmenter-busy guard hoisted out of the per-socket loop in socket_egress: second socket's fragmented 6LoWPAN datagram in the same pass is silently dropped",
}
STRENGTHENED6 = {
 "C01/a": "C01 missed it; tcp2 deviation SetKeepAlive (set_keep_alive in mid-connection) and a 41-octet stream over MSS 40",
 "C01/b": "C01 missed it; tcp2 configurations with transmit-checksum-offloading devices (checksum.tcp = Rx) under corruption",
 "C02/b": "C02 missed it; tcp2 configurations with an auxiliary UDP socket on the same interface, retry timers 0.4 s out of phase",
 "C03/a": "C03 missed it; see DESIGN.md (fragmented replies in consecutive polls on 802.15.4, probe with a fragmented reply)",
 "C03/b": "C03 missed it; see DESIGN.md (IPv4-only / IPv6-only / address-less base states)",
 "C04/a": "C04 missed it; early-data configurations (segment overtakes the socket's own SYN-ACK, ISS from a twin run)",
 "C04/b": "C04 missed it; early-data client configuration beyond the SYN's 65535 window plus a filler event ending at the early segment",
 "C05/a": "C05 missed it; simultaneous-open configurations in the adversarial-peer sender BFS",
 "C05/b": "C05 missed it; keep-alive-like probe answered from SYN-RECEIVED with a >64 KiB buffer and window scaling",
 "C06/b": "C06 missed it at quick tier (boundary lengths were thorough-only); DHCP / NDISC / IPv6-option / DNS length boundaries now in both tiers",
 "C08/a": "C08 missed it; fragmented IPv4 datagrams under every checksum-capability value",
 "C08/b": "C08 missed it; fe80::/10 addresses outside fe80::/64 judged after an independent RFC 6282 decompression",
 "C09/a": "C09 missed it; PacketBuffer placement rule as oracle on 16/24-octet payload rings",
 "C09/b": "C09 missed it; IPv4 header checksum of every fragment verified, 3+-fragment datagrams in the tight-link alphabets",
 "C10/b": "C10 missed it; renumbering scenarios (address replaced/removed in the middle of six situations)",
 "C11/a": "C11 missed it; TCP listener histories of up to 3/4 frames on a two-address interface",
 "C11/b": "C11 missed it; 6LoWPAN address-context table (SCI, DCI) with checksum-equivalent prefixes / rx checksum off",
 "C12/b": "C12 missed it; transmit sweeps repeated under a poll_at-following discipline",
 "C13/b": "C13 missed it; DHCP answers with explicit inconsistent T1/T2 in the served alphabet",
 "C16/b": "C16 missed it; forwarded (hop limit != 255) and malformed NDISC messages announcing another hardware address",
 "C17/a": "C17 missed it; FIN segments advertising window 0",
 "C17/b": "C17 missed it; exploration started in TIME-WAIT with 7 s clock steps, RST never restarts 2MSL in the model",
 "C18/b": "C18 missed it; reference lease = min(lease option or default, max_lease_duration)",
 "C19/a": "C19 noticed it only as a failed positive control (machinery error); foreign-record sweep judged as a clause",
 "C20/b": "C20 missed it; two sockets queueing before the same poll",
}

NEEDS7 = {
 "C01/b": "FIN honoured although the last octet of its segment was trimmed at the window edge (`segment_end - 1 > window_end`): a FIN-bearing segment that overshoots the believed window by exactly one octet (window-scale rounding with odd free space, ACKs lost) - Finished reported one octet short",
 "C02/a": "acceptable-ACK upper bound lowered to the highest sequence number recorded as sent: the ACK of an accepted zero-window probe is rejected with a challenge ACK before the window field is read - the sender probes for ever after one lost window update",
 "C02/b": "neighbor Cache::fill returns early when the same mapping is already stored: an expired entry can no longer be revived by an ARP reply / NA - after > 60 s of silence the side that speaks first requests for ever",
 "C03/a": "tcp window_end anchored at RCV.NXT instead of last ACK + last window: a segment that overshoots the window while an ACK is still delayed is not trimmed and poll panics",
 "C03/b": "UdpNhcRepr::header_len with half-open port ranges: an echo from/to port 0xf0bf / 0xf0ff on 802.15.4 carves a buffer too long and poll panics",
 "C04/a": "remote_last_ack recorded before the early returns for keep-alive / zero-window-probe segments: a probe sent while received octets are still unacknowledged moves the believed right edge beyond anything on the wire",
 "C04/b": "(Listen, Syn) arm no longer zeroes remote_win_shift when the peer offers no window scaling: a listener with a >= 64 KiB buffer sends shifted window fields the peer reads unscaled, and accepts 2^shift times what it advertised",
 "C05/a": "window field of a segment that starts before RCV.NXT is ignored: a re-packetised peer retransmission that acknowledges new data and shrinks the window leaves the old window in force",
 "C05/b": "Timer::set_keep_alive overwrites Retransmit/FastRetransmit/ZWP/Close timers (same family as C01-j, found independently): keep-alive octet 0x00 sent on an unacknowledged sequence number",
 "C06/a": "Ipv6OptionsIterator stops one octet early: a Hop-by-Hop header whose last option is Pad1 parses back shorter",
 "C06/b": "SixlowpanFragPacket::datagram_size read with a 10-bit mask: sizes 1024..2047 parse back as size-1024",
 "C07/a": "Ieee802154Frame::check_len treats every ACK as address-less while 2015 enhanced ACKs carry addressing: truncated enhanced ACK passes new_checked and the address accessors panic",
 "C07/b": "NdiscOption::link_layer_addr computes data_len*8-2 in u8: a link-layer address option of Length >= 32 (>= 256 octets) panics with overflow",
 "C08/a": "UDP fill_checksum maps a computed 0 to ffff only for IPv4 destinations: an IPv6 datagram whose checksum computes to zero leaves with 0000",
 "C08/b": "Ipv4Packet::verify_checksum covers the fixed 20 octets only: a received header with options summing to zero is accepted with bit errors in the option area",
 "C09/a": "fragmenter-busy guard hoisted out of the per-socket loop (IPv4): second socket's oversized datagram in the same egress pass is dequeued and dropped",
 "C09/b": "continuation IPv4 fragments sized ip_mtu - header without rounding to 8: on an MTU with (mtu-20)%8 != 0 a 3+-fragment datagram has an unaligned middle fragment and overlapping offsets",
 "C10/a": "6LoWPAN first-fragment offset bookkeeping `+=` with the reset moved into Fragmenter::reset(): a fragmented datagram started while the fragmenter is finished-but-not-reset carries FRAG_N offsets beyond its datagram_size",
 "C10/b": "IPHC buffer_len no longer counts hop limit 1 as compressed while emit still compresses it: socket with hop limit 1 on 802.15.4 emits a stray octet after the IPHC header",
 "C11/a": "(_, Rst) arm no longer clears the tuple: the next egress answers every accepted RST with a RST|ACK",
 "C11/b": "process_ipv4 'routed to one of our own addresses' acceptance applied with AnyIP off: with a route via an own address foreign unicast destinations are delivered and answered",
 "C12/a": "IPv4 identification written into the fragmenter where it is drawn: any packet dispatched while fragments are pending overwrites the ident of the train in flight",
 "C12/b": "continuation fragments not rounded to 8 octets (same change as C09/b, found independently)",
 "C13/a": "keep-alive dispatch conditions also require keep_alive.is_some(): set_keep_alive(None) with the timer armed leaves poll_at at the old deadline for ever (spin)",
 "C13/b": "socket_egress silences a socket only on NeighborPending, not on NoRoute: a datagram for an off-link destination without (or with an expired) route makes poll_at 'now' for ever",
 "C14/a": "RingBuffer::contiguous_window rewritten as a cursor comparison: an exactly full ring reports capacity - read_at free elements, slice enqueues overwrite the oldest data",
 "C14/b": "enqueue_with_infallible `contig_window <= max_size`: an empty buffer refuses a packet of exactly its payload capacity through the closure interface",
 "C15/a": "add_then_remove_front trims octets already contiguous at the front but advances offset before computing the trimmed size: wrong length returned when the segment starts inside a pending front range",
 "C15/b": "clear() resets only contigs 0..len-1: after clearing an exactly full tracker the last range survives",
 "C16/a": "NA without Override checks the cache under the TARGET address instead of the source: an Override-clear advertisement with target != source replaces a live entry",
 "C16/b": "poll_ingress_single no longer advances the interface clock: with the split API frames are handled at a stale time - 100 s old entry used, two requests within a second",
 "C17/a": "remote_last_ack/remote_last_win recorded before emit: after a failed transmit the RST acceptance window reaches beyond anything on the wire (ESTABLISHED and SYN-RECEIVED)",
 "C17/b": "tcp accepts() matches any of the interface's addresses: a connected socket takes segments addressed to another own address (FIN, RST drive its state)",
 "C18/a": "T2-only ACK with T2 == lease accepted (`<=`): rebind_at == expires_at, the rebinding phase never happens",
 "C18/b": "server-identifier check moved into the (Discovering, Offer) arm: DHCPACK without option 54 accepted in REQUESTING / RENEWING",
 "C19/a": "dns dispatch `return` instead of `continue` for a query waiting for its retransmission: with two pending queries the later one is never transmitted while poll_at says now",
 "C19/b": "'ran out of servers' guard `==` instead of `>=`: update_servers() with a shorter list under a query that has failed over panics poll (needs DNS_MAX_SERVER_COUNT >= 2)",
 "C20/a": "dispatch_sixlowpan busy guard tests !is_empty() instead of !finished(): a fragmented datagram dispatched while the fragmenter is finished-but-not-reset is silently dropped",
 "C20/b": "PacketAssembler::add rejects offsets beyond the current (growing) buffer: a FRAGN that overtakes FRAG1 on a receiver's first reassembly is dropped",
}
STRENGTHENED7 = {
 "C01/b": "outside what C01's deviation-bounded search can reach (needs dozens of lost ACKs on a 70000-octet exact-fill stream); caught by the C04 receiver BFS (a FIN segment one octet beyond the edge is in its alphabet)",
 "C03/a": "C03 missed it; see DESIGN.md (data follow-ups around the window, frames queued before one poll)",
 "C03/b": "C03 missed it; see DESIGN.md (echoing UDP sockets on the NHC boundary ports)",
 "C04/a": "C04 missed it; configurations with delayed ACKs and keep-alive probes more frequent than the ACK delay",
 "C04/b": "C04 missed it; >64 KiB buffers facing a peer without window scaling (passive and active open)",
 "C05/a": "C05 missed it; peer data segments (also re-packetised) in the sender BFS and a latest-window clause for an in-order peer",
 "C05/b": "C05 missed it; a keep-alive's garbage octet is only excused on an acknowledged sequence number",
 "C08/b": "C08 missed it; base packets with IPv4 options in the bit-flip part",
 "C09/a": "C09 missed it; two-socket family (scripted pairs)",
 "C09/b": "C09 missed it; fragment trains rebuilt from offset x 8 and length, alignment of non-last fragments",
 "C10/b": "C10 missed it; socket hop limits {1,2,63,64,65,254,255} as scenario dimension",
 "C11/b": "C11 missed it; routing table and AnyIP as table dimensions",
 "C13/a": "C13 missed it; keep-alive cleared in mid-connection (tcp2 deviation ClearKeepAlive)",
 "C16/a": "C16 missed it; NAs whose target differs from their source",
 "C16/b": "C16 reported it as machinery error; frames judged at harness time, split ingress/egress driving discipline",
 "C17/b": "C17 missed it; segments with the connection's ports addressed to the interface's other address",
 "C18/a": "C18 missed it; lone T1 / lone T2 ACKs and a rebinding-attempt clause for every T1/T2 shape",
 "C19/a": "C19 exited 2 (machinery error next to the verdict); 'query not transmitted by the poll after start_query' is now a clause",
 "C19/b": "C19 missed it; update_servers() in the alphabet",
 "C20/b": "C20 missed it; delivery demanded for every fragment order on a fresh receiver",
}

# round 8 (12 sub-agents, one seed each)
NEEDS8 = {
 "C02/a": "`ack_all` compares raw sequence fields: in-flight data straddles 2^31 (ISN just below it), tail segment lost, partial ACK -> retransmission timer switched off with data unacknowledged, poll_at None",
 "C04/a": "RingBuffer::dequeue_many_with rewinds read_at when a dequeue empties the ring: out-of-order segment buffered, application drains the rx buffer completely, then the hole is filled -> stale reassembler offsets, zeros delivered",
 "C05/a": "fast retransmission sized by flight_size() instead of the peer's window: segment in flight, peer SHRINKS its window to a non-zero value with a non-advancing ACK, then three identical duplicate ACKs",
 "C09/a": "fragmentation-buffer fit test compares against the frame length (with the 14-octet Ethernet header): Ethernet, link MTU below the datagram, IP packet 1487..=1500 octets -> dequeued and never transmitted",
 "C11/a": "has_solicited_node compares only the low 16 bits: IPv6 packet to a foreign solicited-node group ff02::1:ffXX:YYZZ sharing our last two octets",
 "C12/a": "fragmenter-busy test hoisted out of the per-socket egress loop: two sockets each with a datagram above the MTU queued for the same poll -> the second is dequeued and dropped",
 "C13/a": "tcp poll_at ignores the user timeout in TIME-WAIT while dispatch still enforces it: set_timeout < 10 s on the active closer, silence, poll before the announced deadline sends an RST",
 "C16/a": "Cache::flush also resets silent_until: ARP request sent, update_ip_addrs() within the second, another packet to an unresolved neighbor",
 "C17/a": "reset() keeps listen_endpoint (and the RST arm no longer saves it): listen, close, connect, simultaneous open -> SYN-RECEIVED, RST -> LISTEN instead of CLOSED",
 "C18/a": "dhcp poll_at in the rebinding arm drops .min(expires_at): every RENEW and REBIND unanswered, caller sleeps until poll_at -> wake-up 57.5 s after the lease expired",
 "C19/a": "parse_name label bound off by one: matching response with a CNAME whose rdata ends in a label one octet short -> slice panic",
 "C20/a": "FRAG_N payload size computed with the FRAG_1 header length: both link addresses short (9-octet 802.15.4 header), FRAG_N of >= 105 octets -> 126-octet frame",
}
STRENGTHENED8 = {
 "C05/a": "C05 missed it (sendmon only compared retransmissions with the HIGHEST edge ever given); with an in-order peer a retransmission must now also stay inside the window learned last (`C05/beyond-latest-window/retransmission`)",
 "C09/a": "C09 missed it (C12 caught it); dgram gained the `mtu=1000` fragmentation-buffer-edge configurations (IP packets of 1486 / 1487 / 1500 octets on Ethernet and Medium::Ip)",
}

def next_letter(prop, used):
    for c in "abcdefghijklmnopqrstuvwxyz":
        if f"{prop}-{c}" not in used:
            return c
    raise SystemExit("no letter left")

def main():
    global NEEDS, STRENGTHENED
    rnd = int(sys.argv[1]) if len(sys.argv) > 1 else 2
    if rnd == 3:
        NEEDS, STRENGTHENED = NEEDS3, STRENGTHENED3
    if rnd == 4:
        NEEDS, STRENGTHENED = NEEDS4, STRENGTHENED4
    if rnd == 5:
        NEEDS, STRENGTHENED = NEEDS5, STRENGTHENED5
    if rnd == 6:
        NEEDS, STRENGTHENED = NEEDS6, STRENGTHENED6
    if rnd == 7:
        NEEDS, STRENGTHENED = NEEDS7, STRENGTHENED7
    if rnd == 8:
        NEEDS, STRENGTHENED = NEEDS8, STRENGTHENED8
    used = {os.path.basename(d) for d in glob.glob('/verif/seeded/*')}
    # seeds already stored by this script (origin_path recorded) are updated in place
    have = {}
    for m in glob.glob('/verif/seeded/*/meta.json'):
        j = json.load(open(m))
        if 'origin_path' in j:
            have[j['origin_path']] = j['id']
    for key in sorted(NEEDS):
        prop, s = key.split('/')
        src = f"/tmp/seed/r{rnd}-out-{prop}/{s}"
        outs = [f"/tmp/matrix/{prop}-{s}.out"] if rnd == 2 else [f"/tmp/matrix/r{rnd}-{prop}-{s}.out", f"/tmp/matrix/r{rnd}b-{prop}-{s}.out", f"/tmp/matrix/r{rnd}c-{prop}-{s}.out"]
        outs = [o for o in outs if os.path.exists(o)]
        if not (os.path.exists(src + "/patch.diff") and outs):
            print("skip", key, "(no patch or no matrix result)")
            continue
        # later files override earlier results of the same check
        per = {}
        other = []
        for o in outs:
            for l in open(o).read().splitlines():
                m = re.match(r"SEED \S+: check (C\d+) ", l)
                if m:
                    per[m.group(1)] = l
                elif "does not apply" in l or "build failed" in l:
                    other.append(l)
        lines = list(per.values()) + (other if not per else [])
        det, sigs, runs = [], [], []
        bad = False
        for l in lines:
            m = re.match(r"SEED \S+: check (C\d+) \((\w+)\) exit=(\d+) ?(?:signatures: (.*))?", l)
            if m:
                cid, tier, rc, sg = m.group(1), m.group(2), int(m.group(3)), (m.group(4) or "").strip()
                runs.append(f"mc {cid} --tier {tier} (harness crate built against the seeded tree via tools/seedtest.sh): exit {rc}")
                if rc == 1 or (rc == 2 and sg):
                    # exit 2 with signatures: violations were reported AND preparatory steps of the
                    # harness failed on the broken tree (machinery errors) - still a detection
                    det.append(cid)
                    sigs.append(f"{cid}: " + ", ".join(sg.split()[:6]) + (" ..." if len(sg.split()) > 6 else ""))
                elif rc != 0 and cid == prop:
                    bad = True  # the property's own check must give a verdict

            elif "does not apply" in l or "build failed" in l:
                bad = True
        if bad:
            print("PROBLEM", key, lines[-3:])
            continue
        sid = have.get(src)
        if not sid:
            sid = f"{prop}-{next_letter(prop, used)}"
            used.add(sid)
        d = f"/verif/seeded/{sid}"
        os.makedirs(d, exist_ok=True)
        for f in ("patch.diff", "demo_test.rs", "notes.md"):
            if os.path.exists(f"{src}/{f}"):
                shutil.copy(f"{src}/{f}", f"{d}/{f}")
        meta = {
            "id": sid, "property": prop, "breaks": prop, "round": rnd, "origin_path": src,
            "needs_to_manifest": NEEDS[key],
            "confirmed": "tools/seedtest.sh: applies to /repo HEAD in a scratch worktree; cargo nextest: 673/673 pass with the change; demo_test.rs passes without and fails with the change",
            "checks_run": runs, "detected_by": det, "signatures": "; ".join(sigs),
            "strengthened": STRENGTHENED.get(key, ""),
            "origin": "independent sub-agent given only the property text and a scratch worktree",
        }
        json.dump(meta, open(f"{d}/meta.json", "w"), indent=1)
        print(sid, "<-", key, "detected by", det or "NOBODY")

main()
