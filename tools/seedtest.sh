#!/bin/bash
# usage: tools/seedtest.sh <seed-dir containing patch.diff + demo_test.rs> <worktree> <check-id>... [-- tier]
# 1. confirms the seeded change in the scratch worktree (at /repo's current HEAD):
#    compiles, 673 tests pass, demo fails with it and passes without it;
# 2. runs the given checks against the seeded tree WITHOUT touching /repo: a copy of
#    /verif/mc is pointed at the worktree (same harness code, separate target dir).
# env: SKIP_CONFIRM=1 (skip step 1), VARIANT=small, FEATURES=m_x,m_y (build only these harness modules)
# Prints one summary line per step; exit 0 always (read the summary).
set -u
SEED="$1"; WT="$2"; shift 2
TIER=quick
IDS=()
while [ $# -gt 0 ]; do
  if [ "$1" = "--" ]; then TIER="$2"; shift 2; else IDS+=("$1"); shift; fi
done
export CARGO_NET_OFFLINE=true
HEAD=$(git -C /repo rev-parse HEAD)
name=$(echo "$SEED" | tr '/' '_')
RUN=/tmp/seedrun/$name
mkdir -p "$RUN"
log="$RUN/log.txt"; : > "$log"
say() { echo "$*" | tee -a "$log"; }

git -C "$WT" checkout -q -- . 2>/dev/null
git -C "$WT" clean -fdq tests 2>/dev/null
git -C "$WT" checkout -q --detach "$HEAD" || { say "SEED $SEED: cannot checkout HEAD"; exit 0; }
if ! git -C "$WT" apply --check "$SEED/patch.diff" 2>>"$log"; then
  say "SEED $SEED: patch does not apply to current HEAD (overlaps a fix?)"; exit 0
fi
if [ "${SKIP_CONFIRM:-0}" != "1" ]; then
  cp "$SEED/demo_test.rs" "$WT/tests/seed_demo.rs" 2>/dev/null
  # demo on the unchanged tree
  ( cd "$WT" && CARGO_TARGET_DIR="$WT/target" cargo test --offline --test seed_demo >"$RUN/demo_clean.txt" 2>&1 )
  rc_clean=$?
  git -C "$WT" apply "$SEED/patch.diff"
  ( cd "$WT" && CARGO_TARGET_DIR="$WT/target" cargo test --offline --test seed_demo >"$RUN/demo_seeded.txt" 2>&1 )
  rc_seeded=$?
  rm -f "$WT/tests/seed_demo.rs"
  ( cd "$WT" && CARGO_TARGET_DIR="$WT/target" cargo nextest run --workspace --no-fail-fast --test-threads 8 --offline >"$RUN/suite.txt" 2>&1 )
  suite=$(grep -E "tests run:" "$RUN/suite.txt" | tail -1)
  say "SEED $SEED: demo clean rc=$rc_clean (want 0), demo seeded rc=$rc_seeded (want !=0), suite: $suite"
else
  git -C "$WT" apply "$SEED/patch.diff"
fi
# run checks against the seeded worktree through a copy of the harness crate
rsync -a --delete --exclude target /verif/mc/ "$RUN/mc/"
sed -i "s#path = \"/repo\"#path = \"$WT\"#" "$RUN/mc/Cargo.toml"
cp "$WT/Cargo.lock" "$RUN/mc/Cargo.lock" 2>/dev/null
mkdir -p "$RUN/v"; cp /verif/known_findings.json "$RUN/v/"
VARENV=""; VARSFX=""
if [ "${VARIANT:-default}" = "small" ]; then
  VARENV="SMOLTCP_IFACE_NEIGHBOR_CACHE_COUNT=2 SMOLTCP_DNS_MAX_SERVER_COUNT=2 SMOLTCP_DNS_MAX_RESULT_COUNT=2 SMOLTCP_REASSEMBLY_BUFFER_COUNT=2 SMOLTCP_IFACE_MAX_ROUTE_COUNT=4 SMOLTCP_IFACE_MAX_ADDR_COUNT=4"; VARSFX="-small"
fi
for id in "${IDS[@]}"; do
  envs=""
  ( cd "$RUN/mc" && env $VARENV CARGO_TARGET_DIR="$RUN/target$VARSFX" cargo build --release --offline ${FEATURES:+--no-default-features --features "$FEATURES"} >"$RUN/build.txt" 2>&1 ) || { say "SEED $SEED: harness build failed against seeded tree (see $RUN/build.txt)"; break; }
  VERIF_DIR="$RUN/v" timeout 3000 "$RUN/target$VARSFX/release/mc" "$id" --tier "$TIER" >"$RUN/check_$id.txt" 2>&1
  rc=$?
  sigs=$(grep -E "^  signature:" "$RUN/check_$id.txt" | sed 's/  signature: //' | tr '\n' ' ')
  say "SEED $SEED: check $id ($TIER) exit=$rc ${sigs:+signatures: $sigs}"
done
git -C "$WT" checkout -q -- .
