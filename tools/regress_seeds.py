#!/usr/bin/env python3
"""Re-confirms every stored seed against /repo's CURRENT head, without touching /repo:
for each seeded/<id>: the patch must apply to HEAD in a scratch worktree, the demonstration must
pass without it and fail with it, and every check listed in meta.json `detected_by` must still
report it (exit 1, or exit 2 with signatures) when the harness crate is built against the seeded
worktree.  usage: tools/regress_seeds.py [workers] [id-prefix ...]
Results: /tmp/reg/results.jsonl (one line per seed) and a summary on stdout.
Scratch: /tmp/reg (worktrees wt-<k>, harness copies run-<k>); remove with
  for k in ...; do git -C /repo worktree remove --force /tmp/reg/wt-$k; done; rm -rf /tmp/reg
"""
import json, os, subprocess, sys, glob, re, threading, queue, shutil, time

FEAT = {
    'C01': 'm_tcp2', 'C02': 'm_tcp2,m_tcpsend,m_tcp1', 'C05': 'm_tcp2,m_tcpsend,m_tcp1', 'C04': 'm_tcp1', 'C17': 'm_tcp1',
    'C13': 'm_pollat,m_tcp2', 'C10': 'm_egress,m_tcp2,m_frames', 'C03': 'm_frames', 'C06': 'm_wire_rt', 'C07': 'm_wire_np',
    'C08': 'm_cksum', 'C09': 'm_dgram', 'C11': 'm_addr', 'C12': 'm_frag4', 'C14': 'm_ring', 'C15': 'm_asm', 'C16': 'm_neigh',
    'C18': 'm_dhcp', 'C19': 'm_dns', 'C20': 'm_lowpan',
}
SMALL = {'C16', 'C19', 'C03', 'C12'}
SMALL_ENV = dict(SMOLTCP_IFACE_NEIGHBOR_CACHE_COUNT='2', SMOLTCP_DNS_MAX_SERVER_COUNT='2', SMOLTCP_DNS_MAX_RESULT_COUNT='2',
                 SMOLTCP_REASSEMBLY_BUFFER_COUNT='2', SMOLTCP_IFACE_MAX_ROUTE_COUNT='4', SMOLTCP_IFACE_MAX_ADDR_COUNT='4')
HEAD = subprocess.check_output(['git', '-C', '/repo', 'rev-parse', 'HEAD']).decode().strip()
BASE = '/tmp/reg'
lock = threading.Lock()


def sh(cmd, cwd=None, env=None, timeout=3000):
    e = dict(os.environ, CARGO_NET_OFFLINE='true')
    if env:
        e.update(env)
    try:
        p = subprocess.run(cmd, cwd=cwd, env=e, stdout=subprocess.PIPE, stderr=subprocess.STDOUT, timeout=timeout)
        return p.returncode, p.stdout.decode(errors='replace')
    except subprocess.TimeoutExpired:
        return 124, 'timeout'


def features_for(checks):
    f = []
    for c in checks:
        for x in FEAT[c].split(','):
            if x not in f:
                f.append(x)
    return ','.join(f)


def worker(k, q, out):
    wt = f'{BASE}/wt-{k}'
    run = f'{BASE}/run-{k}'
    if not os.path.exists(wt):
        sh(['git', '-C', '/repo', 'worktree', 'add', '--detach', wt, HEAD])
    os.makedirs(run + '/v', exist_ok=True)
    pending = []
    while True:
        if not pending:
            try:
                pending = list(q.get_nowait())
            except queue.Empty:
                return
        d = pending.pop(0)
        sid = os.path.basename(d)
        meta = json.load(open(d + '/meta.json'))
        res = {'id': sid, 'head': HEAD[:7]}
        t0 = time.time()
        sh(['git', '-C', wt, 'checkout', '-q', '--', '.'])
        sh(['git', '-C', wt, 'clean', '-fdq', 'tests'])
        sh(['git', '-C', wt, 'checkout', '-q', '--detach', HEAD])
        rc, o = sh(['git', '-C', wt, 'apply', '--check', d + '/patch.diff'])
        res['applies'] = rc == 0
        if rc != 0:
            res['error'] = o[-300:]
        else:
            demo = d + '/demo_test.rs'
            if os.path.exists(demo):
                shutil.copy(demo, wt + '/tests/seed_demo.rs')
                denv = dict(meta.get('demo_env') or {})
                denv['CARGO_TARGET_DIR'] = wt + '/target'
                rc1, o1 = sh(['cargo', 'test', '--offline', '--test', 'seed_demo'], cwd=wt, env=denv)
                sh(['git', '-C', wt, 'apply', d + '/patch.diff'])
                rc2, o2 = sh(['cargo', 'test', '--offline', '--test', 'seed_demo'], cwd=wt, env=denv)
                os.remove(wt + '/tests/seed_demo.rs')
                res['demo_clean_rc'] = rc1
                res['demo_seeded_rc'] = rc2
                if rc1 != 0:
                    res['demo_clean_tail'] = '\n'.join([l for l in o1.splitlines() if 'panicked' in l or 'error' in l][:4])
            else:
                res['demo'] = 'no demo_test.rs (demo.md / snippet)'
                sh(['git', '-C', wt, 'apply', d + '/patch.diff'])
            checks = meta.get('detected_by') or [meta['property']]
            feats = features_for(checks)
            small = any(c in SMALL for c in checks) and meta.get('check_variant') != 'default'
            sh(['rsync', '-a', '--delete', '--exclude', 'target', '/verif/mc/', run + '/mc/'])
            sh(['sed', '-i', f's#path = "/repo"#path = "{wt}"#', run + '/mc/Cargo.toml'])
            shutil.copy(wt + '/Cargo.lock', run + '/mc/Cargo.lock')
            shutil.copy('/verif/known_findings.json', run + '/v/known_findings.json')
            env = {'CARGO_TARGET_DIR': run + ('/target-small' if small else '/target')}
            if small:
                env.update(SMALL_ENV)
            rc, o = sh(['cargo', 'build', '--release', '--offline', '--no-default-features', '--features', feats], cwd=run + '/mc', env=env)
            if rc != 0:
                res['build_failed'] = o[-400:]
            else:
                res['checks'] = {}
                for c in checks:
                    rc, o = sh([env['CARGO_TARGET_DIR'] + '/release/mc', c, '--tier', 'quick'], env={'VERIF_DIR': run + '/v'})
                    sigs = [l.strip()[len('signature: '):] for l in o.splitlines() if l.strip().startswith('signature: ')]
                    res['checks'][c] = {'rc': rc, 'signatures': sigs[:6]}
        res['secs'] = round(time.time() - t0)
        sh(['git', '-C', wt, 'checkout', '-q', '--', '.'])
        with lock:
            out.write(json.dumps(res) + '\n')
            out.flush()
            ok = res.get('applies') and res.get('demo_clean_rc', 0) == 0 and res.get('demo_seeded_rc', 1) != 0 and 'build_failed' not in res and all(
                v['rc'] == 1 or (v['rc'] == 2 and v['signatures']) for v in res.get('checks', {}).values())
            print(('ok      ' if ok else 'PROBLEM ') + json.dumps(res)[:400], flush=True)


def main():
    args = sys.argv[1:]
    n = int(args[0]) if args and args[0].isdigit() else 6
    prefixes = [a for a in args if not a.isdigit()]
    dirs = sorted(glob.glob('/verif/seeded/*'))
    if prefixes:
        dirs = [d for d in dirs if any(os.path.basename(d).startswith(p) for p in prefixes)]
    os.makedirs(BASE, exist_ok=True)
    q = queue.Queue()
    groups = {}
    for d in dirs:
        groups.setdefault(os.path.basename(d)[:3], []).append(d)
    # big groups first
    for g in sorted(groups.values(), key=lambda g: -len(g)):
        q.put(g)
    out = open(BASE + '/results.jsonl', 'a')
    off = int(os.environ.get('REG_OFFSET', '0'))
    ts = [threading.Thread(target=worker, args=(k + off, q, out)) for k in range(n)]
    for t in ts:
        t.start()
    for t in ts:
        t.join()


main()
