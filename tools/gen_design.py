#!/usr/bin/env python3
"""Rebuilds sections 3-8 of DESIGN.md from tools/design_tail.md + live data
(fix commits in /repo, known_findings.json, seeded/*/meta.json, MANIFEST.json)."""
import json, subprocess, os, glob, re
D='/verif/DESIGN.md'
s=open(D).read()
head_end=s.index("## 3. ")
app=s.index("## Appendix A")
tail=open('/verif/tools/design_tail.md').read()
kf=json.load(open('/verif/known_findings.json'))['findings']
log=subprocess.check_output(['git','-C','/repo','log','--reverse','--format=%h %s']).decode().splitlines()
fix_rows=["| commit | property | what failed (as found by the check) |","|---|---|---|"]
for l in log:
    h,subj=l.split(' ',1)
    if not subj.startswith('fix:'): continue
    props=sorted({e['property'] for e in kf if e.get('commit','')[:7]==h[:7]})
    fix_rows.append(f"| `{h}` | {', '.join(props) or '—'} | {subj[5:]} |")
known_rows=[]
for e in kf:
    if e['status']=='known':
        known_rows.append(f"* **{e['property']}** `{e['signature']}` — {e['what']}")
seeds=["| seed | round | what it needs to manifest | detected by | signature(s) (first few) | strengthened because of it |","|---|---|---|---|---|---|"]
nseed={}; own=0; missed=[]
for m in sorted(glob.glob('/verif/seeded/*/meta.json')):
    j=json.load(open(m))
    r=j.get('round',1); nseed[r]=nseed.get(r,0)+1
    if j['property'] in j['detected_by']: own+=1
    if not j['detected_by']: missed.append(j['id'])
    sig=j['signatures']
    if len(sig)>260: sig=sig[:260]+' ...'
    seeds.append(f"| `{j['id']}` | {r} | {j['needs_to_manifest']} | {', '.join(j['detected_by']) or 'NOT DETECTED'} | {sig} | {j.get('strengthened','')} |")
total=sum(nseed.values())
seeds.append("")
per_round=", ".join(f"round {r}: {n}" for r,n in sorted(nseed.items()))
seeds.append(f"{total} seeded defects kept ({per_round}); {own} are caught by the check of the property they were written against, the others by the check named in the table" + (f"; not detected by any check: {', '.join(missed)}" if missed else "; every one is detected by at least one check") + ".")
man=json.load(open('/verif/MANIFEST.json'))
na=man.get('not_applicable',[])
na_txt="\n".join(f"* {x['property_id']}: {x['reason']}" for x in na) or "None. All 20 properties are decided by E1/E2 as above."
strengthened=open('/verif/tools/strengthened.txt').read().strip() if os.path.exists('/verif/tools/strengthened.txt') else "(none further)."
tail=tail.replace('@@FIXES@@',"\n".join(fix_rows)).replace('@@KNOWN@@',"\n".join(known_rows)).replace('@@SEEDS@@',"\n".join(seeds)).replace('@@NA@@',na_txt).replace('@@STRENGTHENED@@',strengthened)
open(D,'w').write(s[:head_end]+tail+s[app:])
print("DESIGN.md regenerated:",len(fix_rows)-2,"fixes,",len(known_rows),"known,",len(seeds)-2,"seeds")
