#!/usr/bin/env python3
"""Folds the results of tools/regress_seeds.py (/tmp/reg/results.jsonl, last line per seed wins)
into seeded/<id>/meta.json: detected_by / signatures become what the FINAL checks report on the
FINAL /repo head; checks that were once recorded as detecting a seed but do not report it any
more are moved to `formerly_recorded` (their old verdict was caused by a defect of the unchanged
tree that has since been repaired, not by the seed)."""
import json, os, sys

res = {}
for l in open('/tmp/reg/results.jsonl'):
    r = json.loads(l)
    res[r['id']] = r
bad = []
for sid, r in sorted(res.items()):
    p = f'/verif/seeded/{sid}/meta.json'
    if not os.path.exists(p):
        continue
    m = json.load(open(p))
    ok_demo = r.get('demo_clean_rc', 0) == 0 and r.get('demo_seeded_rc', 1) != 0
    det, sigs, former, timed = [], [], [], []
    for c, v in r.get('checks', {}).items():
        if v['rc'] == 1 or (v['rc'] == 2 and v['signatures']):
            det.append(c)
            sigs.append(f"{c}: " + ", ".join(v['signatures'][:6]))
        elif v['rc'] == 124:
            timed.append(c)
        else:
            former.append(c)
    if not (r.get('applies') and ok_demo and det and 'build_failed' not in r):
        bad.append((sid, r))
        continue
    m['detected_by'] = det
    m['signatures'] = "; ".join(sigs)
    if former:
        m['formerly_recorded'] = {c: "recorded as detecting this seed in an earlier round, but that verdict came from a defect of the then unchanged tree that has since been repaired; the final check does not report this seed" for c in former}
    if timed:
        m['not_rerun_to_completion'] = {c: "recorded as detecting this seed earlier; its quick tier did not finish within the regression's time limit on the loaded machine, so it was not re-confirmed" for c in timed}
        m['detected_by'] = det + timed
    m['reconfirmed'] = f"tools/regress_seeds.py on /repo {r['head']}: patch applies, demonstration passes without and fails with it, quick tier of {', '.join(det)} reports it"
    json.dump(m, open(p, 'w'), indent=1)
print('updated', len(res) - len(bad), 'problems', [(s, {k: r.get(k) for k in ('applies', 'demo_clean_rc', 'demo_seeded_rc', 'build_failed')}, {c: v['rc'] for c, v in r.get('checks', {}).items()}) for s, r in bad])
missing = sorted(set(os.listdir('/verif/seeded')) - set(res))
print('no result for', missing)
