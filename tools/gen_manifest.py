#!/usr/bin/env python3
"""Generates MANIFEST.json from the table below (single source of truth)."""
import json
BASE = json.load(open('/root/.vp/BASELINE.json'))['cmd']
ALL = ["C%02d" % i for i in range(1, 21)]
# id -> (engine, technique, level text, level note, design ref)
CHECKS = {
 "C14": ("ring", "explicit-state BFS to fixpoint over abstract states of the real RingBuffer/PacketBuffer vs queue model",
         "Every reachable abstract state (capacity, read position, length[, metadata shapes]) of the real RingBuffer<u32> (cap 0..=8 quick, 0..=24 thorough) and PacketBuffer<u32> (slots 0..=3 x bytes 0..=8 quick, 0..=4 x 0..=12 thorough) is visited; from each, every public operation with every argument 0..=cap+1 (callbacks that accept k or decline) runs on the real code and the queue model plus the complete physical image are compared after each transition - an inductive, exhaustive argument within the capacity bound.",
         "Trusted: queue model; abstraction argument (code generic in T, never inspects elements); Debug image used as hook-free observation of read position/storage; documented-panic arguments excluded.", "2/C14"),
 "C15": ("asm", "explicit-state BFS to fixpoint over the real Assembler vs bitset reference",
         "Every state of the real Assembler reachable with add/remove_front/add_then_remove_front/clear over a bounded universe is visited (MAX=4: all states for N=12/16; MAX=32: all states for a small universe plus the d<=2/3 neighbourhood of the full 32-run comb) and the bitset oracle is evaluated on every transition; exhaustive within the stated universe, which is where merge/shift/limit logic lives.",
         "Trusted: the bitset reference model; bounds: universe size N, for MAX=32 depth around the comb.", "2/C15"),
}
NA_REASON = "check not built yet in this session (work in progress; see DESIGN.md order of work)"
m = {
 "version": 1,
 "setup_cmd": "./check --setup",
 "hooks": {"guard": "none yet (no hooks in /repo)", "enable": "n/a", "baseline_off_cmd": BASE, "source_commits": [], "add_only": True},
 "engines": [
   {"name": "mc", "path": "mc/", "serves_properties": sorted(CHECKS), "kind_free_text": "hand-rolled explicit-state / deviation-bounded explorers and bounded-exhaustive enumerators driving the real smoltcp code (Rust, path dependency on /repo)"},
 ],
 "checks": [],
 "not_applicable": [],
 "notes": "All checks: ./check <ID> [--tier quick|thorough] [--replay <artefact>]; exit 0 held / 1 VIOLATION / 2 machinery error. Known findings live in known_findings.json.",
}
for pid in ALL:
    if pid in CHECKS:
        eng, tech, text, note, ref = CHECKS[pid]
        m["checks"].append({
          "property_id": pid,
          "quick_cmd": "./check %s --tier quick" % pid,
          "thorough_cmd": "./check %s --tier thorough" % pid,
          "evidence_file": "evidence/%s.json" % pid,
          "replay_cmd_template": "./check %s --replay {path}" % pid,
          "engine": eng,
          "level_claimed": {"category": "model_checking", "text": text, "design_ref": "DESIGN.md section " + ref},
          "level_note": note,
          "technique": tech,
        })
    else:
        m["not_applicable"].append({"property_id": pid, "reason": NA_REASON})
json.dump(m, open('/verif/MANIFEST.json', 'w'), indent=1)
print("checks:", len(m["checks"]), "not_applicable:", len(m["not_applicable"]))
