#!/usr/bin/env python3
"""Generates MANIFEST.json from the table below (single source of truth)."""
import json
BASE = json.load(open('/root/.vp/BASELINE.json'))['cmd']
ALL = ["C%02d" % i for i in range(1, 21)]
# id -> (engine, technique, level text, level note, design ref)
CHECKS = {
 "C06": ("wire_rt", "bounded-exhaustive enumeration of Repr values (cross products of boundary alphabets) and of single-byte mutants: emit/parse round trip, buffer-independence of emit",
         "For 26 wire representation types (Ethernet, ARP, IPv4, IPv6 + extension headers/options, ICMPv4/6, NDISC + options, MLD, IGMP, UDP, TCP + options, DHCPv4, DNS, 802.15.4, 6LoWPAN IPHC/NHC/frag) every value of the per-field boundary cross product (quick 28k values; thorough 4.9M incl. the full TCP product, all 65536 UDP checksums, all 8192 IPHC base headers) is emitted into exact-length buffers pre-filled with 0x00/0xFF/0xA5 (no panic, identical bytes) and parsed back (equal value); every single-byte mutant of a representative subset that still parses must re-emit and re-parse to itself.",
         "Trusted: generators encode the statement's proviso (only values the protocol permits); equality is the derived PartialEq of the Repr types; DNS has no parse (round trip via accessors).", "2/C06"),
 "C04": ("tcp1", "explicit-state BFS with visited set: one real socket vs an adversarial but consistent peer, reference model of in-window offsets",
         "A real interface + socket is driven to ESTABLISHED (as server and as client); from every reached state every segment with sequence number around the last ACK / around the highest advertised right edge, every small length and the window-filling lengths, FIN exactly at the end of the peer's stream, application reads of 1/2/all bytes and timer ticks are applied (depth <=6 quick, <=9 thorough; receive buffers 2,3,4,8,64 and 70000 with window scaling; peer ISNs 0, 2^31-3, 2^32-3). After each step: delivered bytes equal the peer's stream and never exceed the contiguous prefix of bytes that were sent inside the advertised window; every ACK number emitted is covered by that prefix (+1 only for an eligible FIN); Finished only after all bytes.",
         "Trusted: independent segment builder/parser, reference model; safety only (acceptance of in-window data not demanded); eligibility judged against the highest right edge ever advertised (lenient).", "2/C04"),
 "C17": ("tcp1", "explicit-state BFS with visited set over single events; every observed state change checked against the RFC 9293 table with guards over wire-observable quantities",
         "From CLOSED, BFS over API calls (listen, connect, close, abort, send, recv), time advances (to poll_at, +10 s) and segments from flags x seq {rcv.nxt-1, rcv.nxt, rcv.nxt+1, edge-1, edge, far} x ack {iss, iss+1, snd.max-1, snd.max, snd.max+1, fin, fin+1, far} x len {0,1} (full alphabet depth <=5, reduced alphabet depth <=7 quick / 8 thorough). state() is read before and after the single ingress step and the egress pass that follows; each change must be an edge of the table in DESIGN.md Appendix A whose guard holds; TIME-WAIT must end exactly 10 s after entry/refresh.",
         "Trusted: the transition table (lenient where RFC and statement leave room), observables read from the socket's own segments by the independent parser; delayed ACK off so they are current.", "2/C17 + Appendix A"),
 "C07": ("wire_np", "bounded-exhaustive input enumeration over every checked packet view: new_checked then every applicable accessor, Repr::parse, pretty printer under catch_unwind",
         "For 28 wire view types: all byte strings of length 0-2 (and 3-4 over boundary alphabets), a catalogue of 176 well-formed packets with every truncation, every single-byte corruption (boundary values quick, all 255 thorough), pairs of corruptions on length/type/offset positions, thorough: padded to 2048 and full 256x256 products of layout-selecting bytes. Each accepted input gets every read accessor that applies to its own message type, Repr::parse (default and ignored checksums), Display and PrettyPrinter; name/option iterators are drained under a step budget and a watchdog.",
         "Trusted: per-type table of applicable accessors (reviewed against each module); inputs between 5 bytes and catalogue lengths exist only as catalogue derivatives.", "2/C07"),
 "C01": ("tcp2", "deviation-bounded exhaustive search over event schedules of two real TCP endpoints",
         "Two real smoltcp interfaces with one TCP socket each are joined by a network the explorer owns; every execution with at most k deviations (drop, duplicate, reorder, corrupt, timer-first/delay, reader stall) from the fault-free schedule is run to completion (k<=4 on the smallest configuration, k<=3 on twelve others in the quick tier; one more level in the thorough tier), over buffer sizes 8..128 KiB (window scaling), MTU 80..1500, none/Reno/CUBIC, Nagle/delayed-ACK on/off, IPv4/IPv6 and ISN pairs that wrap 2^31 and 2^32 mid-transfer. After every event the bytes handed to each application must be a prefix of what the peer wrote, and Finished requires all bytes.",
         "Trusted: the harness application model and network; bounds: k deviations, transfers of 20..3000 bytes, the listed configurations. ISNs are forced through the public random seed and verified on the wire.", "2/C01"),
 "C02": ("tcp2", "deviation-bounded exhaustive search; finite-deadline invariant after every poll; bounded-reachability liveness with exact deadlock detection",
         "Same executions as C01 (interfaces polled only on frame arrival and at poll_at). After every event: a live socket with queued data or an unacknowledged SYN/FIN must make Interface::poll_at return Some. Every run (finite fault prefix, then reliable delivery) must end with all bytes delivered, both applications told Finished and both sockets CLOSED; a state with nothing in flight, no deadline and no enabled application step is reported as deadlock, a 2000-event horizon catches livelock.",
         "Trusted: harness; liveness is bounded reachability under a fair default continuation, not LTL over infinite runs; bounds as C01.", "2/C02"),
 "C05": ("tcpsend", "monitor over every segment of every execution of the deviation-bounded tcp2 search",
         "Every segment either endpoint emits in every explored tcp2 execution is parsed by an independent TCP/IP parser and checked: payload equals the application's bytes for those sequence numbers (also retransmissions), payload <= peer MSS (with the documented clamp) and packet <= MTU, data within the highest right edge any delivered ACK ever gave (1-byte probe at the edge excepted), new data contiguous, FIN only after all data and nothing after it, SYN window unscaled and later windows equal to free space >> negotiated shift.",
         "Trusted: independent parser (wirecheck), lenient window reading (highest edge ever delivered); peers here are both smoltcp (adversarial-peer sender mode is future work); bounds as C01.", "2/C05"),
 "C08": ("cksum", "bounded-exhaustive enumeration: checksum routine vs independent RFC 1071 reference; every emitted frame verified; every single/double bit flip of checksummed regions must be dropped",
         "(a) wire::checksum::data/combine/pseudo_header against an independent reference for every length 0..=1024 (thorough 0..=4096, and 4097..=65535 for basis patterns) x 8 alignments x basis contents incl. one-hot at every position; combine on 4096^2 boundary pairs (thorough: all 2^32). (b) every frame emitted by real interfaces over a scenario suite (ICMP, UDP, TCP, fragments, all payload sizes, all capability settings with tx on) verifies under the independent implementation. (c) for 9 base packets per IP version that provably have an effect, every single-bit (thorough: double-bit) flip whose checksum is independently wrong must leave the SocketSet image unchanged and emit nothing.",
         "Trusted: independent RFC 1071 reference and offsets-only classifier; content space is basis patterns, not all contents; 6LoWPAN medium not exercised here (see C20).", "2/C08"),
 "C14": ("ring", "explicit-state BFS to fixpoint over abstract states of the real RingBuffer/PacketBuffer vs queue model",
         "Every reachable abstract state (capacity, read position, length[, metadata shapes]) of the real RingBuffer<u32> (cap 0..=8 quick, 0..=24 thorough) and PacketBuffer<u32> (slots 0..=3 x bytes 0..=8 quick, 0..=4 x 0..=12 thorough) is visited; from each, every public operation with every argument 0..=cap+1 (callbacks that accept k or decline) runs on the real code and the queue model plus the complete physical image are compared after each transition - an inductive, exhaustive argument within the capacity bound.",
         "Trusted: queue model; abstraction argument (code generic in T, never inspects elements); Debug image used as hook-free observation of read position/storage; documented-panic arguments excluded.", "2/C14"),
 "C15": ("asm", "explicit-state BFS to fixpoint over the real Assembler vs bitset reference",
         "Every state of the real Assembler reachable with add/remove_front/add_then_remove_front/clear over a bounded universe is visited (MAX=4: all states for N=12/16; MAX=32: all states for a small universe plus the d<=2/3 neighbourhood of the full 32-run comb) and the bitset oracle is evaluated on every transition; exhaustive within the stated universe, which is where merge/shift/limit logic lives.",
         "Trusted: the bitset reference model; bounds: universe size N, for MAX=32 depth around the comb.", "2/C15"),
}
NA_REASON = "check not built yet in this session (work in progress; see DESIGN.md order of work)"
m = {
 "version": 1,
 "setup_cmd": "./check --setup",
 "hooks": {"guard": "none yet (no hooks in /repo)", "enable": "n/a", "baseline_off_cmd": BASE, "source_commits": [], "add_only": True},
 "engines": [
   {"name": "mc", "path": "mc/", "serves_properties": sorted(CHECKS), "kind_free_text": "hand-rolled explicit-state / deviation-bounded explorers and bounded-exhaustive enumerators driving the real smoltcp code (Rust, path dependency on /repo)"},
 ],
 "checks": [],
 "not_applicable": [],
 "notes": "All checks: ./check <ID> [--tier quick|thorough] [--replay <artefact>]; exit 0 held / 1 VIOLATION / 2 machinery error. Known findings live in known_findings.json.",
}
for pid in ALL:
    if pid in CHECKS:
        eng, tech, text, note, ref = CHECKS[pid]
        m["checks"].append({
          "property_id": pid,
          "quick_cmd": "./check %s --tier quick" % pid,
          "thorough_cmd": "./check %s --tier thorough" % pid,
          "evidence_file": "evidence/%s.json" % pid,
          "replay_cmd_template": "./check %s --replay {path}" % pid,
          "engine": eng,
          "level_claimed": {"category": "model_checking", "text": text, "design_ref": "DESIGN.md section " + ref},
          "level_note": note,
          "technique": tech,
        })
    else:
        m["not_applicable"].append({"property_id": pid, "reason": NA_REASON})
json.dump(m, open('/verif/MANIFEST.json', 'w'), indent=1)
print("checks:", len(m["checks"]), "not_applicable:", len(m["not_applicable"]))
