//! tcp1 — ONE real interface + tcp::Socket; the peer is the explorer (crafted segments built
//! by an independent builder). Two clients of the BFS engine:
//!   C04: receiver safety (accepts exactly the in-window, in-sequence bytes of a consistent peer)
//!   C17: connection state diagram, one event at a time, guards over observable quantities.

use crate::core::*;
use crate::sim::*;
use crate::wirecheck as wc;
use serde_json::json;
use smoltcp::iface::{Config, Interface, SocketHandle, SocketSet};
use smoltcp::phy::Medium;
use smoltcp::socket::tcp::{self, State};
use smoltcp::time::Instant;
use smoltcp::wire::{HardwareAddress, IpAddress, IpCidr, Ipv4Address};

const LOCAL: [u8; 4] = [10, 0, 0, 1];
/// a second address of the interface in the same subnet (not the one source selection prefers)
const LOCAL2: [u8; 4] = [10, 0, 0, 3];
const PEER: [u8; 4] = [10, 0, 0, 2];
const LPORT: u16 = 80;
const PPORT: u16 = 40000;

/// Independent segment builder: IPv4 + TCP from the peer to the socket.
pub fn build_seg(seq: u32, ack: Option<u32>, flags: u8, win: u16, opts: &[u8], payload: &[u8]) -> Vec<u8> {
    build_seg_to(LOCAL, seq, ack, flags, win, opts, payload)
}

/// the same, addressed to `dst`
pub fn build_seg_to(dst: [u8; 4], seq: u32, ack: Option<u32>, flags: u8, win: u16, opts: &[u8], payload: &[u8]) -> Vec<u8> {
    let mut o = opts.to_vec();
    while o.len() % 4 != 0 {
        o.push(0);
    }
    let thl = 20 + o.len();
    let total = 20 + thl + payload.len();
    let mut b = vec![0u8; total];
    b[0] = 0x45;
    b[2] = (total >> 8) as u8;
    b[3] = total as u8;
    b[6] = 0x40;
    b[8] = 64;
    b[9] = 6;
    b[12..16].copy_from_slice(&PEER);
    b[16..20].copy_from_slice(&dst);
    let c = !wc::rfc1071_sum(&[&b[..20]]);
    b[10] = (c >> 8) as u8;
    b[11] = c as u8;
    {
        let t = &mut b[20..];
        t[0] = (PPORT >> 8) as u8;
        t[1] = PPORT as u8;
        t[2] = (LPORT >> 8) as u8;
        t[3] = LPORT as u8;
        t[4..8].copy_from_slice(&seq.to_be_bytes());
        t[8..12].copy_from_slice(&ack.unwrap_or(0).to_be_bytes());
        t[12] = ((thl / 4) as u8) << 4;
        t[13] = flags | if ack.is_some() { wc::TCP_ACK } else { 0 };
        t[14] = (win >> 8) as u8;
        t[15] = win as u8;
        t[20..thl].copy_from_slice(&o);
        t[thl..].copy_from_slice(payload);
    }
    let mut ph = vec![];
    ph.extend_from_slice(&PEER);
    ph.extend_from_slice(&dst);
    ph.extend_from_slice(&[0, 6, ((thl + payload.len()) >> 8) as u8, (thl + payload.len()) as u8]);
    let c = !wc::rfc1071_sum(&[&ph, &b[20..]]);
    b[36] = (c >> 8) as u8;
    b[37] = c as u8;
    b
}

pub struct One {
    pub iface: Interface,
    pub dev: SimDevice,
    pub sockets: SocketSet<'static>,
    pub h: SocketHandle,
    pub now: i64,
}
impl One {
    pub fn new(rx: usize, tx: usize, seed: u64) -> One {
        One::with_mtu(rx, tx, seed, 1500)
    }
    pub fn with_mtu(rx: usize, tx: usize, seed: u64, mtu: usize) -> One {
        One::with_mtu_burst(rx, tx, seed, mtu, None)
    }
    pub fn with_mtu_burst(rx: usize, tx: usize, seed: u64, mtu: usize, burst: Option<usize>) -> One {
        let mut dev = SimDevice::new(Medium::Ip, mtu);
        dev.max_burst = burst;
        let mut c = Config::new(HardwareAddress::Ip);
        c.random_seed = seed;
        let mut iface = Interface::new(c, &mut dev, Instant::from_micros(0));
        iface.update_ip_addrs(|a| {
            a.push(IpCidr::new(IpAddress::Ipv4(Ipv4Address::new(LOCAL[0], LOCAL[1], LOCAL[2], LOCAL[3])), 24)).unwrap();
        });
        let mut s = tcp::Socket::new(tcp::SocketBuffer::new(vec![0u8; rx]), tcp::SocketBuffer::new(vec![0u8; tx]));
        s.set_ack_delay(None);
        s.set_nagle_enabled(false);
        let mut sockets = SocketSet::new(vec![]);
        let h = sockets.add(s);
        One { iface, dev, sockets, h, now: 0 }
    }
    pub fn sock(&mut self) -> &mut tcp::Socket<'static> {
        self.sockets.get_mut::<tcp::Socket>(self.h)
    }
    pub fn state(&self) -> State {
        self.sockets.get::<tcp::Socket>(self.h).state()
    }
    pub fn inst(&self) -> Instant {
        Instant::from_micros(self.now)
    }
    pub fn poll(&mut self) -> Vec<Vec<u8>> {
        let t = self.inst();
        self.iface.poll(t, &mut self.dev, &mut self.sockets);
        self.dev.take_tx().into_iter().map(|x| x.1).collect()
    }
    pub fn ingress_single(&mut self, f: Vec<u8>) -> Vec<Vec<u8>> {
        let t = self.inst();
        self.dev.rx.push_back(f);
        self.iface.poll_ingress_single(t, &mut self.dev, &mut self.sockets);
        self.dev.take_tx().into_iter().map(|x| x.1).collect()
    }
    pub fn egress(&mut self) -> Vec<Vec<u8>> {
        let t = self.inst();
        let mut out = vec![];
        for _ in 0..8 {
            self.iface.poll_egress(t, &mut self.dev, &mut self.sockets);
            let f = self.dev.take_tx();
            if f.is_empty() {
                break;
            }
            out.extend(f.into_iter().map(|x| x.1));
        }
        out
    }
    pub fn poll_at(&mut self) -> Option<i64> {
        let t = self.inst();
        self.iface.poll_at(t, &self.sockets).map(|x| x.total_micros())
    }
    /// connect() with an explicit local address of the other address family (refused with
    /// Unaddressable after the cheap argument checks have passed)
    pub fn connect_bad(&mut self) -> bool {
        let cx = self.iface.context();
        let peer = IpAddress::Ipv4(Ipv4Address::new(PEER[0], PEER[1], PEER[2], PEER[3]));
        let local = IpAddress::Ipv6(smoltcp::wire::Ipv6Address::new(0xfd00, 0, 0, 0, 0, 0, 0, 1));
        self.sockets.get_mut::<tcp::Socket>(self.h).connect(cx, (peer, PPORT), (local, LPORT)).is_ok()
    }
    pub fn connect(&mut self) -> bool {
        let cx = self.iface.context();
        let peer = IpAddress::Ipv4(Ipv4Address::new(PEER[0], PEER[1], PEER[2], PEER[3]));
        self.sockets.get_mut::<tcp::Socket>(self.h).connect(cx, (peer, PPORT), LPORT).is_ok()
    }
}

fn parse_out(f: &[u8]) -> Option<wc::TcpInfo> {
    let ip = wc::parse_ip(f).ok()?;
    if ip.proto != 6 {
        return None;
    }
    wc::parse_tcp(&ip, f).ok()
}

fn stream_byte(o: usize) -> u8 {
    ((o * 7 + 1) % 251) as u8
}

// =======================================================================================
// C04 receiver harness
// =======================================================================================

#[derive(Clone, Debug)]
pub struct RxCfg {
    pub name: &'static str,
    pub rx: usize,
    pub l: usize,
    pub peer_isn: u32,
    pub server: bool,
    pub wscale: bool,
    /// value of the peer's window scale option (when `wscale`)
    pub peer_ws: u8,
    /// the socket has served an earlier connection (which left out-of-order data behind and
    /// was reset) before the connection under test
    pub reuse: bool,
    /// stray segments (bare FINs, FIN|ACK, data without ACK, at several sequence numbers) reach
    /// the socket while it is still in LISTEN / SYN-SENT, before the handshake under test
    pub stray: bool,
    /// alphabet includes reads during which the device refuses to transmit (the window update
    /// that follows the read never reaches the wire)
    pub bp: bool,
    /// the peer's SYN already carries the first `syn_data` octets of its stream (legal, RFC 9293
    /// 3.10.7.2: they may be kept or ignored, but what is ignored must not be acknowledged)
    pub syn_data: usize,
    /// DeviceCapabilities::max_burst_size (the interface then clamps the window field on the
    /// wire without the socket knowing); signatures get the suffix /burst-limited-device
    pub burst: Option<usize>,
    pub mtu: usize,
    /// (stream offset, length) of a data segment that reaches the socket in the middle of the
    /// handshake, BEFORE the socket's own SYN-ACK (server) / first ACK (client) has left the
    /// host (the frame was already queued behind the peer's SYN / SYN-ACK when poll ran): the
    /// peer guessed the ISS. No window (server) or only the SYN's window (client) has been on
    /// the wire, so whatever lies beyond that must not be accepted
    pub early: Option<(usize, usize)>,
    /// (ack delay, keep-alive interval) in ms: delayed ACKs are on and keep-alive probes are sent
    /// more often than the ACK delay, so a probe can leave while received octets are still
    /// unacknowledged (what it carries in its ACK and window fields is then what the peer knows)
    pub ka: Option<(u64, u64)>,
}

#[derive(Clone, Debug, PartialEq)]
pub enum RxEv {
    /// segment carrying stream offsets o..o+len (FIN iff o+len == L)
    Seg { o: usize, len: usize },
    Recv(usize),
    Tick,
    /// the peer resets the connection (RST exactly at RCV.NXT); afterwards only reads happen:
    /// end-of-stream must not be reported for a stream whose FIN never arrived
    Rst,
    /// application read followed by a poll during which the device accepts no frame; the device
    /// accepts again afterwards (nothing is polled then). Whatever window the socket WANTED to
    /// announce was not advertised: the model's right edge stays where the wire last put it
    RecvBlocked(usize),
}

pub struct Rx {
    cfg: RxCfg,
    w: One,
    base: u32, // sequence number of stream offset 0 (peer ISN + 1)
    iss: u32,
    shift: u32,
    r_off: i64, // last ACK number seen from the socket, as stream offset
    e_off: i64, // highest right edge ever advertised, as stream offset
    eligible: Vec<bool>,
    fin_eligible: bool,
    delivered: usize,
    finished: bool,
    reset: bool,
    pending: Vec<Viol>,
}

impl Rx {
    fn contig(&self) -> usize {
        self.eligible.iter().position(|&b| !b).unwrap_or(self.eligible.len())
    }
    fn observe(&mut self, frames: &[Vec<u8>]) {
        for f in frames {
            let Some(t) = parse_out(f) else { continue };
            if t.has(wc::TCP_RST) {
                self.pending.push(Viol::new("C04/unexpected-reset", format!("socket sent RST: {}", wc::describe_ip_frame(f))));
                continue;
            }
            if !t.has(wc::TCP_ACK) {
                // an active opener's SYN: its (never scaled) window field is the first window
                // on the wire, counted from the start of the peer's stream
                if t.has(wc::TCP_SYN) && (t.win as i64) > self.e_off {
                    self.e_off = t.win as i64;
                }
                continue;
            }
            let shift = if t.has(wc::TCP_SYN) { 0 } else { self.shift };
            let ack_off = wc::seq_diff(t.ack, self.base);
            let edge = ack_off + ((t.win as i64) << shift);
            self.r_off = ack_off;
            if edge > self.e_off {
                self.e_off = edge;
            }
            // the acknowledgment number never covers a byte (or FIN) not received
            let c = self.contig() as i64;
            let fin_ok = c as usize == self.cfg.l && self.fin_eligible;
            let limit = c + fin_ok as i64;
            if ack_off > limit {
                let what = if ack_off > c + 1 || c as usize != self.cfg.l { "data" } else { "fin" };
                self.pending.push(Viol::new(
                    format!("C04/ack-covers-unreceived-{}", what),
                    format!(
                        "socket acknowledged stream offset {} but only offsets < {} were ever sent inside the advertised window (FIN eligible: {}); {}",
                        ack_off,
                        c,
                        self.fin_eligible,
                        wc::describe_ip_frame(f)
                    ),
                ));
            }
        }
    }
    fn app_recv(&mut self, n: usize) {
        let mut buf = vec![0u8; n.min(1 << 17)];
        match self.w.sock().recv_slice(&mut buf) {
            Ok(k) => {
                for i in 0..k {
                    let o = self.delivered + i;
                    if o >= self.cfg.l || buf[i] != stream_byte(o) {
                        self.pending.push(Viol::new(
                            "C04/delivered-bytes-differ",
                            format!("byte delivered at stream offset {} is {:#x}, the peer's byte there is {:#x}", o, buf[i], if o < self.cfg.l { stream_byte(o) } else { 0 }),
                        ));
                        break;
                    }
                }
                self.delivered += k;
                if self.delivered > self.contig() {
                    self.pending.push(Viol::new(
                        "C04/accepted-data-beyond-window",
                        format!("application received {} bytes but only the first {} were ever sent inside the advertised window", self.delivered, self.contig()),
                    ));
                }
            }
            Err(tcp::RecvError::Finished) => {
                if !self.finished {
                    self.finished = true;
                    if self.delivered != self.cfg.l || !self.fin_eligible {
                        self.pending.push(Viol::new(
                            "C04/finished-early",
                            format!("recv reported Finished after {} of {} bytes (FIN sent in window: {})", self.delivered, self.cfg.l, self.fin_eligible),
                        ));
                    }
                }
            }
            Err(_) => {}
        }
    }
}

impl Harness for Rx {
    type Cfg = RxCfg;
    type Ev = RxEv;
    fn new(cfg: &RxCfg) -> Rx {
        let mut w = One::with_mtu_burst(cfg.rx, 64, 0x77, cfg.mtu, cfg.burst);
        if let Some((ad, ka)) = cfg.ka {
            w.sock().set_ack_delay(Some(smoltcp::time::Duration::from_millis(ad)));
            w.sock().set_keep_alive(Some(smoltcp::time::Duration::from_millis(ka)));
        }
        let p = cfg.peer_isn;
        let ws_opt: Vec<u8> = if cfg.wscale { vec![2, 4, 5, 180, 3, 3, cfg.peer_ws, 1] } else { vec![2, 4, 5, 180] };
        if cfg.reuse {
            // an earlier connection on the same socket object: handshake, one out-of-order
            // segment (a hole stays open in the reassembly state), then the peer resets it
            let q = p.wrapping_add(0x1357_9bdf);
            let mut fr;
            let iss0;
            if cfg.server {
                w.sock().listen(LPORT).unwrap();
                fr = w.ingress_single(build_seg(q, None, wc::TCP_SYN, 1000, &ws_opt, &[]));
                fr.extend(w.egress());
                iss0 = fr.iter().filter_map(|f| parse_out(f)).find(|t| t.has(wc::TCP_SYN)).expect("SYN-ACK").seq;
                w.ingress_single(build_seg(q.wrapping_add(1), Some(iss0.wrapping_add(1)), 0, 1000, &[], &[]));
            } else {
                assert!(w.connect());
                fr = w.egress();
                iss0 = fr.iter().filter_map(|f| parse_out(f)).find(|t| t.has(wc::TCP_SYN)).expect("SYN").seq;
                w.ingress_single(build_seg(q, Some(iss0.wrapping_add(1)), wc::TCP_SYN, 1000, &ws_opt, &[]));
            }
            w.egress();
            let ooo = cfg.rx.min(4).saturating_sub(1).max(1);
            w.ingress_single(build_seg(q.wrapping_add(1 + ooo as u32), Some(iss0.wrapping_add(1)), 0, 1000, &[], &[0xee]));
            w.egress();
            w.ingress_single(build_seg(q.wrapping_add(1), Some(iss0.wrapping_add(1)), wc::TCP_RST, 0, &[], &[]));
            w.egress();
            if w.state() != State::Closed {
                // (a server socket reset in ESTABLISHED closes; make sure it is reusable)
                w.sock().abort();
                w.egress();
            }
        }
        let mut frames;
        let mut early_frames: Vec<Vec<u8>> = vec![];
        let mut post: Vec<Vec<u8>> = vec![];
        let mut guess: Option<u32> = None;
        let iss;
        if cfg.server {
            w.sock().listen(LPORT).unwrap();
            if cfg.stray {
                for sq in [0u32, 5, 0x7fff_ffff, 0x8000_0000, 0x9000_0000, 0xffff_ffff, p, p.wrapping_add(1)] {
                    w.ingress_single(build_seg(sq, None, wc::TCP_FIN, 1000, &[], &[]));
                    w.ingress_single(build_seg(sq, Some(12345), wc::TCP_FIN, 1000, &[], &[]));
                    w.ingress_single(build_seg(sq, None, 0, 1000, &[], &[0xdd, 0xdd]));
                    w.ingress_single(build_seg(sq, None, wc::TCP_FIN | wc::TCP_PSH, 1000, &[], &[0xdd]));
                    w.egress();
                }
                if w.state() != State::Listen {
                    panic!("stray segments moved the listening socket to {}", w.state());
                }
            }
            let syn_payload: Vec<u8> = (0..cfg.syn_data).map(stream_byte).collect();
            frames = w.ingress_single(build_seg(p, None, wc::TCP_SYN, 1000, &ws_opt, &syn_payload));
            if let Some((eo, el)) = cfg.early {
                // the ISS is learned from a twin (same seed, same history): the peer "guesses" it
                let mut twin = One::with_mtu_burst(cfg.rx, 64, 0x77, cfg.mtu, cfg.burst);
                twin.sock().listen(LPORT).unwrap();
                let mut tf = twin.ingress_single(build_seg(p, None, wc::TCP_SYN, 1000, &ws_opt, &syn_payload));
                tf.extend(twin.egress());
                let g = tf.iter().filter_map(|f| parse_out(f)).find(|t| t.has(wc::TCP_SYN)).expect("twin SYN-ACK").seq;
                guess = Some(g);
                let payload: Vec<u8> = (eo..eo + el).map(stream_byte).collect();
                early_frames = w.ingress_single(build_seg(p.wrapping_add(1 + eo as u32), Some(g.wrapping_add(1)), wc::TCP_PSH, 1000, &[], &payload));
            }
            post.extend(w.egress());
            // (a socket that took the early segment for the end of the handshake never sends
            // its SYN-ACK: go on with the guessed ISS, the clauses below judge what it accepted)
            iss = match post.iter().filter_map(|f| parse_out(f)).find(|t| t.has(wc::TCP_SYN)) {
                Some(sa) => sa.seq,
                None => guess.expect("SYN-ACK"),
            };
            let f2 = w.ingress_single(build_seg(p.wrapping_add(1), Some(iss.wrapping_add(1)), 0, 1000, &[], &[]));
            post.extend(f2);
            post.extend(w.egress());
        } else {
            assert!(w.connect());
            frames = w.egress();
            let syn = frames.iter().filter_map(|f| parse_out(f)).find(|t| t.has(wc::TCP_SYN)).expect("SYN");
            iss = syn.seq;
            let f2 = w.ingress_single(build_seg(p, Some(iss.wrapping_add(1)), wc::TCP_SYN, 1000, &ws_opt, &[]));
            frames.extend(f2);
            if let Some((eo, el)) = cfg.early {
                let payload: Vec<u8> = (eo..eo + el).map(stream_byte).collect();
                early_frames = w.ingress_single(build_seg(p.wrapping_add(1 + eo as u32), Some(iss.wrapping_add(1)), wc::TCP_PSH, 1000, &[], &payload));
            }
            post.extend(w.egress());
        }
        let own_ws = frames.iter().chain(post.iter()).filter_map(|f| parse_out(f)).find(|t| t.has(wc::TCP_SYN)).and_then(|t| t.wscale);
        let shift = if cfg.wscale { own_ws.unwrap_or(0) as u32 } else { 0 };
        let mut h = Rx {
            cfg: cfg.clone(),
            w,
            base: p.wrapping_add(1),
            iss,
            shift,
            r_off: 0,
            e_off: 0,
            eligible: vec![false; cfg.l],
            fin_eligible: false,
            delivered: 0,
            finished: false,
            reset: false,
            pending: vec![],
        };
        // octets that travelled on the SYN were sent before any window was advertised: whether the
        // socket keeps them is its choice (lenient), so they count as eligible
        for i in 0..cfg.syn_data.min(cfg.l) {
            h.eligible[i] = true;
        }
        h.observe(&frames);
        if let Some((eo, el)) = cfg.early {
            // judged against what had been on the wire when the early segment was sent
            for i in eo..(eo + el).min(cfg.l) {
                if (i as i64) < h.e_off {
                    h.eligible[i] = true;
                }
            }
        }
        h.observe(&early_frames);
        h.observe(&post);
        if h.w.state() != State::Established {
            h.pending.push(Viol::new("MACHINERY/handshake-failed", format!("state {}", h.w.state())));
        }
        h
    }
    fn enabled(&self) -> Vec<(RxEv, u32)> {
        let mut v = vec![];
        let l = self.cfg.l as i64;
        let r = self.r_off;
        let e = self.e_off;
        let mut seqs = vec![r - 2, r - 1, r, r + 1, r + 2, e - 1, e, e + 1];
        seqs.sort();
        seqs.dedup();
        let mut lens = vec![0, 1, 2, 3, (e - r).clamp(0, 60000), (e - r + 2).clamp(0, 60000)];
        lens.sort();
        lens.dedup();
        for &o in &seqs {
            if o < 0 || o > l {
                continue;
            }
            let mut seen = std::collections::BTreeSet::new();
            for &n in &lens {
                let n = n.min(l - o);
                if seen.insert(n) {
                    v.push((RxEv::Seg { o: o as usize, len: n as usize }, 0));
                }
            }
        }
        if let Some((eo, _)) = self.cfg.early {
            // a filler that ends exactly where the early segment began: if the socket kept that
            // segment, its acknowledgment now jumps over octets it was never sent in window
            if r >= 0 && (r as usize) < eo {
                let ev = RxEv::Seg { o: r as usize, len: (eo - r as usize).min(60000) };
                if !v.iter().any(|(e, _)| *e == ev) {
                    v.push((ev, 0));
                }
            }
        }
        if self.reset {
            v.clear(); // a closed socket answers segments with RST; nothing more to learn
        } else {
            v.push((RxEv::Rst, 0));
        }
        v.push((RxEv::Recv(1), 0));
        v.push((RxEv::Recv(2), 0));
        v.push((RxEv::Recv(usize::MAX), 0));
        if self.cfg.bp && !self.reset {
            v.push((RxEv::RecvBlocked(2), 0));
            v.push((RxEv::RecvBlocked(usize::MAX), 0));
        }
        v.push((RxEv::Tick, 0));
        v
    }
    fn apply(&mut self, ev: &RxEv, out: &mut Vec<Viol>) {
        match *ev {
            RxEv::Seg { o, len } => {
                let payload: Vec<u8> = (o..o + len).map(stream_byte).collect();
                let fin = o + len == self.cfg.l;
                // eligibility is judged against what the socket had advertised when the
                // segment was sent (highest right edge so far)
                for i in o..o + len {
                    if (i as i64) < self.e_off {
                        self.eligible[i] = true;
                    }
                }
                if fin && (self.cfg.l as i64) <= self.e_off {
                    self.fin_eligible = true;
                }
                let seg = build_seg(
                    self.base.wrapping_add(o as u32),
                    Some(self.iss.wrapping_add(1)),
                    if fin { wc::TCP_FIN } else { 0 } | if len > 0 { wc::TCP_PSH } else { 0 },
                    1000,
                    &[],
                    &payload,
                );
                self.w.dev.rx.push_back(seg);
                let f = self.w.poll();
                self.observe(&f);
            }
            RxEv::Rst => {
                let seq = self.base.wrapping_add(self.r_off as u32);
                self.w.dev.rx.push_back(build_seg(seq, Some(self.iss.wrapping_add(1)), wc::TCP_RST, 0, &[], &[]));
                let f = self.w.poll();
                self.reset = true;
                self.observe(&f);
            }
            RxEv::RecvBlocked(n) => {
                self.app_recv(n);
                self.w.dev.tx_budget = Some(0);
                let f = self.w.poll();
                self.w.dev.tx_budget = None;
                if !f.is_empty() {
                    self.pending.push(Viol::new("MACHINERY/blocked-device-transmitted", format!("{} frames", f.len())));
                }
            }
            RxEv::Recv(n) => {
                self.app_recv(n);
                let f = self.w.poll();
                self.observe(&f);
            }
            RxEv::Tick => {
                if let Some(t) = self.w.poll_at() {
                    if t > self.w.now {
                        self.w.now = t;
                    }
                    let f = self.w.poll();
                    self.observe(&f);
                }
            }
        }
        if self.cfg.burst.is_some() {
            for v in self.pending.iter_mut() {
                if v.sig.starts_with("C04/") {
                    v.sig.push_str("/burst-limited-device");
                }
            }
        }
        out.append(&mut self.pending);
    }
    fn fingerprint(&self) -> u128 {
        let s = format!(
            "{:?}|{}|{}|{:?}|{}|{}|{}|{}|{}",
            self.w.sockets, self.r_off, self.e_off, self.eligible, self.fin_eligible, self.delivered, self.finished, self.w.now, self.reset
        );
        fp128(&s)
    }
    fn outcome(&self) -> String {
        format!("{} delivered {}", self.w.state(), self.delivered)
    }
}

pub fn rx_configs(tier: Tier) -> Vec<(RxCfg, usize)> {
    let mut v = vec![];
    let (d_small, d_big) = if tier == Tier::Quick { (6, 3) } else { (9, 4) };
    let base = RxCfg { name: "srv", rx: 4, l: 6, peer_isn: 0xffff_fffd, server: true, wscale: false, peer_ws: 0, reuse: false, stray: false, bp: false, syn_data: 0, burst: None, mtu: 1500, early: None, ka: None };
    for &(rx, l) in &[(2usize, 6usize), (3, 6), (4, 6), (8, 10), (64, 10)] {
        v.push((RxCfg { rx, l, ..base.clone() }, d_small));
    }
    v.push((RxCfg { name: "cli", peer_isn: 0x7fff_fffd, server: false, ..base.clone() }, d_small));
    v.push((RxCfg { name: "srv0", l: 10, peer_isn: 0, ..base.clone() }, d_small));
    v.push((RxCfg { name: "wscale", rx: 70000, l: 70010, peer_isn: 0x7fff_0000, wscale: true, ..base.clone() }, d_big));
    // the peer announces a larger window scale than ours (ours is 0 for small buffers)
    v.push((RxCfg { name: "peer-ws5", rx: 8, l: 12, wscale: true, peer_ws: 5, ..base.clone() }, d_small));
    v.push((RxCfg { name: "peer-ws5-cli", rx: 8, l: 12, wscale: true, peer_ws: 5, server: false, peer_isn: 77, ..base.clone() }, d_small));
    // reads whose window update is lost inside the device
    v.push((RxCfg { name: "blocked-window-update", rx: 4, l: 8, bp: true, ..base.clone() }, d_small));
    v.push((RxCfg { name: "blocked-window-update-rx64", rx: 64, l: 130, bp: true, peer_isn: 0x7fff_ffc0, ..base.clone() }, d_small.min(5)));
    // burst-limited device: the window field on the wire is clamped by the interface
    v.push((RxCfg { name: "burst1-rx1200-mtu576", rx: 1200, l: 1300, burst: Some(1), mtu: 576, ..base.clone() }, d_small.min(4)));
    // the SYN carries data
    v.push((RxCfg { name: "data-on-syn", rx: 8, l: 10, syn_data: 3, ..base.clone() }, d_small));
    // a data segment overtakes the socket's own SYN-ACK / first ACK (queued behind the peer's
    // SYN / SYN-ACK in the same poll)
    v.push((RxCfg { name: "early-data-srv", rx: 8, l: 10, early: Some((0, 3)), ..base.clone() }, d_small));
    v.push((RxCfg { name: "early-data-srv-ooo", rx: 8, l: 10, early: Some((2, 3)), ..base.clone() }, d_small));
    v.push((RxCfg { name: "early-data-cli", rx: 8, l: 10, early: Some((0, 3)), server: false, peer_isn: 0x7fff_fffd, ..base.clone() }, d_small));
    v.push((RxCfg { name: "early-data-cli-wscale-beyond-syn-window", rx: 70000, l: 70010, peer_isn: 0x7fff_0000, wscale: true, server: false, early: Some((66000, 10)), ..base.clone() }, d_big));
    v.push((RxCfg { name: "early-data-srv-wscale", rx: 70000, l: 70010, peer_isn: 0x7fff_0000, wscale: true, early: Some((66000, 10)), ..base.clone() }, d_big));
    // keep-alive probes that leave while an ACK is still delayed
    v.push((RxCfg { name: "keepalive-5ms-ackdelay-10ms", rx: 8, l: 16, ka: Some((10, 5)), ..base.clone() }, d_small));
    v.push((RxCfg { name: "keepalive-5ms-ackdelay-10ms-cli", rx: 8, l: 16, ka: Some((10, 5)), server: false, peer_isn: 0x7fff_fffd, ..base.clone() }, d_small));
    // a big buffer facing a peer that does not offer window scaling (passive and active open)
    v.push((RxCfg { name: "bigrx-peer-without-ws-srv", rx: 70000, l: 70010, peer_isn: 0x7fff_0000, wscale: false, ..base.clone() }, d_big));
    v.push((RxCfg { name: "bigrx-peer-without-ws-cli", rx: 70000, l: 70010, peer_isn: 0x7fff_0000, wscale: false, server: false, ..base.clone() }, d_big));
    // stray FINs / data reach the listening socket before the handshake
    v.push((RxCfg { name: "stray-before-syn", rx: 8, l: 6, stray: true, ..base.clone() }, d_small));
    // socket objects that served a connection before
    v.push((RxCfg { name: "reuse-srv", rx: 8, l: 10, reuse: true, ..base.clone() }, d_small));
    v.push((RxCfg { name: "reuse-cli", rx: 8, l: 10, reuse: true, server: false, peer_isn: 0x7fff_fff0, ..base.clone() }, d_small));
    v
}

pub fn run_c04(tier: Tier) -> i32 {
    let mut rep = Report::new("C04", tier);
    let lim = Limits { max_states: 3_000_000, max_wall_s: if tier == Tier::Quick { 40.0 } else { 900.0 } };
    for (cfg, d) in rx_configs(tier) {
        let mut samples = vec![];
        let mut found = vec![];
        match bfs::<Rx>("tcp1rx", &cfg, d, &lim, &mut found, &mut samples) {
            Ok(st) => {
                rep.absorb(&format!("tcp1 receiver {} rx={} L={} isn={:#x} depth<={}", cfg.name, cfg.rx, cfg.l, cfg.peer_isn, d), &st);
                if rep.samples.len() < 4 {
                    rep.samples.extend(samples);
                }
            }
            Err(e) => rep.machinery_errors.push(e),
        }
        for f in found {
            if f.viol.sig.starts_with("MACHINERY") {
                rep.machinery_errors.push(f.viol.detail);
            } else {
                rep.found.push(f);
            }
        }
    }
    rep.cov("rule", json!("BFS with visited set over (real socket image, reference model): from every reached state every segment with seq in {r-2..r+2, e-1, e, e+1} (r = last ACK the socket sent, e = highest right edge it ever advertised) x len in {0,1,2,3,e-r,e-r+2}, FIN exactly at the end of the peer's stream, application reads of 1/2/all bytes, and timer ticks; oracle after every step"));
    rep.assumptions.push("peer is consistent (fixed byte per sequence offset, FIN at a fixed offset); safety only: acceptance of in-window data is not demanded (the assembler may refuse a hole)".into());
    rep.assumptions.push("eligibility is judged against the HIGHEST right edge the socket ever advertised (lenient)".into());
    rep.finish()
}

fn rx_cfg_from(art: &serde_json::Value) -> Option<RxCfg> {
    let s = art["replay"]["config"].as_str()?;
    rx_configs(Tier::Thorough).into_iter().map(|c| c.0).find(|c| format!("{:?}", c) == s)
}
pub fn replay_c04(art: &serde_json::Value) -> i32 {
    match rx_cfg_from(art) {
        Some(c) => replay_artifact::<Rx>(&c, art),
        None => {
            eprintln!("unknown configuration");
            2
        }
    }
}

// =======================================================================================
// C17 state-machine harness
// =======================================================================================

#[derive(Clone, Debug)]
pub struct FsmCfg {
    pub name: &'static str,
    pub peer_isn: u32,
    pub rx: usize,
    /// reduced alphabet (fewer sequence/ack choices) to reach deeper
    pub reduced: bool,
    /// window the peer's segments advertise
    pub peer_win: u16,
    /// octets written by the `Send1` API event (more than `peer_win`: the FIN of a later
    /// close() cannot follow the data at once, so FIN-WAIT-1 / LAST-ACK exist with the FIN unsent)
    pub send_len: usize,
    /// RST-acceptance mode: delayed ACKs are ON (so a zero-window probe can piggy-back the ACK of
    /// fresh data), the clock can advance without a poll (`Sleep1s`), the alphabet is cut down to
    /// what the history needs, and ONLY transitions caused by RST segments are judged: with
    /// delayed ACKs the observed RCV.NXT lags, which the other guards cannot tolerate, while the
    /// RST guard can (the socket accepts a RST only in [RCV.NXT, last advertised edge), a subset
    /// of the observed [last ACK sent, last advertised edge)).
    pub rst_mode: bool,
    /// the interface owns two addresses of one subnet and the peer talks to the SECOND one
    /// (the one source-address selection would not pick for this peer)
    pub second_addr: bool,
    /// window advertised by the peer's segments that carry FIN (None: `peer_win` like all others)
    pub fin_win: Option<u16>,
    /// the exploration starts in TIME-WAIT (reached through listen, SYN, ACK, close(), FIN|ACK
    /// applied as ordinary events) and the clock can also move in 7 s steps, so that what a
    /// segment does to the 2MSL timer in the middle of TIME-WAIT becomes visible
    pub start_tw: bool,
    /// the interface owns a second address of the same subnet; the connection lives on the FIRST
    /// one, and the alphabet also has segments with the connection's ports and acceptable
    /// sequence numbers addressed to the SECOND one: they belong to no connection of this
    /// socket and must not move it
    pub stray_to_second: bool,
}

#[derive(Clone, Debug, PartialEq)]
pub enum Api {
    Listen,
    /// listen() / connect() with arguments the socket must refuse (port 0; a local address whose
    /// family differs from the remote's): an API call that returns an error must not
    /// change the state
    ListenBad,
    ConnectBad,
    /// set_keep_alive(Some(75 s)) / set_timeout(None): option calls are not state-machine events;
    /// they must change neither the state nor what the running timers will do to it
    SetKeepAlive,
    Connect,
    Close,
    Abort,
    Send1,
    Recv,
}

#[derive(Clone, Debug, PartialEq)]
pub enum FsmEv {
    Seg { flags: u8, seq: u32, ack: Option<u32>, len: usize },
    Api(Api),
    ToPollAt,
    Plus10s,
    /// the clock advances by 7 s, then one egress pass (only with `start_tw`)
    Plus7s,
    /// a segment like `Seg`, but addressed to the interface's second address
    StraySeg { flags: u8, seq: u32, ack: Option<u32>, len: usize },
    /// the clock advances by 1 s and nobody polls (only in `rst_mode`)
    Sleep1s,
    /// like ToPollAt, but the device refuses every frame during that poll (a retransmission
    /// that is due cannot leave); the device accepts again afterwards
    ToPollAtBlocked,
}

#[derive(Clone, Debug, Default)]
struct Obs {
    iss: Option<u32>,
    snd_max: Option<u32>,
    fin_seq: Option<u32>,
    rcv_nxt: Option<u32>,
    edge: Option<u32>,
    was_listening: bool,
    /// close() was called while the socket was in SYN-RECEIVED (its SYN still unacknowledged);
    /// used only to NAME violations that follow from it
    closed_in_synrcvd: bool,
    /// earliest / latest possible TIME-WAIT deadline (entry, or refresh by a later segment)
    tw_min: Option<i64>,
    tw_max: Option<i64>,
}

pub struct Fsm {
    cfg: FsmCfg,
    w: One,
    obs: Obs,
    pending: Vec<Viol>,
}

fn st_name(s: State) -> String {
    format!("{}", s)
}

impl Fsm {
    fn observe(&mut self, frames: &[Vec<u8>]) {
        for f in frames {
            let Some(t) = parse_out(f) else { continue };
            if t.has(wc::TCP_RST) {
                continue;
            }
            if t.has(wc::TCP_SYN) {
                if self.obs.iss != Some(t.seq) {
                    // a new connection attempt: forget the previous connection's numbers
                    let wl = self.obs.was_listening;
                    let cs = self.obs.closed_in_synrcvd && self.obs.iss.is_none();
                    self.obs = Obs { was_listening: wl, closed_in_synrcvd: cs, ..Default::default() };
                }
                self.obs.iss = Some(t.seq);
            }
            let end = t.seq.wrapping_add(t.seg_len as u32);
            self.obs.snd_max = Some(match self.obs.snd_max {
                Some(m) if wc::seq_lt(end, m) => m,
                _ => end,
            });
            if t.has(wc::TCP_FIN) {
                self.obs.fin_seq = Some(t.seq.wrapping_add(t.payload.len() as u32));
            }
            if t.has(wc::TCP_ACK) {
                self.obs.rcv_nxt = Some(t.ack);
                self.obs.edge = Some(t.ack.wrapping_add(t.win as u32));
            }
        }
    }

    fn in_window(&self, seq: u32) -> bool {
        match (self.obs.rcv_nxt, self.obs.edge) {
            (Some(n), Some(e)) => {
                if n == e {
                    seq == n
                } else {
                    wc::seq_le(n, seq) && wc::seq_lt(seq, e)
                }
            }
            _ => false,
        }
    }

    /// Is the observed transition from -> to allowed for this stimulus? (Appendix A of DESIGN.md)
    fn allowed(&self, from: State, to: State, stim: &Stim) -> bool {
        if from == to {
            return true;
        }
        let o = &self.obs;
        match stim {
            Stim::Api(Api::Abort, _) => to == State::Closed,
            Stim::Api(Api::Listen | Api::ListenBad, ok) => *ok && matches!(from, State::Closed | State::TimeWait) && to == State::Listen,
            Stim::Api(Api::Connect | Api::ConnectBad, ok) => *ok && matches!(from, State::Closed | State::TimeWait) && to == State::SynSent,
            Stim::Api(Api::Close, _) => matches!(
                (from, to),
                (State::Listen, State::Closed)
                    | (State::SynSent, State::Closed)
                    | (State::SynReceived, State::FinWait1)
                    | (State::Established, State::FinWait1)
                    | (State::CloseWait, State::LastAck)
            ),
            Stim::Api(_, _) => false,
            Stim::Egress(t) => from == State::TimeWait && to == State::Closed && o.tw_min.map_or(false, |d| *t >= d),
            Stim::Seg { flags, seq, ack, len } => {
                let syn = flags & wc::TCP_SYN != 0;
                let fin = flags & wc::TCP_FIN != 0;
                let rst = flags & wc::TCP_RST != 0;
                let has_ack = ack.is_some();
                let ack_is = |v: Option<u32>| -> bool { matches!((ack, v), (Some(a), Some(b)) if *a == b) };
                let iss1 = o.iss.map(|i| i.wrapping_add(1));
                let fin1 = o.fin_seq.map(|i| i.wrapping_add(1));
                let n = *len as u32;
                let inorder_fin = fin
                    && !syn
                    && !rst
                    && match (o.rcv_nxt, o.edge) {
                        (Some(r), Some(e)) => wc::seq_le(*seq, r) && wc::seq_le(r, seq.wrapping_add(n)) && wc::seq_le(seq.wrapping_add(n), e),
                        _ => false,
                    };
                let ack_acceptable = match (ack, iss1, o.snd_max) {
                    (Some(a), Some(lo), Some(hi)) => wc::seq_le(lo, *a) && wc::seq_le(*a, hi),
                    _ => false,
                };
                let rst_in_window = rst && self.in_window(*seq);
                // a data/ack segment is "in window" if any part of it is (lenient)
                let seg_in_window = self.in_window(*seq)
                    || (n > 0
                        && match (o.rcv_nxt, o.edge) {
                            (Some(r), Some(e)) => wc::seq_lt(r, seq.wrapping_add(n)) && wc::seq_le(seq.wrapping_add(n), e),
                            _ => false,
                        });
                match (from, to) {
                    (State::Listen, State::SynReceived) => syn && !has_ack && !rst,
                    (State::SynSent, State::Established) => syn && !rst && ack_is(iss1),
                    (State::SynSent, State::SynReceived) => syn && !has_ack && !rst,
                    (State::SynSent, State::Closed) => rst && ack_is(iss1),
                    (State::SynReceived, State::Established) => has_ack && !syn && !rst && !inorder_fin && ack_is(iss1) && seg_in_window,
                    (State::SynReceived, State::CloseWait) => inorder_fin && ack_is(iss1),
                    (State::SynReceived, State::Listen) => rst_in_window && o.was_listening,
                    (State::SynReceived, State::Closed) => rst_in_window && !o.was_listening,
                    (State::Established, State::CloseWait) => inorder_fin && ack_acceptable,
                    (State::FinWait1, State::FinWait2) => !rst && !syn && ack_is(fin1) && !inorder_fin,
                    (State::FinWait1, State::Closing) => inorder_fin && !ack_is(fin1),
                    (State::FinWait1, State::TimeWait) => inorder_fin && ack_is(fin1),
                    (State::FinWait2, State::TimeWait) => inorder_fin,
                    (State::Closing, State::TimeWait) => !rst && !syn && ack_is(fin1),
                    (State::LastAck, State::Closed) => (!rst && !syn && ack_is(fin1)) || rst_in_window,
                    (State::Established | State::FinWait1 | State::FinWait2 | State::CloseWait | State::Closing | State::TimeWait, State::Closed) => rst_in_window,
                    _ => false,
                }
            }
        }
    }

    fn check(&mut self, from: State, to: State, stim: &Stim) {
        let judged = !self.cfg.rst_mode || matches!(stim, Stim::Seg { flags, .. } if flags & wc::TCP_RST != 0);
        if judged && !self.allowed(from, to, stim) {
            let cause = match stim {
                Stim::Api(a, ok) => format!("api-{:?}-{}", a, if *ok { "ok" } else { "err" }),
                Stim::Egress(_) => "egress".to_string(),
                Stim::Seg { flags, seq, ack, len } => {
                    let mut f = String::new();
                    for (b, n) in [(wc::TCP_SYN, "S"), (wc::TCP_FIN, "F"), (wc::TCP_RST, "R"), (wc::TCP_PSH, "P")] {
                        if flags & b != 0 {
                            f.push_str(n);
                        }
                    }
                    if ack.is_some() {
                        f.push('A');
                    }
                    let o = &self.obs;
                    // name the relation of the stimulus to the quantities the guards use, not
                    // its raw numbers: the same defect must collapse into one signature
                    let ackrel = match (ack, o.iss, o.fin_seq) {
                        (None, _, _) => "noack".to_string(),
                        (Some(a), iss, fin) => {
                            let mut r = vec![];
                            if iss.map_or(false, |i| *a == i.wrapping_add(1)) {
                                r.push("iss+1");
                            }
                            match fin {
                                Some(fs) if *a == fs.wrapping_add(1) => r.push("fin+1"),
                                Some(_) => r.push("not-fin+1"),
                                None => r.push("fin-unsent"),
                            }
                            r.join(",")
                        }
                    };
                    let seqrel = if self.in_window(*seq) { "in-window" } else { "out-of-window" };
                    let _ = len;
                    format!("seg-{}/ack={}/seq-{}", if f.is_empty() { "none".to_string() } else { f }, ackrel, seqrel)
                }
            };
            self.pending.push(Viol::new(
                format!(
                    "C17/illegal-transition/{}/{}->{}/{}",
                    if self.obs.closed_in_synrcvd { "after-close-in-SYN-RECEIVED" } else { "plain" },
                    st_name(from),
                    st_name(to),
                    cause
                ),
                format!("state changed {} -> {} on {:?}; observables {:?}", from, to, stim, self.obs),
            ));
        }
        // bookkeeping of TIME-WAIT deadlines
        if to == State::TimeWait && from != State::TimeWait {
            self.obs.tw_min = Some(self.w.now + 10_000_000);
            self.obs.tw_max = Some(self.w.now + 10_000_000);
        } else if to == State::TimeWait && matches!(stim, Stim::Seg { flags, .. } if flags & wc::TCP_RST == 0) {
            // a segment arriving in TIME-WAIT may legitimately restart the 2MSL timer - but not
            // a RST: it either resets the connection (acceptable) or is dropped without effect
            self.obs.tw_max = Some(self.w.now + 10_000_000);
        }
        if to != State::TimeWait {
            self.obs.tw_min = None;
            self.obs.tw_max = None;
        }
    }

    fn egress_step(&mut self) {
        let pre = self.w.state();
        let frames = self.w.egress();
        let post = self.w.state();
        let now = self.w.now;
        self.check(pre, post, &Stim::Egress(now));
        // TIME-WAIT must end by itself: an egress pass at/after the latest possible deadline
        if pre == State::TimeWait && post == State::TimeWait {
            if let Some(d) = self.obs.tw_max {
                if now >= d {
                    self.pending.push(Viol::new("C17/time-wait-not-left-after-10s", format!("still TIME-WAIT at t={}us, deadline {}us", now, d)));
                }
            }
        }
        self.observe(&frames);
    }
}

#[derive(Clone, Debug)]
enum Stim {
    Seg { flags: u8, seq: u32, ack: Option<u32>, len: usize },
    Api(Api, bool),
    Egress(i64),
}

impl Harness for Fsm {
    type Cfg = FsmCfg;
    type Ev = FsmEv;
    fn new(cfg: &FsmCfg) -> Fsm {
        let mut w = One::new(cfg.rx, 8, 0x99);
        if cfg.rst_mode {
            w.sock().set_ack_delay(Some(smoltcp::time::Duration::from_millis(10)));
        }
        if cfg.second_addr || cfg.stray_to_second {
            w.iface.update_ip_addrs(|a| {
                a.push(IpCidr::new(IpAddress::Ipv4(Ipv4Address::new(LOCAL2[0], LOCAL2[1], LOCAL2[2], LOCAL2[3])), 24)).unwrap();
            });
        }
        let mut f = Fsm { cfg: cfg.clone(), w, obs: Obs::default(), pending: vec![] };
        if cfg.start_tw {
            let p = cfg.peer_isn;
            let mut sink = vec![];
            f.apply(&FsmEv::Api(Api::Listen), &mut sink);
            f.apply(&FsmEv::Seg { flags: wc::TCP_SYN, seq: p, ack: None, len: 0 }, &mut sink);
            let iss = f.obs.iss.expect("start_tw: no SYN-ACK");
            f.apply(&FsmEv::Seg { flags: 0, seq: p.wrapping_add(1), ack: Some(iss.wrapping_add(1)), len: 0 }, &mut sink);
            f.apply(&FsmEv::Api(Api::Close), &mut sink);
            f.apply(&FsmEv::Seg { flags: wc::TCP_FIN, seq: p.wrapping_add(1), ack: Some(iss.wrapping_add(2)), len: 0 }, &mut sink);
            if f.w.state() != State::TimeWait {
                sink.push(Viol::new("MACHINERY/start-tw-prefix", format!("prefix ended in {}", f.w.state())));
            }
            f.pending = sink;
        }
        f
    }
    fn enabled(&self) -> Vec<(FsmEv, u32)> {
        let mut v = vec![];
        if self.cfg.rst_mode {
            for a in [Api::Listen, Api::Send1, Api::Recv] {
                v.push((FsmEv::Api(a), 0));
            }
            v.push((FsmEv::ToPollAt, 0));
            v.push((FsmEv::Sleep1s, 0));
            if self.w.state() == State::Closed {
                return v;
            }
            let o = &self.obs;
            let p = self.cfg.peer_isn;
            let n = o.rcv_nxt.unwrap_or(p);
            let e = o.edge.unwrap_or(n);
            match o.iss {
                None => v.push((FsmEv::Seg { flags: wc::TCP_SYN, seq: p, ack: None, len: 0 }, 0)),
                Some(i) => {
                    let a = Some(i.wrapping_add(1));
                    let mut seqs = vec![n, e.wrapping_sub(1), e, e.wrapping_add(1)];
                    seqs.sort();
                    seqs.dedup();
                    for &seq in &seqs {
                        v.push((FsmEv::Seg { flags: wc::TCP_RST, seq, ack: None, len: 0 }, 0));
                        v.push((FsmEv::Seg { flags: wc::TCP_RST, seq, ack: a, len: 0 }, 0));
                    }
                    v.push((FsmEv::Seg { flags: 0, seq: n, ack: a, len: 0 }, 0));
                    v.push((FsmEv::Seg { flags: 0, seq: n, ack: a, len: 1 }, 0));
                    v.push((FsmEv::Seg { flags: 0, seq: n.wrapping_add(1), ack: a, len: 1 }, 0));
                }
            }
            return v;
        }
        for a in [Api::Listen, Api::Connect, Api::Close, Api::Abort, Api::Send1, Api::Recv, Api::ListenBad, Api::ConnectBad, Api::SetKeepAlive] {
            v.push((FsmEv::Api(a), 0));
        }
        v.push((FsmEv::ToPollAt, 0));
        v.push((FsmEv::Plus10s, 0));
        if self.cfg.start_tw {
            v.push((FsmEv::Plus7s, 0));
        }
        v.push((FsmEv::ToPollAtBlocked, 0));
        if self.w.state() == State::Closed {
            return v; // a closed socket accepts no segment; nothing to learn from sending any
        }
        let o = &self.obs;
        let p = self.cfg.peer_isn;
        let n = o.rcv_nxt.unwrap_or(p);
        let e = o.edge.unwrap_or(n);
        let mut seqs: Vec<u32> = if self.cfg.reduced {
            vec![n.wrapping_sub(1), n, e]
        } else {
            vec![n.wrapping_sub(1), n, n.wrapping_add(1), e.wrapping_sub(1), e, e.wrapping_add(5)]
        };
        seqs.sort();
        seqs.dedup();
        let mut acks: Vec<u32> = vec![];
        match o.iss {
            Some(i) => {
                acks.push(i.wrapping_add(1));
                if !self.cfg.reduced {
                    acks.push(i);
                    acks.push(i.wrapping_add(100_000));
                }
                if let Some(m) = o.snd_max {
                    acks.push(m);
                    if !self.cfg.reduced {
                        acks.push(m.wrapping_sub(1));
                        acks.push(m.wrapping_add(1));
                    }
                }
                if let Some(f) = o.fin_seq {
                    acks.push(f.wrapping_add(1));
                    acks.push(f);
                }
            }
            None => {
                acks.push(0);
                acks.push(12345);
            }
        }
        acks.sort();
        acks.dedup();
        let noack_flags = [wc::TCP_SYN, wc::TCP_RST, wc::TCP_FIN, 0];
        let ack_flags = [wc::TCP_SYN, 0, wc::TCP_FIN, wc::TCP_RST, wc::TCP_PSH];
        for &seq in &seqs {
            for len in [0usize, 1] {
                for &fl in &noack_flags {
                    if self.cfg.reduced && (fl == 0 || fl == wc::TCP_FIN) {
                        continue;
                    }
                    v.push((FsmEv::Seg { flags: fl, seq, ack: None, len }, 0));
                }
                for &fl in &ack_flags {
                    if self.cfg.reduced && fl == wc::TCP_PSH {
                        continue;
                    }
                    for &a in &acks {
                        v.push((FsmEv::Seg { flags: fl, seq, ack: Some(a), len }, 0));
                    }
                }
            }
        }
        if self.cfg.stray_to_second && self.obs.iss.is_some() && !matches!(self.w.state(), State::Listen) {
            // the most consequential segments, at the exactly expected sequence number
            let a = acks.last().copied();
            for fl in [wc::TCP_FIN, wc::TCP_RST, 0] {
                v.push((FsmEv::StraySeg { flags: fl, seq: n, ack: a, len: if fl == 0 { 1 } else { 0 } }, 0));
            }
            v.push((FsmEv::StraySeg { flags: wc::TCP_RST, seq: n, ack: None, len: 0 }, 0));
        }
        v
    }
    fn apply(&mut self, ev: &FsmEv, out: &mut Vec<Viol>) {
        match ev {
            FsmEv::Seg { flags, seq, ack, len } => {
                let payload = vec![0x5a; *len];
                let seg = build_seg_to(if self.cfg.second_addr { LOCAL2 } else { LOCAL }, *seq, *ack, *flags, if flags & wc::TCP_FIN != 0 { self.cfg.fin_win.unwrap_or(self.cfg.peer_win) } else { self.cfg.peer_win }, if flags & wc::TCP_SYN != 0 { &[2, 4, 5, 180] } else { &[] }, &payload);
                let pre = self.w.state();
                if pre == State::Listen {
                    self.obs.was_listening = true;
                }
                let frames = self.w.ingress_single(seg);
                let mid = self.w.state();
                self.check(pre, mid, &Stim::Seg { flags: *flags, seq: *seq, ack: *ack, len: *len });
                self.observe(&frames);
                self.egress_step();
            }
            FsmEv::Api(a) => {
                let pre = self.w.state();
                let ok = match a {
                    Api::Listen => {
                        let r = self.w.sock().listen(LPORT).is_ok();
                        if r {
                            self.obs = Obs { was_listening: true, ..Default::default() };
                        }
                        r
                    }
                    Api::SetKeepAlive => {
                        self.w.sock().set_keep_alive(Some(smoltcp::time::Duration::from_secs(75)));
                        true
                    }
                    Api::ListenBad => self.w.sock().listen(0).is_ok(),
                    Api::ConnectBad => self.w.connect_bad(),
                    Api::Connect => {
                        let r = self.w.connect();
                        if r {
                            self.obs = Obs { was_listening: false, ..Default::default() };
                        }
                        r
                    }
                    Api::Close => {
                        self.w.sock().close();
                        true
                    }
                    Api::Abort => {
                        self.w.sock().abort();
                        true
                    }
                    Api::Send1 => self.w.sock().send_slice(&[0x42; 8][..self.cfg.send_len]).is_ok(),
                    Api::Recv => {
                        let mut b = [0u8; 16];
                        self.w.sock().recv_slice(&mut b).is_ok()
                    }
                };
                let post = self.w.state();
                if *a == Api::Close && pre == State::SynReceived {
                    self.obs.closed_in_synrcvd = true;
                }
                self.check(pre, post, &Stim::Api(a.clone(), ok));
                self.egress_step();
            }
            FsmEv::ToPollAt => {
                if let Some(t) = self.w.poll_at() {
                    if t > self.w.now {
                        self.w.now = t;
                    }
                }
                self.egress_step();
            }
            FsmEv::Plus10s => {
                self.w.now += 10_000_000;
                self.egress_step();
            }
            FsmEv::StraySeg { flags, seq, ack, len } => {
                let payload = vec![0x5a; *len];
                let seg = build_seg_to(LOCAL2, *seq, *ack, *flags, self.cfg.peer_win, &[], &payload);
                let pre = self.w.state();
                let _ = self.w.ingress_single(seg);
                let mid = self.w.state();
                if mid != pre {
                    self.pending.push(Viol::new(
                        format!("C17/illegal-transition/segment-for-another-address/{}->{}", st_name(pre), st_name(mid)),
                        format!("a segment addressed to the interface's other address {:?} moved the socket {} -> {}: {:?}", LOCAL2, pre, mid, ev),
                    ));
                }
                self.egress_step();
            }
            FsmEv::Plus7s => {
                self.w.now += 7_000_000;
                self.egress_step();
            }
            FsmEv::Sleep1s => {
                self.w.now += 1_000_000;
            }
            FsmEv::ToPollAtBlocked => {
                if let Some(t) = self.w.poll_at() {
                    if t > self.w.now {
                        self.w.now = t;
                    }
                }
                self.w.dev.tx_budget = Some(0);
                self.egress_step();
                self.w.dev.tx_budget = None;
            }
        }
        out.append(&mut self.pending);
    }
    fn fingerprint(&self) -> u128 {
        fp128(&format!("{:?}|{:?}|{}", self.w.sockets, self.obs, self.w.now))
    }
    fn outcome(&self) -> String {
        st_name(self.w.state())
    }
}

pub fn fsm_configs(tier: Tier) -> Vec<(FsmCfg, usize)> {
    match tier {
        Tier::Quick => vec![
            (FsmCfg { name: "full", peer_isn: 0xffff_fff0, rx: 8, reduced: false, peer_win: 500, send_len: 1, rst_mode: false, second_addr: false, fin_win: None, start_tw: false, stray_to_second: false }, 5),
            (FsmCfg { name: "reduced", peer_isn: 5000, rx: 8, reduced: true, peer_win: 500, send_len: 1, rst_mode: false, second_addr: false, fin_win: None, start_tw: false, stray_to_second: false }, 7),
            (FsmCfg { name: "reduced-win1-send3", peer_isn: 5000, rx: 8, reduced: true, peer_win: 1, send_len: 3, rst_mode: false, second_addr: false, fin_win: None, start_tw: false, stray_to_second: false }, 6),
            (FsmCfg { name: "rst-window-zwp", peer_isn: 5000, rx: 8, reduced: true, peer_win: 0, send_len: 3, rst_mode: true, second_addr: false, fin_win: None, start_tw: false, stray_to_second: false }, 7),
            (FsmCfg { name: "reduced-second-address", peer_isn: 5000, rx: 8, reduced: true, peer_win: 500, send_len: 1, rst_mode: false, second_addr: true, fin_win: None, start_tw: false, stray_to_second: false }, 5),
            (FsmCfg { name: "reduced-fin-window-0", peer_isn: 5000, rx: 8, reduced: true, peer_win: 500, send_len: 1, rst_mode: false, second_addr: false, fin_win: Some(0), start_tw: false, stray_to_second: false }, 7),
            (FsmCfg { name: "from-time-wait", peer_isn: 0xffff_fff0, rx: 8, reduced: false, peer_win: 500, send_len: 1, rst_mode: false, second_addr: false, fin_win: None, start_tw: true, stray_to_second: false }, 3),
            (FsmCfg { name: "reduced-stray-to-second-address", peer_isn: 5000, rx: 8, reduced: true, peer_win: 500, send_len: 1, rst_mode: false, second_addr: false, fin_win: None, start_tw: false, stray_to_second: true }, 5),
        ],
        Tier::Thorough => vec![
            (FsmCfg { name: "full", peer_isn: 0xffff_fff0, rx: 8, reduced: false, peer_win: 500, send_len: 1, rst_mode: false, second_addr: false, fin_win: None, start_tw: false, stray_to_second: false }, 5),
            (FsmCfg { name: "reduced", peer_isn: 5000, rx: 8, reduced: true, peer_win: 500, send_len: 1, rst_mode: false, second_addr: false, fin_win: None, start_tw: false, stray_to_second: false }, 8),
            (FsmCfg { name: "reduced-win1-send3", peer_isn: 5000, rx: 8, reduced: true, peer_win: 1, send_len: 3, rst_mode: false, second_addr: false, fin_win: None, start_tw: false, stray_to_second: false }, 8),
            (FsmCfg { name: "rst-window-zwp", peer_isn: 5000, rx: 8, reduced: true, peer_win: 0, send_len: 3, rst_mode: true, second_addr: false, fin_win: None, start_tw: false, stray_to_second: false }, 9),
            (FsmCfg { name: "reduced-second-address", peer_isn: 5000, rx: 8, reduced: true, peer_win: 500, send_len: 1, rst_mode: false, second_addr: true, fin_win: None, start_tw: false, stray_to_second: false }, 7),
            (FsmCfg { name: "reduced-fin-window-0", peer_isn: 5000, rx: 8, reduced: true, peer_win: 500, send_len: 1, rst_mode: false, second_addr: false, fin_win: Some(0), start_tw: false, stray_to_second: false }, 8),
            (FsmCfg { name: "from-time-wait", peer_isn: 0xffff_fff0, rx: 8, reduced: false, peer_win: 500, send_len: 1, rst_mode: false, second_addr: false, fin_win: None, start_tw: true, stray_to_second: false }, 4),
            (FsmCfg { name: "reduced-stray-to-second-address", peer_isn: 5000, rx: 8, reduced: true, peer_win: 500, send_len: 1, rst_mode: false, second_addr: false, fin_win: None, start_tw: false, stray_to_second: true }, 7),
        ],
    }
}

pub fn run_c17(tier: Tier) -> i32 {
    let mut rep = Report::new("C17", tier);
    let lim = Limits { max_states: 4_000_000, max_wall_s: if tier == Tier::Quick { 40.0 } else { 900.0 } };
    let mut edges: std::collections::BTreeSet<String> = Default::default();
    for (cfg, d) in fsm_configs(tier) {
        let mut samples = vec![];
        let mut found = vec![];
        match bfs::<Fsm>("tcp1fsm", &cfg, d, &lim, &mut found, &mut samples) {
            Ok(st) => {
                for (k, _) in &st.outcomes {
                    edges.insert(k.clone());
                }
                rep.absorb(&format!("tcp1 state machine alphabet={} depth<={}", cfg.name, d), &st);
                rep.samples.extend(samples);
            }
            Err(e) => rep.machinery_errors.push(e),
        }
        for f in found {
            if f.viol.sig.starts_with("MACHINERY") {
                rep.machinery_errors.push(f.viol.detail);
            } else {
                rep.found.push(f);
            }
        }
    }
    rep.cov("rule", json!("BFS with visited set from CLOSED: every API call (listen/connect/close/abort/send/recv), time advance (to poll_at, +10 s) and every segment from the alphabet flags x seq in {rcv.nxt-1, rcv.nxt, rcv.nxt+1, edge-1, edge, far} x ack in {iss, iss+1, snd.max-1, snd.max, snd.max+1, fin, fin+1, far} x len in {0,1}; state() is read before/after the single ingress step and the following egress pass; every observed change must be in the RFC 9293 table with its guard true over quantities seen on the wire"));
    rep.assumptions.push("guards use only observable quantities (ISS, FIN position, last ACK/window the socket emitted); delayed ACK off so these are current; lenient table (API composites from TIME-WAIT allowed)".into());
    rep.finish()
}

fn fsm_cfg_from(art: &serde_json::Value) -> Option<FsmCfg> {
    let s = art["replay"]["config"].as_str()?;
    fsm_configs(Tier::Thorough).into_iter().map(|c| c.0).find(|c| format!("{:?}", c) == s)
}
pub fn replay_c17(art: &serde_json::Value) -> i32 {
    match fsm_cfg_from(art) {
        Some(c) => replay_artifact::<Fsm>(&c, art),
        None => {
            eprintln!("unknown configuration");
            2
        }
    }
}
