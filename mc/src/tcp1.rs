//! stub — not built yet
use crate::core::*;
pub fn run_c04(_tier: Tier) -> i32 {
    2
}
pub fn replay_c04(_art: &serde_json::Value) -> i32 {
    2
}
pub fn run_c17(_tier: Tier) -> i32 {
    2
}
pub fn replay_c17(_art: &serde_json::Value) -> i32 {
    2
}
