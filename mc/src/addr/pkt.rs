//! Stimulus builders (plain byte pushing from the RFCs) and an independent classifier for the
//! frames the stack emits. Nothing in the classifier uses `smoltcp::wire` except the 6LoWPAN
//! IPHC/NHC *decompression* of 802.15.4 frames (allowed by the guide); what the decompressed
//! packet IS (RST? ICMP error?) is decided by the code in this file.

use crate::wirecheck::{parse_ip, rfc1071_sum, Addr};

pub const TCP_SYN: u8 = 0x02;
pub const TCP_RST: u8 = 0x04;
pub const TCP_PSH: u8 = 0x08;
pub const TCP_ACK: u8 = 0x10;

pub fn hex(b: &[u8]) -> String {
    crate::sim::hex(b)
}

// ---------------------------------------------------------------------------------------
// builders
// ---------------------------------------------------------------------------------------

pub fn eth(dst: &[u8; 6], src: &[u8; 6], ethertype: u16, payload: &[u8]) -> Vec<u8> {
    let mut v = Vec::with_capacity(14 + payload.len());
    v.extend_from_slice(dst);
    v.extend_from_slice(src);
    v.extend_from_slice(&ethertype.to_be_bytes());
    v.extend_from_slice(payload);
    v
}

/// ARP request, Ethernet/IPv4 (RFC 826)
pub fn arp_request(sha: &[u8; 6], spa: &[u8; 4], tpa: &[u8; 4]) -> Vec<u8> {
    let mut v = vec![0, 1, 8, 0, 6, 4, 0, 1];
    v.extend_from_slice(sha);
    v.extend_from_slice(spa);
    v.extend_from_slice(&[0; 6]);
    v.extend_from_slice(tpa);
    v
}

pub fn ip_packet(src: &Addr, dst: &Addr, proto: u8, hop: u8, payload: &[u8]) -> Vec<u8> {
    match (src, dst) {
        (Addr::V4(s), Addr::V4(d)) => {
            let total = 20 + payload.len();
            let mut v = vec![0x45, 0, (total >> 8) as u8, total as u8, 0x12, 0x34, 0x40, 0, hop, proto, 0, 0];
            v.extend_from_slice(s);
            v.extend_from_slice(d);
            let c = !rfc1071_sum(&[&v[..20]]);
            v[10] = (c >> 8) as u8;
            v[11] = c as u8;
            v.extend_from_slice(payload);
            v
        }
        (Addr::V6(s), Addr::V6(d)) => {
            let mut v = vec![0x60, 0, 0, 0, (payload.len() >> 8) as u8, payload.len() as u8, proto, hop];
            v.extend_from_slice(s);
            v.extend_from_slice(d);
            v.extend_from_slice(payload);
            v
        }
        _ => panic!("mixed address families"),
    }
}

fn pseudo(src: &Addr, dst: &Addr, proto: u8, len: usize) -> Vec<u8> {
    let mut v = vec![];
    v.extend_from_slice(src.bytes());
    v.extend_from_slice(dst.bytes());
    match src {
        Addr::V4(_) => v.extend_from_slice(&[0, proto, (len >> 8) as u8, len as u8]),
        Addr::V6(_) => {
            v.extend_from_slice(&(len as u32).to_be_bytes());
            v.extend_from_slice(&[0, 0, 0, proto]);
        }
    }
    v
}

fn fill_l4_cksum(src: &Addr, dst: &Addr, proto: u8, seg: &mut [u8], at: usize) {
    seg[at] = 0;
    seg[at + 1] = 0;
    let ph = pseudo(src, dst, proto, seg.len());
    let mut c = !rfc1071_sum(&[&ph, seg]);
    if c == 0 && proto == 17 {
        c = 0xffff;
    }
    seg[at] = (c >> 8) as u8;
    seg[at + 1] = c as u8;
}

pub fn udp(src: &Addr, dst: &Addr, sport: u16, dport: u16, payload: &[u8]) -> Vec<u8> {
    let len = 8 + payload.len();
    let mut v = vec![];
    v.extend_from_slice(&sport.to_be_bytes());
    v.extend_from_slice(&dport.to_be_bytes());
    v.extend_from_slice(&(len as u16).to_be_bytes());
    v.extend_from_slice(&[0, 0]);
    v.extend_from_slice(payload);
    fill_l4_cksum(src, dst, 17, &mut v, 6);
    v
}

#[allow(clippy::too_many_arguments)]
pub fn tcp(src: &Addr, dst: &Addr, sport: u16, dport: u16, seq: u32, ack: u32, flags: u8, win: u16, payload: &[u8]) -> Vec<u8> {
    let mut v = vec![];
    v.extend_from_slice(&sport.to_be_bytes());
    v.extend_from_slice(&dport.to_be_bytes());
    v.extend_from_slice(&seq.to_be_bytes());
    v.extend_from_slice(&ack.to_be_bytes());
    v.push(5 << 4);
    v.push(flags);
    v.extend_from_slice(&win.to_be_bytes());
    v.extend_from_slice(&[0, 0, 0, 0]);
    v.extend_from_slice(payload);
    fill_l4_cksum(src, dst, 6, &mut v, 16);
    v
}

/// ICMP message (v4: plain checksum, v6: pseudo-header checksum); `rest` = bytes 4..8
pub fn icmp(src: &Addr, dst: &Addr, ty: u8, code: u8, rest: [u8; 4], body: &[u8]) -> Vec<u8> {
    let mut v = vec![ty, code, 0, 0];
    v.extend_from_slice(&rest);
    v.extend_from_slice(body);
    match src {
        Addr::V4(_) => {
            let c = !rfc1071_sum(&[&v]);
            v[2] = (c >> 8) as u8;
            v[3] = c as u8;
        }
        Addr::V6(_) => fill_l4_cksum(src, dst, 58, &mut v, 2),
    }
    v
}

pub fn echo_request(src: &Addr, dst: &Addr, ident: u16, seq: u16, data: &[u8]) -> Vec<u8> {
    let ty = if matches!(src, Addr::V4(_)) { 8 } else { 128 };
    let i = ident.to_be_bytes();
    let s = seq.to_be_bytes();
    icmp(src, dst, ty, 0, [i[0], i[1], s[0], s[1]], data)
}

/// destination unreachable / port unreachable carrying `orig` (a complete IP packet)
pub fn port_unreachable(src: &Addr, dst: &Addr, orig: &[u8]) -> Vec<u8> {
    match src {
        Addr::V4(_) => icmp(src, dst, 3, 3, [0; 4], orig),
        Addr::V6(_) => icmp(src, dst, 1, 4, [0; 4], orig),
    }
}

/// NDISC neighbor solicitation with optional source link-layer address option
pub fn neighbor_solicit(src: &Addr, dst: &Addr, target: &[u8; 16], sll: Option<&[u8]>) -> Vec<u8> {
    let mut body = target.to_vec();
    if let Some(ll) = sll {
        let units = (2 + ll.len() + 7) / 8;
        body.push(1);
        body.push(units as u8);
        body.extend_from_slice(ll);
        while body.len() < 16 + units * 8 {
            body.push(0);
        }
    }
    icmp(src, dst, 135, 0, [0; 4], &body)
}

/// NDISC router advertisement (RFC 4861 4.2) with one prefix information option (4.6.2):
/// on-link + autonomous flags, lifetimes in seconds
pub fn router_advert(src: &Addr, dst: &Addr, router_lifetime_s: u16, prefix: &[u8; 16], prefix_len: u8, valid_s: u32, preferred_s: u32) -> Vec<u8> {
    let rl = router_lifetime_s.to_be_bytes();
    // cur hop limit 64, flags 0, router lifetime
    let rest = [64, 0, rl[0], rl[1]];
    let mut body = vec![0u8; 8]; // reachable time, retrans timer: unspecified
    body.extend_from_slice(&[3, 4, prefix_len, 0xc0]);
    body.extend_from_slice(&valid_s.to_be_bytes());
    body.extend_from_slice(&preferred_s.to_be_bytes());
    body.extend_from_slice(&[0; 4]);
    body.extend_from_slice(prefix);
    icmp(src, dst, 134, 0, rest, &body)
}

/// DNS response with rcode NXDomain for one A/IN question `a.b`
pub fn dns_nxdomain(txid: u16) -> Vec<u8> {
    let mut v = vec![];
    v.extend_from_slice(&txid.to_be_bytes());
    v.extend_from_slice(&[0x81, 0x83]); // QR, RD, RA, rcode 3
    v.extend_from_slice(&[0, 1, 0, 0, 0, 0, 0, 0]);
    v.extend_from_slice(&[1, b'a', 1, b'b', 0]);
    v.extend_from_slice(&[0, 1, 0, 1]);
    v
}

// ---------------------------------------------------------------------------------------
// classifier for emitted frames
// ---------------------------------------------------------------------------------------

#[derive(Clone, Debug, PartialEq, Eq, PartialOrd, Ord)]
pub enum OutKind {
    ArpRequest,
    ArpReply,
    NeighborSolicit,
    NeighborAdvert,
    EchoRequest,
    EchoReply,
    /// ICMPv4 type 3/4/5/11/12, ICMPv6 type < 128
    IcmpError(u8, u8),
    IcmpOther(u8),
    Mld,
    Igmp,
    TcpRst,
    TcpSynAck,
    TcpOther(u8),
    Udp,
    /// non-first IP fragment or 6LoWPAN FRAGN
    Fragment,
    OtherProto(u8),
    Unparsed(String),
}

impl OutKind {
    pub fn name(&self) -> String {
        match self {
            OutKind::ArpRequest => "arp-request".into(),
            OutKind::ArpReply => "arp-reply".into(),
            OutKind::NeighborSolicit => "ndisc-ns".into(),
            OutKind::NeighborAdvert => "ndisc-na".into(),
            OutKind::EchoRequest => "echo-request".into(),
            OutKind::EchoReply => "echo-reply".into(),
            OutKind::IcmpError(t, c) => format!("icmp-error-{}-{}", t, c),
            OutKind::IcmpOther(t) => format!("icmp-type-{}", t),
            OutKind::Mld => "mld".into(),
            OutKind::Igmp => "igmp".into(),
            OutKind::TcpRst => "tcp-rst".into(),
            OutKind::TcpSynAck => "tcp-synack".into(),
            OutKind::TcpOther(f) => format!("tcp-flags-{:02x}", f),
            OutKind::Udp => "udp".into(),
            OutKind::Fragment => "fragment".into(),
            OutKind::OtherProto(p) => format!("ip-proto-{}", p),
            OutKind::Unparsed(_) => "unparsed".into(),
        }
    }
    pub fn is_error_or_rst(&self) -> bool {
        matches!(self, OutKind::TcpRst | OutKind::IcmpError(..))
    }
}

#[derive(Clone, Debug)]
pub struct Out {
    pub kind: OutKind,
    pub src: Option<Addr>,
    pub dst: Option<Addr>,
    /// (sport, dport, seq, ack, flags) for TCP, (sport, dport, 0, 0, 0) for UDP
    pub l4: Option<(u16, u16, u32, u32, u8)>,
    /// UDP payload (for the DNS query emitted during set-up)
    pub udp_payload: Vec<u8>,
    pub raw: Vec<u8>,
}

impl Out {
    pub fn describe(&self) -> String {
        let a = |x: &Option<Addr>| x.as_ref().map(|a| a.to_string()).unwrap_or_else(|| "-".into());
        format!("{} {}->{}", self.kind.name(), a(&self.src), a(&self.dst))
    }
}

fn g16(b: &[u8], o: usize) -> u16 {
    ((b[o] as u16) << 8) | b[o + 1] as u16
}
fn g32(b: &[u8], o: usize) -> u32 {
    ((g16(b, o) as u32) << 16) | g16(b, o + 2) as u32
}

/// Classify an IP packet. `truncated`: the upper layer may be cut short (first 6LoWPAN fragment).
pub fn classify_ip(b: &[u8], raw: &[u8]) -> Out {
    let mut out = Out { kind: OutKind::Unparsed(String::new()), src: None, dst: None, l4: None, udp_payload: vec![], raw: raw.to_vec() };
    let ip = match parse_ip(b) {
        Ok(ip) => ip,
        Err(e) => {
            out.kind = OutKind::Unparsed(e);
            return out;
        }
    };
    out.src = Some(ip.src.clone());
    out.dst = Some(ip.dst.clone());
    if ip.frag_offset != 0 {
        out.kind = OutKind::Fragment;
        return out;
    }
    let p = &b[ip.payload_off..];
    out.kind = match ip.proto {
        1 if ip.version == 4 => {
            if p.len() < 2 {
                OutKind::Unparsed("short icmp".into())
            } else {
                match p[0] {
                    0 => OutKind::EchoReply,
                    8 => OutKind::EchoRequest,
                    3 | 4 | 5 | 11 | 12 => OutKind::IcmpError(p[0], p[1]),
                    t => OutKind::IcmpOther(t),
                }
            }
        }
        58 if ip.version == 6 => {
            if p.len() < 2 {
                OutKind::Unparsed("short icmpv6".into())
            } else {
                match p[0] {
                    t if t < 128 => OutKind::IcmpError(t, p[1]),
                    128 => OutKind::EchoRequest,
                    129 => OutKind::EchoReply,
                    130 | 131 | 132 | 143 => OutKind::Mld,
                    135 => OutKind::NeighborSolicit,
                    136 => OutKind::NeighborAdvert,
                    t => OutKind::IcmpOther(t),
                }
            }
        }
        2 if ip.version == 4 => OutKind::Igmp,
        6 => {
            if p.len() < 14 {
                OutKind::Unparsed("short tcp".into())
            } else {
                let flags = p[13] & 0x3f;
                out.l4 = Some((g16(p, 0), g16(p, 2), g32(p, 4), g32(p, 8), flags));
                if flags & TCP_RST != 0 {
                    OutKind::TcpRst
                } else if flags & (TCP_SYN | TCP_ACK) == (TCP_SYN | TCP_ACK) {
                    OutKind::TcpSynAck
                } else {
                    OutKind::TcpOther(flags)
                }
            }
        }
        17 => {
            if p.len() >= 8 {
                out.l4 = Some((g16(p, 0), g16(p, 2), 0, 0, 0));
                out.udp_payload = p[8..].to_vec();
            }
            OutKind::Udp
        }
        x => OutKind::OtherProto(x),
    };
    out
}

pub fn classify_ethernet(f: &[u8]) -> Out {
    let mut out = Out { kind: OutKind::Unparsed(String::new()), src: None, dst: None, l4: None, udp_payload: vec![], raw: f.to_vec() };
    if f.len() < 14 {
        out.kind = OutKind::Unparsed("short ethernet frame".into());
        return out;
    }
    match g16(f, 12) {
        0x0806 => {
            let a = &f[14..];
            if a.len() < 28 || g16(a, 0) != 1 || g16(a, 2) != 0x0800 || a[4] != 6 || a[5] != 4 {
                out.kind = OutKind::Unparsed("bad arp".into());
                return out;
            }
            out.src = Some(Addr::V4([a[14], a[15], a[16], a[17]]));
            out.dst = Some(Addr::V4([a[24], a[25], a[26], a[27]]));
            out.kind = match g16(a, 6) {
                1 => OutKind::ArpRequest,
                2 => OutKind::ArpReply,
                _ => OutKind::Unparsed("arp op".into()),
            };
            out
        }
        0x0800 | 0x86dd => classify_ip(&f[14..], f),
        t => {
            out.kind = OutKind::Unparsed(format!("ethertype {:04x}", t));
            out
        }
    }
}

/// IEEE 802.15.4 data frame header as emitted by the stack (own parser, offsets from the
/// standard: FCF(2, LE) seq(1) [dst pan(2) dst addr(2|8)] [src pan(2)] [src addr(2|8)]; addresses
/// are little endian on the wire). Returns (dst_pan, dst_addr, src_addr, payload) with the
/// addresses in transmission-reversed (= canonical big endian) order.
pub struct Lowpan154 {
    #[allow(dead_code)]
    pub dst_pan: Option<u16>,
    pub dst: Vec<u8>,
    pub src: Vec<u8>,
    pub payload: Vec<u8>,
}
pub fn parse_154(f: &[u8]) -> Result<Lowpan154, String> {
    if f.len() < 3 {
        return Err("short 802.15.4 frame".into());
    }
    let fcf = (f[0] as u16) | ((f[1] as u16) << 8);
    if fcf & 7 != 1 {
        return Err(format!("802.15.4 frame type {}", fcf & 7));
    }
    if fcf & 0x8 != 0 {
        return Err("security enabled".into());
    }
    let pan_comp = fcf & 0x40 != 0;
    let dmode = (fcf >> 10) & 3;
    let smode = (fcf >> 14) & 3;
    let mut o = 3;
    let mut take = |n: usize| -> Result<Vec<u8>, String> {
        if o + n > f.len() {
            return Err("802.15.4 header truncated".into());
        }
        let mut v = f[o..o + n].to_vec();
        v.reverse();
        o += n;
        Ok(v)
    };
    let alen = |m: u16| -> Result<usize, String> {
        match m {
            0 => Ok(0),
            2 => Ok(2),
            3 => Ok(8),
            _ => Err("reserved addressing mode".into()),
        }
    };
    let mut dst_pan = None;
    let mut dst = vec![];
    if dmode != 0 {
        let p = take(2)?;
        dst_pan = Some(((p[0] as u16) << 8) | p[1] as u16);
        dst = take(alen(dmode)?)?;
    }
    let mut src = vec![];
    if smode != 0 {
        if !pan_comp {
            take(2)?;
        }
        src = take(alen(smode)?)?;
    }
    Ok(Lowpan154 { dst_pan, dst, src, payload: f[o..].to_vec() })
}

/// Decode an emitted 802.15.4/6LoWPAN frame: own 802.15.4 header parser, smoltcp::wire only to
/// undo IPHC / UDP-NHC compression, then the own IP classifier on the reconstructed packet.
pub fn classify_154(f: &[u8]) -> Out {
    use smoltcp::wire::{Ieee802154Address, SixlowpanIphcPacket, SixlowpanIphcRepr, SixlowpanNextHeader, SixlowpanNhcPacket, SixlowpanUdpNhcPacket};
    let mut out = Out { kind: OutKind::Unparsed(String::new()), src: None, dst: None, l4: None, udp_payload: vec![], raw: f.to_vec() };
    let h = match parse_154(f) {
        Ok(h) => h,
        Err(e) => {
            out.kind = OutKind::Unparsed(e);
            return out;
        }
    };
    let ll = |a: &[u8]| -> Option<Ieee802154Address> {
        match a.len() {
            2 => Some(Ieee802154Address::Short([a[0], a[1]])),
            8 => {
                let mut x = [0u8; 8];
                x.copy_from_slice(a);
                Some(Ieee802154Address::Extended(x))
            }
            _ => None,
        }
    };
    let mut p: &[u8] = &h.payload;
    if p.is_empty() {
        out.kind = OutKind::Unparsed("empty 6lowpan payload".into());
        return out;
    }
    if p[0] & 0xf8 == 0xe0 {
        out.kind = OutKind::Fragment;
        return out;
    }
    if p[0] & 0xf8 == 0xc0 {
        if p.len() < 4 {
            out.kind = OutKind::Unparsed("short FRAG1".into());
            return out;
        }
        p = &p[4..];
    }
    if p.is_empty() || p[0] & 0xe0 != 0x60 {
        out.kind = OutKind::Unparsed("not IPHC".into());
        return out;
    }
    let pk = match SixlowpanIphcPacket::new_checked(p) {
        Ok(pk) => pk,
        Err(_) => {
            out.kind = OutKind::Unparsed("IPHC new_checked".into());
            return out;
        }
    };
    let r = match SixlowpanIphcRepr::parse(&pk, ll(&h.src), ll(&h.dst), &[]) {
        Ok(r) => r,
        Err(_) => {
            out.kind = OutKind::Unparsed("IPHC parse".into());
            return out;
        }
    };
    let src = Addr::V6(r.src_addr.octets());
    let dst = Addr::V6(r.dst_addr.octets());
    let rest = pk.payload();
    let (proto, l4): (u8, Vec<u8>) = match r.next_header {
        SixlowpanNextHeader::Uncompressed(p) => (u8::from(p), rest.to_vec()),
        SixlowpanNextHeader::Compressed => match SixlowpanNhcPacket::dispatch(rest) {
            Ok(SixlowpanNhcPacket::UdpHeader) => match SixlowpanUdpNhcPacket::new_checked(rest) {
                Ok(u) => {
                    let pl = u.payload();
                    let mut v = vec![];
                    v.extend_from_slice(&u.src_port().to_be_bytes());
                    v.extend_from_slice(&u.dst_port().to_be_bytes());
                    v.extend_from_slice(&((pl.len() + 8) as u16).to_be_bytes());
                    v.extend_from_slice(&[0, 0]);
                    v.extend_from_slice(pl);
                    (17, v)
                }
                Err(_) => {
                    out.kind = OutKind::Unparsed("UDP NHC".into());
                    return out;
                }
            },
            Ok(SixlowpanNhcPacket::ExtHeader) => {
                // compressed extension header chain (the stack only emits this for MLD reports,
                // which carry a hop-by-hop header). Not decoded further: reported as
                // "ip-proto-0" (= next header hop-by-hop), which no rule treats as RST/error,
                // but R1 still counts it as a frame.
                out.src = Some(src);
                out.dst = Some(dst);
                out.kind = OutKind::OtherProto(0);
                return out;
            }
            Err(_) => {
                out.kind = OutKind::Unparsed("NHC dispatch".into());
                return out;
            }
        },
    };
    let ip = ip_packet(&src, &dst, proto, r.hop_limit, &l4);
    classify_ip(&ip, f)
}
