//! IEEE 802.15.4 / 6LoWPAN part of C11 with stateful (context based) address compression,
//! RFC 6282 3.1.2: the interface has two address contexts configured
//! (`sixlowpan_address_context_mut()`): context 0 = the /64 of its own global address, context 1 =
//! another prefix. Received frames carry the CID extension octet (SCI in the high, DCI in the low
//! nibble) and a context-compressed destination (DAC=1, DAM=01: 64-bit IID in-line), with a
//! source that is either fully in-line or context-compressed too; every (SCI, DCI) in {0,1}x{0,1}.
//! The address a compressed form DENOTES is computed here from the RFC (prefix of the named context +
//! in-line IID) and the transport checksum is computed over that address.
//!
//! Oracle (R1): destination = "context-0 prefix + own IID" is the interface's address (nothing
//! demanded, positive control); every other combination denotes a foreign unicast address: no
//! socket may change during ingress and no frame may come out.
//! So that a wrong expansion cannot hide behind the transport checksum, each case runs with a pair of
//! prefixes that have the same one's-complement sum (2001:db8:0:1::/64, 2001:db8:1:0::/64) and with
//! an unrelated pair, each with receive checksum verification on and off (device capabilities).

use super::model::*;
use super::pkt::{self, Out};
use super::world::World;
use crate::core::*;
use crate::wirecheck::Addr;
use rayon::prelude::*;
use serde_json::{json, Value};
use std::collections::BTreeMap;
use std::panic::{catch_unwind, AssertUnwindSafe};

alphabet!(CProbe { UdpMatch => "udp", UdpNoMatch => "udp(closed port)", Echo => "icmp-echo-request", TcpSyn => "tcp-syn" });
alphabet!(Pair { SameSum => "2001:db8:0:1::/64 + 2001:db8:1:0::/64 (same one's-complement sum)", Unrelated => "2001:db8:0:1::/64 + 2001:db8:ffff:2::/64" });

const P0: [u8; 8] = [0x20, 0x01, 0x0d, 0xb8, 0, 0, 0, 1];
const OWN_IID: [u8; 8] = [0, 0, 0, 0, 0, 0, 0, 0xaa];
const PEER_IID: [u8; 8] = [0, 0, 0, 0, 0, 0, 0, 0xbb];
const OTHER_IID: [u8; 8] = [0, 0, 0, 0, 0, 0, 0, 0xcc];

#[derive(Clone, Copy, Debug, PartialEq, Eq)]
pub struct Scn {
    pub pair: Pair,
    pub rx_checksum_off: bool,
    pub sock: Sock,
    pub src_in_context: bool,
    pub sci: u8,
    pub dci: u8,
    pub dst_own_iid: bool,
    pub probe: CProbe,
}

fn contexts(p: Pair) -> [[u8; 8]; 2] {
    match p {
        Pair::SameSum => [P0, [0x20, 0x01, 0x0d, 0xb8, 0, 1, 0, 0]],
        Pair::Unrelated => [P0, [0x20, 0x01, 0x0d, 0xb8, 0xff, 0xff, 0, 2]],
    }
}
fn join(prefix: &[u8; 8], iid: &[u8; 8]) -> Addr {
    let mut a = [0u8; 16];
    a[..8].copy_from_slice(prefix);
    a[8..].copy_from_slice(iid);
    Addr::V6(a)
}

impl Scn {
    pub fn to_json(&self) -> Value {
        json!({
            "contexts": self.pair.name(), "rx_checksum_verification_off": self.rx_checksum_off, "sockets": self.sock.name(),
            "source_context_compressed": self.src_in_context, "sci": self.sci, "dci": self.dci, "destination_iid_is_ours": self.dst_own_iid,
            "probe": self.probe.name(),
        })
    }
    pub fn from_json(v: &Value) -> Option<Scn> {
        let s = |k: &str| v.get(k).and_then(|x| x.as_str());
        let b = |k: &str| v.get(k).and_then(|x| x.as_bool());
        let n = |k: &str| v.get(k).and_then(|x| x.as_u64());
        Some(Scn {
            pair: Pair::from_name(s("contexts")?)?,
            rx_checksum_off: b("rx_checksum_verification_off")?,
            sock: Sock::from_name(s("sockets")?)?,
            src_in_context: b("source_context_compressed")?,
            sci: n("sci")? as u8,
            dci: n("dci")? as u8,
            dst_own_iid: b("destination_iid_is_ours")?,
            probe: CProbe::from_name(s("probe")?)?,
        })
    }
    /// the destination address the compressed form denotes (RFC 6282)
    pub fn dst(&self) -> Addr {
        join(&contexts(self.pair)[self.dci as usize], if self.dst_own_iid { &OWN_IID } else { &OTHER_IID })
    }
    pub fn src(&self) -> Addr {
        if self.src_in_context {
            join(&contexts(self.pair)[self.sci as usize], &PEER_IID)
        } else {
            addrs(Ver::V6).peer
        }
    }
    pub fn own_global(&self) -> Addr {
        join(&P0, &OWN_IID)
    }
    pub fn for_us(&self) -> bool {
        self.dci == 0 && self.dst_own_iid
    }
    pub fn dst_class(&self) -> &'static str {
        match (self.dci, self.dst_own_iid) {
            (0, true) => "own",
            (0, false) => "other-iid-under-own-6lowpan-context",
            (_, true) => "own-iid-under-other-6lowpan-context",
            (_, false) => "other-iid-under-other-6lowpan-context",
        }
    }
    pub fn kind_name(&self) -> &'static str {
        match self.probe {
            CProbe::UdpMatch | CProbe::UdpNoMatch => Kind::Udp.name(),
            CProbe::Echo => Kind::Echo.name(),
            CProbe::TcpSyn => Kind::TcpSyn.name(),
        }
    }
    pub fn describe(&self) -> String {
        format!(
            "6lowpan-context contexts=[{}] rx-checksum-off={} sockets={} src={} SCI={} DCI={} dst={} ({}) probe={}",
            self.pair.name(), self.rx_checksum_off, self.sock.name(), if self.src_in_context { "context+IID" } else { "in-line" }, self.sci, self.dci, self.dst(), self.dst_class(), self.probe.name()
        )
    }
}

/// 802.15.4 MAC header (byte-wise: FCF 0xcc41 = data, PAN id compression, extended dst + src)
/// + hand-written IPHC header with CID extension + uncompressed upper layer
fn frame(s: &Scn) -> Vec<u8> {
    let (src, dst) = (s.src(), s.dst());
    let (proto, l4) = match s.probe {
        CProbe::UdpMatch => (17, pkt::udp(&src, &dst, PEER_PORT, UDP_PORT, b"abcd")),
        CProbe::UdpNoMatch => (17, pkt::udp(&src, &dst, PEER_PORT, UDP_PORT + 1, b"abcd")),
        CProbe::Echo => (58, pkt::echo_request(&src, &dst, ICMP_IDENT, 1, b"ping")),
        CProbe::TcpSyn => (6, pkt::tcp(&src, &dst, PEER_PORT, TCP_PORT, PEER_ISN, 0, pkt::TCP_SYN, 1024, &[])),
    };
    let mut f = vec![0x41, 0xcc, 7, PAN_OWN as u8, (PAN_OWN >> 8) as u8];
    let mut d = MY_EXT;
    d.reverse();
    f.extend_from_slice(&d);
    let mut p = PEER_EXT;
    p.reverse();
    f.extend_from_slice(&p);
    // IPHC: 011 TF=11 NH=0 HLIM=10 | CID=1 SAC SAM M=0 DAC=1 DAM=01
    f.push(0x7a);
    f.push(if s.src_in_context { 0xd5 } else { 0x85 });
    f.push((s.sci << 4) | s.dci);
    f.push(proto);
    match &src {
        Addr::V6(a) if s.src_in_context => f.extend_from_slice(&a[8..]),
        Addr::V6(a) => f.extend_from_slice(a),
        _ => unreachable!(),
    }
    let Addr::V6(da) = &dst else { unreachable!() };
    f.extend_from_slice(&da[8..]);
    f.extend_from_slice(&l4);
    f
}

pub struct Exec {
    pub frame_hex: String,
    pub outs: Vec<Out>,
    pub delivered: Vec<&'static str>,
    pub errors: Vec<String>,
}

pub fn execute(s: &Scn, strict: bool) -> Exec {
    let mut w = World::new_lowpan_ctx(&s.own_global(), &contexts(s.pair), s.rx_checksum_off, s.sock, strict);
    let f = frame(s);
    let pre = w.images();
    let (outs, (mid, _)) = w.apply_mid(&f);
    let mut delivered = vec![];
    for ((n, a), (_, b)) in pre.iter().zip(mid.iter()) {
        if a != b {
            delivered.push(*n);
        }
    }
    Exec { frame_hex: pkt::hex(&f), outs, delivered, errors: std::mem::take(&mut w.errors) }
}

pub fn judge(s: &Scn, e: &Exec) -> Vec<(String, String)> {
    if s.for_us() {
        return vec![];
    }
    let mut v = vec![];
    for sck in &e.delivered {
        v.push((
            format!("C11/R1/{}/v6/{}/foreign-ip-delivered-{}", s.kind_name(), s.dst_class(), sck),
            format!("destination {} (context {} + in-line IID) is not an address of the interface ({}) but socket '{}' changed", s.dst(), s.dci, s.own_global(), sck),
        ));
    }
    let mut kinds: Vec<String> = e.outs.iter().map(|o| o.kind.name()).collect();
    kinds.sort();
    kinds.dedup();
    for r in kinds {
        v.push((
            format!("C11/R1/{}/v6/{}/foreign-ip-answered-{}", s.kind_name(), s.dst_class(), r),
            format!("destination {} (context {} + in-line IID) is not an address of the interface ({}) but a frame ({}) was emitted", s.dst(), s.dci, s.own_global(), r),
        ));
    }
    v
}

fn detail(s: &Scn, e: &Exec, what: &str) -> String {
    let mut t = format!("{} | {}\nframe in: {}", what, s.describe(), e.frame_hex);
    for o in &e.outs {
        t.push_str(&format!("\nframe out: {} [{}]", o.describe(), pkt::hex(&o.raw)));
    }
    t.push_str(&format!("\nsockets changed during ingress: {:?}", e.delivered));
    t
}

pub fn scenarios() -> Vec<Scn> {
    let mut v = vec![];
    for &pair in Pair::ALL {
        for rx_checksum_off in [false, true] {
            for sock in [Sock::Std, Sock::NoSock] {
                for src_in_context in [false, true] {
                    for sci in [0u8, 1] {
                        for dci in [0u8, 1] {
                            for dst_own_iid in [true, false] {
                                for &probe in CProbe::ALL {
                                    v.push(Scn { pair, rx_checksum_off, sock, src_in_context, sci, dci, dst_own_iid, probe });
                                }
                            }
                        }
                    }
                }
            }
        }
    }
    v
}

pub struct Totals {
    pub runs: u64,
    pub validated: u64,
}

pub fn run(rep: &mut Report) -> Totals {
    let scns = scenarios();
    struct R {
        viols: Vec<(String, String)>,
        errors: Vec<String>,
        panic: Option<String>,
        outcome: String,
        validated: bool,
    }
    let fp = |e: &Exec| fp128(&(e.outs.iter().map(|o| pkt::hex(&o.raw)).collect::<Vec<_>>(), &e.delivered, &e.frame_hex));
    let results: Vec<R> = scns
        .par_iter()
        .map(|s| match catch_unwind(AssertUnwindSafe(|| execute(s, false))) {
            Err(p) => R { viols: vec![], errors: vec![], panic: Some(format!("{} at {} | {}", panic_msg(p), last_panic_loc(), s.describe())), outcome: String::new(), validated: false },
            Ok(e) => {
                let viols: Vec<(String, String)> = judge(s, &e).into_iter().map(|(sig, what)| (sig, detail(s, &e, &what))).collect();
                let mut errors = e.errors.clone();
                let mut validated = false;
                match catch_unwind(AssertUnwindSafe(|| execute(s, true))) {
                    Ok(e2) if fp(&e2) == fp(&e) && e2.errors.is_empty() => validated = true,
                    Ok(e2) if !e2.errors.is_empty() => errors.extend(e2.errors.iter().cloned()),
                    _ => errors.push("NONDETERMINISM: re-execution differs".into()),
                }
                let mut kinds: Vec<String> = e.outs.iter().map(|o| o.kind.name()).collect();
                kinds.sort();
                kinds.dedup();
                let outcome = if e.delivered.is_empty() && kinds.is_empty() { "silent".to_string() } else { format!("delivered{:?} replied{:?}", e.delivered, kinds) };
                R { viols, errors, panic: None, outcome, validated }
            }
        })
        .collect();
    let mut tot = Totals { runs: 0, validated: 0 };
    let mut by_class: BTreeMap<String, BTreeMap<String, u64>> = BTreeMap::new();
    let mut sig_runs: BTreeMap<String, u64> = BTreeMap::new();
    let (mut judged, mut viol_runs, mut panics) = (0u64, 0u64, 0u64);
    for (s, r) in scns.iter().zip(results.iter()) {
        tot.runs += 1;
        if let Some(p) = &r.panic {
            panics += 1;
            if rep.machinery_errors.len() < 20 {
                rep.machinery_errors.push(format!("panic in the 6LoWPAN context part: {}", p));
            }
            continue;
        }
        for e in &r.errors {
            if rep.machinery_errors.len() < 20 {
                rep.machinery_errors.push(format!("{} | {}", e, s.describe()));
            }
        }
        tot.validated += r.validated as u64;
        *by_class.entry(s.dst_class().to_string()).or_default().entry(r.outcome.clone()).or_insert(0) += 1;
        if !s.for_us() {
            judged += 1;
        }
        if !r.viols.is_empty() {
            viol_runs += 1;
        }
        for (sig, det) in &r.viols {
            *sig_runs.entry(sig.clone()).or_insert(0) += 1;
            rep.violation(sig.clone(), det.clone(), json!({"type": "lowpan-context", "scenario": s.to_json()}));
        }
    }
    // positive control: every probe, with either source form, reaches the stack at least once
    // when the destination is ours (the hand-written IPHC headers are well formed and the
    // contexts are in effect). Deliberately not per (SCI, DCI): delivery of traffic that IS for us
    // is not demanded by the property, so a stack that loses some of it must not turn this check
    // into a machinery error.
    for &p in CProbe::ALL {
        for src_in_context in [false, true] {
            let ok = scns.iter().zip(results.iter()).any(|(s, r)| s.probe == p && s.src_in_context == src_in_context && s.for_us() && r.panic.is_none() && r.outcome != "silent");
            if !ok {
                rep.machinery_errors.push(format!("positive control failed: context-compressed {} (source in context: {}) for our own address never delivered/answered", p.name(), src_in_context));
            }
        }
    }
    rep.cov(
        "lowpan_address_contexts",
        json!({
            "what": "802.15.4 frames with CID extension and context-compressed destination (DAC=1, DAM=01); the denoted address is computed from RFC 6282, checksums over the denoted addresses",
            "dimensions": {
                "contexts": Pair::ALL.iter().map(|x| x.name()).collect::<Vec<_>>(), "rx_checksum_verification_off": [false, true], "sockets": ["std", "none"],
                "source": ["in-line (fe80::2)", "context SCI + IID"], "sci": [0, 1], "dci": [0, 1], "destination_iid": ["own", "other"],
                "probe": CProbe::ALL.iter().map(|x| x.name()).collect::<Vec<_>>(),
            },
            "runs": tot.runs, "runs_judged_by_R1(destination foreign)": judged, "violating_runs": viol_runs,
            "outcomes_by_destination_class": by_class, "runs_per_signature": sig_runs, "panics": panics,
        }),
    );
    tot
}

pub fn replay(v: &Value, want: &str) -> i32 {
    let Some(s) = v.get("scenario").and_then(Scn::from_json) else {
        eprintln!("MACHINERY ERROR: artefact has no replayable scenario");
        return 2;
    };
    println!("{}", s.describe());
    println!("own addresses: fe80::1, {}; source denoted: {}; destination denoted: {}", s.own_global(), s.src(), s.dst());
    let e = match catch_unwind(AssertUnwindSafe(|| execute(&s, true))) {
        Ok(e) => e,
        Err(p) => {
            println!("panic: {} at {}", panic_msg(p), last_panic_loc());
            return 2;
        }
    };
    println!("frame in       : {}", e.frame_hex);
    for o in &e.outs {
        println!("   frame out   : {} [{}]", o.describe(), pkt::hex(&o.raw));
    }
    if e.outs.is_empty() {
        println!("   (no frame out)");
    }
    println!("sockets changed during ingress: {:?}", e.delivered);
    for l in &e.errors {
        println!("MACHINERY ERROR: {}", l);
    }
    let mut hit = false;
    for (sig, what) in judge(&s, &e) {
        println!("violation: {} :: {}", sig, what);
        if sig == want || want.is_empty() {
            hit = true;
        }
    }
    if !e.errors.is_empty() {
        return 2;
    }
    if hit {
        1
    } else {
        println!("no violation with signature '{}' on replay", want);
        0
    }
}
