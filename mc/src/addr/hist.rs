//! Short-history part of C11 for address-bound TCP listeners.
//!
//! Interface with two addresses A1, A2 of one IP version; the application calls
//! `listen((A1, 80))`. All histories up to a bounded length over the alphabet below are executed on
//! fresh interfaces; after EVERY frame the clause "such a socket only ever receives segments ...
//! that match its bound endpoint" (R2) is evaluated against the endpoint THE APPLICATION ASKED FOR
//! in its last `listen()` call — not against what the socket reports about itself (a socket that
//! lost its address binding would agree with itself):
//!   * a frame addressed to (A2, 80) must not change the TCP socket during ingress;
//!   * whenever the socket reports a local endpoint, its address is A1 (and its port 80).
//! What the stack answers to the A2 frames (a RST) is not demanded by the statement and only counted.
//!
//! Alphabet: SYN to A1, SYN to A2, RST to A1 with the sequence number that matches the half-open
//! connection, RST to A2, ACK to A1 completing the handshake (acknowledging the ISN seen on the
//! wire), the same ACK addressed to A2, FIN to A1, data segment to A2, and the API event
//! `abort(); listen((A1, 80))`. All segments come from one on-link peer (port 4000).

use super::model::*;
use super::pkt::{self, Out, OutKind};
use super::world::World;
use crate::core::*;
use crate::wirecheck::Addr;
use rayon::prelude::*;
use serde_json::{json, Value};
use smoltcp::socket::tcp;
use std::collections::BTreeMap;
use std::panic::{catch_unwind, AssertUnwindSafe};

alphabet!(Ev {
    SynA1 => "syn-to-A1",
    SynA2 => "syn-to-A2",
    RstA1 => "rst-to-A1",
    RstA2 => "rst-to-A2",
    AckA1 => "ack-to-A1",
    AckA2 => "ack-to-A2",
    FinA1 => "fin-to-A1",
    DataA2 => "data-to-A2",
    Relisten => "api:abort+listen((A1,80))",
});

impl Ev {
    fn to_a2(self) -> bool {
        matches!(self, Ev::SynA2 | Ev::RstA2 | Ev::AckA2 | Ev::DataA2)
    }
    fn kind_name(self) -> &'static str {
        match self {
            Ev::SynA1 | Ev::SynA2 => Kind::TcpSyn.name(),
            Ev::RstA1 | Ev::RstA2 => Kind::TcpRst.name(),
            Ev::AckA1 | Ev::AckA2 => Kind::TcpAck.name(),
            Ev::FinA1 => "tcp-fin",
            Ev::DataA2 => Kind::TcpData.name(),
            Ev::Relisten => "api",
        }
    }
}

#[derive(Clone, Debug, PartialEq, Eq)]
pub struct Hist {
    pub med: Med,
    pub ver: Ver,
    pub events: Vec<Ev>,
}

impl Hist {
    pub fn to_json(&self) -> Value {
        json!({"medium": self.med.name(), "ip_version": self.ver.name(), "events": self.events.iter().map(|e| e.name()).collect::<Vec<_>>()})
    }
    pub fn from_json(v: &Value) -> Option<Hist> {
        let mut events = vec![];
        for e in v.get("events")?.as_array()? {
            events.push(Ev::from_name(e.as_str()?)?);
        }
        Some(Hist { med: Med::from_name(v.get("medium")?.as_str()?)?, ver: Ver::from_name(v.get("ip_version")?.as_str()?)?, events })
    }
    pub fn describe(&self) -> String {
        format!("history {} {} listen((A1,80)): {}", self.med.name(), self.ver.name(), self.events.iter().map(|e| e.name()).collect::<Vec<_>>().join(" ; "))
    }
}

fn ll_cell(med: Med, ver: Ver) -> Cell {
    Cell {
        med,
        ver,
        kind: Kind::TcpSyn,
        ll: match med {
            Med::Eth => LlDst::Own,
            Med::Lowpan => LlDst::PanOwnExtOwn,
            Med::Ip => LlDst::NoLl,
        },
        dst: Dst::Own,
        src: Src::OnLink,
        port: Port::Match,
        sock: Sock::Bound,
        joined: false,
        primed: true,
        prefix: Prefix::NoPrefix,
        auto_first: None,
        layout: Layout::Same2,
        routes: RouteCfg::DefaultForeign,
        any_ip: false,
    }
}

pub struct Step {
    pub ev: Ev,
    pub frame_hex: String,
    pub outs: Vec<Out>,
    pub changed: bool,
    pub before: String,
    pub after_ingress: String,
    pub after_egress: String,
    pub viols: Vec<(String, String)>,
}

pub struct HistExec {
    pub steps: Vec<Step>,
    pub errors: Vec<String>,
    pub frames_in: u32,
}

pub fn execute(h: &Hist, strict: bool) -> HistExec {
    let mut w = World::new(h.med, h.ver, Layout::Same2, Sock::Bound, false, true, strict);
    let a = addrs(h.ver);
    let (a1, a2) = (a.my.clone(), a.my2.clone());
    let peer = a.peer.clone();
    let cell = ll_cell(h.med, h.ver);
    let mut ack = DEFAULT_ACK;
    let mut steps = vec![];
    let mut frames_in = 0;
    let snap = |w: &World| w.tcp_snap().map(|t| t.describe()).unwrap_or_default();
    for &ev in &h.events {
        let before = snap(&w);
        let seg = |dst: &Addr, seq: u32, ackn: u32, flags: u8, payload: &[u8]| {
            super::ll_wrap(&cell, &peer, dst, 6, 64, &pkt::tcp(&peer, dst, PEER_PORT, TCP_PORT, seq, ackn, flags, 1024, payload))
        };
        let frame = match ev {
            Ev::SynA1 => Some(seg(&a1, PEER_ISN, 0, pkt::TCP_SYN, &[])),
            Ev::SynA2 => Some(seg(&a2, PEER_ISN, 0, pkt::TCP_SYN, &[])),
            Ev::RstA1 => Some(seg(&a1, PEER_ISN + 1, 0, pkt::TCP_RST, &[])),
            Ev::RstA2 => Some(seg(&a2, PEER_ISN + 1, 0, pkt::TCP_RST, &[])),
            Ev::AckA1 => Some(seg(&a1, PEER_ISN + 1, ack, pkt::TCP_ACK, &[])),
            Ev::AckA2 => Some(seg(&a2, PEER_ISN + 1, ack, pkt::TCP_ACK, &[])),
            Ev::FinA1 => Some(seg(&a1, PEER_ISN + 1, ack, pkt::TCP_ACK | 0x01, &[])),
            Ev::DataA2 => Some(seg(&a2, PEER_ISN + 1, ack, pkt::TCP_ACK | pkt::TCP_PSH, b"data")),
            Ev::Relisten => None,
        };
        let mut viols = vec![];
        let (outs, changed, after_ingress, frame_hex);
        match frame {
            None => {
                if let Some(hd) = w.h_tcp {
                    let s = w.sockets.get_mut::<tcp::Socket>(hd);
                    s.abort();
                    if s.listen((super::world::to_ip(&a1), TCP_PORT)).is_err() {
                        w.errors.push("listen((A1,80)) after abort() failed".into());
                    }
                }
                outs = w.poll_collect();
                changed = false;
                after_ingress = snap(&w);
                frame_hex = String::new();
            }
            Some(f) => {
                frames_in += 1;
                let pre = w.images();
                let (o, (mid, mid_tcp)) = w.apply_mid(&f);
                changed = pre.iter().zip(mid.iter()).any(|((n, x), (_, y))| *n == "tcp" && x != y);
                after_ingress = mid_tcp.map(|t| t.describe()).unwrap_or_default();
                frame_hex = pkt::hex(&f);
                for x in &o {
                    if x.kind == OutKind::TcpSynAck {
                        if let Some((_, _, seq, _, _)) = x.l4 {
                            ack = seq.wrapping_add(1);
                        }
                    }
                }
                outs = o;
                if ev.to_a2() && changed {
                    viols.push((
                        format!("C11/R2/{}/{}/own-second-addr/delivered-tcp-addr-mismatch", ev.kind_name(), h.ver.name()),
                        format!("the application listens on ({}, {}) but the segment addressed to ({}, {}) changed the socket", a1, TCP_PORT, a2, TCP_PORT),
                    ));
                }
            }
        }
        // whenever the socket has a local endpoint it must be the one the application bound
        if let Some(t) = w.tcp_snap() {
            if let Some((addr, port)) = &t.local {
                if *addr != a1 || *port != TCP_PORT {
                    viols.push((
                        format!("C11/R2/{}/{}/own-second-addr/tcp-socket-local-endpoint-not-the-bound-address", ev.kind_name(), h.ver.name()),
                        format!("the application listens on ({}, {}) but the socket now has local endpoint {}:{}", a1, TCP_PORT, addr, port),
                    ));
                }
            }
        }
        steps.push(Step { ev, frame_hex, outs, changed, before, after_ingress, after_egress: snap(&w), viols });
    }
    HistExec { steps, errors: std::mem::take(&mut w.errors), frames_in }
}

fn detail(h: &Hist, e: &HistExec, what: &str) -> String {
    let mut t = format!("{} | {}", what, h.describe());
    for s in &e.steps {
        t.push_str(&format!(
            "\n{}: in [{}] out {:?}\n    socket: {} -> after ingress {} -> after egress {}",
            s.ev.name(),
            s.frame_hex,
            s.outs.iter().map(|o| o.describe()).collect::<Vec<_>>(),
            s.before,
            s.after_ingress,
            s.after_egress
        ));
    }
    t
}

fn fingerprint(e: &HistExec) -> u128 {
    let v: Vec<(String, Vec<String>, String)> = e.steps.iter().map(|s| (s.frame_hex.clone(), s.outs.iter().map(|o| pkt::hex(&o.raw)).collect(), s.after_egress.clone())).collect();
    fp128(&v)
}

pub fn histories(tier: Tier) -> Vec<Hist> {
    let max_len = if tier == Tier::Quick { 3 } else { 4 };
    let mut seqs: Vec<Vec<Ev>> = vec![vec![]];
    let mut all: Vec<Vec<Ev>> = vec![];
    for _ in 0..max_len {
        let mut next = vec![];
        for s in &seqs {
            for &e in Ev::ALL {
                let mut n = s.clone();
                n.push(e);
                next.push(n);
            }
        }
        all.extend(next.iter().cloned());
        seqs = next;
    }
    let mut v = vec![];
    for (med, ver) in [(Med::Ip, Ver::V4), (Med::Ip, Ver::V6), (Med::Eth, Ver::V4), (Med::Eth, Ver::V6), (Med::Lowpan, Ver::V6)] {
        for s in &all {
            v.push(Hist { med, ver, events: s.clone() });
        }
    }
    v
}

pub struct HistTotals {
    pub runs: u64,
    pub frames_in: u64,
    pub validated: u64,
}

pub fn run(rep: &mut Report, tier: Tier) -> HistTotals {
    let mut tot = HistTotals { runs: 0, frames_in: 0, validated: 0 };
    if smoltcp::config::IFACE_MAX_ADDR_COUNT < 2 {
        rep.cov("tcp_listener_histories", json!("skipped: IFACE_MAX_ADDR_COUNT < 2"));
        return tot;
    }
    let hs = histories(tier);
    struct R {
        viols: Vec<(String, String)>,
        errors: Vec<String>,
        panic: Option<String>,
        frames_in: u32,
        validated: bool,
        a2_frames: u32,
        a2_rst: u32,
        final_state: String,
    }
    let results: Vec<R> = hs
        .par_iter()
        .enumerate()
        .map(|(i, h)| match catch_unwind(AssertUnwindSafe(|| execute(h, false))) {
            Err(p) => R { viols: vec![], errors: vec![], panic: Some(format!("{} at {} | {}", panic_msg(p), last_panic_loc(), h.describe())), frames_in: 0, validated: false, a2_frames: 0, a2_rst: 0, final_state: String::new() },
            Ok(e) => {
                let mut viols = vec![];
                for s in &e.steps {
                    for (sig, what) in &s.viols {
                        viols.push((sig.clone(), detail(h, &e, what)));
                    }
                }
                let mut errors = e.errors.clone();
                let mut validated = false;
                if i % 8 == 0 || !viols.is_empty() {
                    match catch_unwind(AssertUnwindSafe(|| execute(h, true))) {
                        Ok(e2) if fingerprint(&e2) == fingerprint(&e) && e2.errors.is_empty() => validated = true,
                        Ok(e2) if !e2.errors.is_empty() => errors.extend(e2.errors.iter().cloned()),
                        _ => errors.push("NONDETERMINISM: re-execution differs".into()),
                    }
                }
                let a2_frames = e.steps.iter().filter(|s| s.ev.to_a2()).count() as u32;
                let a2_rst = e.steps.iter().filter(|s| s.ev.to_a2() && s.outs.iter().any(|o| o.kind == OutKind::TcpRst)).count() as u32;
                let final_state = e.steps.last().map(|s| s.after_egress.split(' ').next().unwrap_or("").to_string()).unwrap_or_default();
                R { viols, errors, panic: None, frames_in: e.frames_in, validated, a2_frames, a2_rst, final_state }
            }
        })
        .collect();
    let mut sig_runs: BTreeMap<String, u64> = BTreeMap::new();
    let mut final_states: BTreeMap<String, u64> = BTreeMap::new();
    let (mut a2_frames, mut a2_rst, mut viol_runs, mut panics) = (0u64, 0u64, 0u64, 0u64);
    for (h, r) in hs.iter().zip(results.iter()) {
        tot.runs += 1;
        if let Some(p) = &r.panic {
            panics += 1;
            if rep.machinery_errors.len() < 20 {
                rep.machinery_errors.push(format!("panic in the listener-history part: {}", p));
            }
            continue;
        }
        for e in &r.errors {
            if rep.machinery_errors.len() < 20 {
                rep.machinery_errors.push(format!("{} | {}", e, h.describe()));
            }
        }
        tot.frames_in += r.frames_in as u64;
        tot.validated += r.validated as u64;
        a2_frames += r.a2_frames as u64;
        a2_rst += r.a2_rst as u64;
        *final_states.entry(r.final_state.clone()).or_insert(0) += 1;
        if !r.viols.is_empty() {
            viol_runs += 1;
        }
        let mut seen = std::collections::BTreeSet::new();
        for (sig, det) in &r.viols {
            if seen.insert(sig.clone()) {
                *sig_runs.entry(sig.clone()).or_insert(0) += 1;
            }
            rep.violation(sig.clone(), det.clone(), json!({"type": "history", "history": h.to_json()}));
        }
    }
    // positive controls: the histories must reach the interesting states
    for want in ["state=Established", "state=Listen", "state=SynReceived", "state=CloseWait"] {
        if !final_states.contains_key(want) {
            rep.machinery_errors.push(format!("positive control failed: no listener history ends in {}", want));
        }
    }
    rep.cov(
        "tcp_listener_histories",
        json!({
            "what": "listen((A1,80)) on a two-address interface; every event sequence up to the stated length; R2 judged after every frame against the endpoint the application bound",
            "alphabet": Ev::ALL.iter().map(|e| e.name()).collect::<Vec<_>>(),
            "max_length": if tier == Tier::Quick { 3 } else { 4 },
            "bases": ["ip/v4", "ip/v6", "ethernet/v4", "ethernet/v6", "ieee802154/v6"],
            "histories": tot.runs, "frames_injected": tot.frames_in,
            "frames_addressed_to_A2": a2_frames, "of_which_answered_with_RST": a2_rst,
            "final_tcp_state": final_states, "violating_histories": viol_runs, "histories_per_signature": sig_runs, "panics": panics,
        }),
    );
    tot
}

pub fn replay(v: &Value, want: &str) -> i32 {
    let Some(h) = v.get("history").and_then(Hist::from_json) else {
        eprintln!("MACHINERY ERROR: artefact has no replayable history");
        return 2;
    };
    println!("{}", h.describe());
    let e = match catch_unwind(AssertUnwindSafe(|| execute(&h, true))) {
        Ok(e) => e,
        Err(p) => {
            println!("panic: {} at {}", panic_msg(p), last_panic_loc());
            return 2;
        }
    };
    let mut hit = false;
    for s in &e.steps {
        println!("{}", s.ev.name());
        if !s.frame_hex.is_empty() {
            println!("   frame in  : {}", s.frame_hex);
        }
        for o in &s.outs {
            println!("   frame out : {} [{}]", o.describe(), pkt::hex(&o.raw));
        }
        println!("   tcp socket: {}\n      after ingress: {}{}\n      after egress : {}", s.before, s.after_ingress, if s.changed { "  (changed by the frame)" } else { "" }, s.after_egress);
        for (sig, what) in &s.viols {
            println!("   violation: {} :: {}", sig, what);
            if sig == want || want.is_empty() {
                hit = true;
            }
        }
    }
    for l in &e.errors {
        println!("MACHINERY ERROR: {}", l);
    }
    if !e.errors.is_empty() {
        return 2;
    }
    if hit {
        1
    } else {
        println!("no violation with signature '{}' on replay", want);
        0
    }
}
