//! Timed part of C11: an address obtained by stateless autoconfiguration (SLAAC) is "an address of
//! the interface" only between the router advertisement that announced its prefix and the end of
//! the advertised valid lifetime (RFC 4862 5.5.4). The expected address set is computed HERE from
//! the advertisements injected and their lifetimes — never read from `iface.ip_addrs()`.
//!
//! One run = fresh interface with `Config::slaac = true` and only fe80::1/64 configured by hand;
//! router advertisement(s) for 2001:db8:3::/64 with valid lifetime L; an application event loop
//! that polls exactly at the instants `poll_at()` returns (with variants for the deadline that
//! equals the end of the valid lifetime: 1 ms early, exact, 1 ms late, not at all) until the probe
//! instant; there the application polls once with nothing queued (pending maintenance output
//! such as MLD reports is flushed and not judged), then one probe addressed to the SLAAC address
//! arrives and is processed (`poll_ingress_single` + `poll`).
//!
//! Oracle (rule R1 of C11): when the probe instant lies before the first advertisement or after
//! the end of the valid lifetime, the SLAAC address is a foreign unicast address: no socket may
//! change during ingress and no frame may come out (a neighbor solicitation whose TARGET is that
//! address counts as traffic for it, like an ARP request for a foreign address). Lenient: the
//! instant that equals the end of the valid lifetime is executed but not judged; judged from
//! 1 µs later. While the address is valid nothing is demanded (answers are counted as positive
//! controls only).

use super::model::*;
use super::pkt::{self, Out};
use super::world::{self, World};
use crate::core::*;
use crate::wirecheck::Addr;
use rayon::prelude::*;
use serde_json::{json, Value};
use smoltcp::wire::Ieee802154Address;
use std::collections::BTreeMap;
use std::panic::{catch_unwind, AssertUnwindSafe};

alphabet!(Probe {
    NsMcast => "ndisc-ns(to solicited-node group)",
    NsUnicast => "ndisc-ns(unicast)",
    Echo => "icmp-echo-request",
    Udp => "udp",
    TcpSyn => "tcp-syn",
});
alphabet!(When {
    BeforeRa => "before-any-advertisement",
    AfterRa1s => "advertisement+1s",
    FirstLifetimeEnd => "first-advertisement+L+1ms",
    VuMinus1s => "valid_until-1s",
    VuMinus1ms => "valid_until-1ms",
    AtVu => "valid_until",
    VuPlus1us => "valid_until+1us",
    VuPlus1ms => "valid_until+1ms",
    VuPlus1s => "valid_until+1s",
    VuPlus100s => "valid_until+100s",
});
alphabet!(DeadlinePoll {
    Skip => "application blocked: no poll between the deadline before valid_until and the probe",
    Early => "valid_until-1ms",
    Exact => "valid_until (exactly what poll_at() returned)",
    Late => "valid_until+1ms",
});

const T_RA_US: i64 = 2_000_000;
const T_REFRESH_US: i64 = 12_000_000;
const EXTRA_POLL_US: i64 = 100_000;
const PREFIX: [u8; 16] = [0x20, 0x01, 0x0d, 0xb8, 0, 3, 0, 0, 0, 0, 0, 0, 0, 0, 0, 0];

#[derive(Clone, Copy, Debug, PartialEq, Eq)]
pub struct Scn {
    pub med: Med,
    pub valid_s: u32,
    pub preferred_s: u32,
    pub router_s: u16,
    pub refresh: bool,
    pub extra_poll: bool,
    pub dpoll: DeadlinePoll,
    pub when: When,
    pub probe: Probe,
}

impl Scn {
    pub fn to_json(&self) -> Value {
        json!({
            "medium": self.med.name(), "valid_lifetime_s": self.valid_s, "preferred_lifetime_s": self.preferred_s,
            "router_lifetime_s": self.router_s, "advertisement_repeated_after_10s": self.refresh,
            "extra_poll_100ms_after_each_advertisement": self.extra_poll, "poll_for_the_valid_until_deadline": self.dpoll.name(),
            "probe_instant": self.when.name(), "probe": self.probe.name(),
        })
    }
    pub fn from_json(v: &Value) -> Option<Scn> {
        let s = |k: &str| v.get(k).and_then(|x| x.as_str());
        let b = |k: &str| v.get(k).and_then(|x| x.as_bool());
        let n = |k: &str| v.get(k).and_then(|x| x.as_u64());
        Some(Scn {
            med: Med::from_name(s("medium")?)?,
            valid_s: n("valid_lifetime_s")? as u32,
            preferred_s: n("preferred_lifetime_s")? as u32,
            router_s: n("router_lifetime_s")? as u16,
            refresh: b("advertisement_repeated_after_10s")?,
            extra_poll: b("extra_poll_100ms_after_each_advertisement")?,
            dpoll: DeadlinePoll::from_name(s("poll_for_the_valid_until_deadline")?)?,
            when: When::from_name(s("probe_instant")?)?,
            probe: Probe::from_name(s("probe")?)?,
        })
    }
    pub fn describe(&self) -> String {
        format!(
            "slaac {} L={}s preferred={}s router-lifetime={}s repeated={} extra-poll={} deadline-poll=[{}] probe={} at {}",
            self.med.name(), self.valid_s, self.preferred_s, self.router_s, self.refresh, self.extra_poll, self.dpoll.name(), self.probe.name(), self.when.name()
        )
    }
    /// end of the valid lifetime if every planned advertisement is sent
    fn final_vu(&self) -> i64 {
        (if self.refresh { T_REFRESH_US } else { T_RA_US }) + self.valid_s as i64 * 1_000_000
    }
    fn probe_time(&self) -> i64 {
        let vu = self.final_vu();
        match self.when {
            When::BeforeRa => 1_500_000,
            When::AfterRa1s => T_RA_US + 1_000_000,
            When::FirstLifetimeEnd => T_RA_US + self.valid_s as i64 * 1_000_000 + 1000,
            When::VuMinus1s => vu - 1_000_000,
            When::VuMinus1ms => vu - 1000,
            When::AtVu => vu,
            When::VuPlus1us => vu + 1,
            When::VuPlus1ms => vu + 1000,
            When::VuPlus1s => vu + 1_000_000,
            When::VuPlus100s => vu + 100_000_000,
        }
    }
    /// advertisements sent before the probe instant (µs)
    fn ra_times(&self) -> Vec<i64> {
        let tp = self.probe_time();
        let mut v = vec![];
        if T_RA_US < tp {
            v.push(T_RA_US);
        }
        if self.refresh && T_REFRESH_US < tp {
            v.push(T_REFRESH_US);
        }
        v
    }
}

/// The SLAAC address the interface has to form: prefix + modified EUI-64 of the hardware address
/// (RFC 4291 appendix A: universal/local bit inverted; 48-bit MACs get ff:fe in the middle).
pub fn slaac_addr(med: Med) -> Addr {
    let mut a = PREFIX;
    match med {
        Med::Eth => {
            a[8..11].copy_from_slice(&MY_MAC[0..3]);
            a[11] = 0xff;
            a[12] = 0xfe;
            a[13..16].copy_from_slice(&MY_MAC[3..6]);
        }
        _ => a[8..16].copy_from_slice(&MY_EXT),
    }
    a[8] ^= 0x02;
    Addr::V6(a)
}

#[derive(Clone, Copy, PartialEq, Eq, Debug)]
pub enum Expect {
    /// the address is (or may be) valid: nothing demanded
    Own,
    /// not judged (the instant that equals the end of the valid lifetime)
    Boundary,
    ForeignBeforeRa,
    ForeignAfterLifetime,
}

pub fn expectation(s: &Scn) -> Expect {
    let tp = s.probe_time();
    match s.ra_times().last() {
        None => Expect::ForeignBeforeRa,
        Some(&last) => {
            let vu = last + s.valid_s as i64 * 1_000_000;
            if tp < vu {
                Expect::Own
            } else if tp == vu {
                Expect::Boundary
            } else {
                Expect::ForeignAfterLifetime
            }
        }
    }
}

fn ll_cell(med: Med, multicast: bool) -> Cell {
    Cell {
        med,
        ver: Ver::V6,
        kind: Kind::Udp,
        ll: match (med, multicast) {
            (Med::Eth, false) => LlDst::Own,
            (Med::Eth, true) => LlDst::Mcast,
            (Med::Lowpan, false) => LlDst::PanOwnExtOwn,
            (Med::Lowpan, true) => LlDst::PanOwnShortBcast,
            _ => LlDst::NoLl,
        },
        dst: Dst::Own,
        src: Src::OnLink,
        port: Port::Match,
        sock: Sock::Std,
        joined: false,
        primed: true,
        prefix: Prefix::NoPrefix,
        auto_first: None,
        layout: Layout::Same2,
        routes: RouteCfg::DefaultForeign,
        any_ip: false,
    }
}

fn ra_frame(s: &Scn) -> Vec<u8> {
    let a = addrs(Ver::V6);
    let all_nodes = dst_addr(Ver::V6, Dst::AllNodes).unwrap();
    let ra = pkt::router_advert(&a.gw, &all_nodes, s.router_s, &PREFIX, 64, s.valid_s, s.preferred_s);
    match s.med {
        Med::Eth => pkt::eth(&mapped_mac(&all_nodes), &GW_MAC, 0x86dd, &pkt::ip_packet(&a.gw, &all_nodes, 58, 255, &ra)),
        Med::Lowpan => world::lowpan_frame(PAN_OWN, Ieee802154Address::BROADCAST, Ieee802154Address::Extended(GW_EXT), &a.gw, &all_nodes, 58, 255, &ra),
        Med::Ip => pkt::ip_packet(&a.gw, &all_nodes, 58, 255, &ra),
    }
}

fn probe_frame(s: &Scn) -> Vec<u8> {
    let a = addrs(Ver::V6);
    let target = slaac_addr(s.med);
    let Addr::V6(t) = &target else { unreachable!() };
    let src = a.peer.clone();
    let sll: &[u8] = if s.med == Med::Lowpan { &PEER_EXT } else { &PEER_MAC };
    match s.probe {
        Probe::NsMcast => {
            let sol = Addr::V6([0xff, 2, 0, 0, 0, 0, 0, 0, 0, 0, 0, 1, 0xff, t[13], t[14], t[15]]);
            super::ll_wrap(&ll_cell(s.med, true), &src, &sol, 58, 255, &pkt::neighbor_solicit(&src, &sol, t, Some(sll)))
        }
        Probe::NsUnicast => super::ll_wrap(&ll_cell(s.med, false), &src, &target, 58, 255, &pkt::neighbor_solicit(&src, &target, t, Some(sll))),
        Probe::Echo => super::ll_wrap(&ll_cell(s.med, false), &src, &target, 58, 64, &pkt::echo_request(&src, &target, ICMP_IDENT, 1, b"ping")),
        Probe::Udp => super::ll_wrap(&ll_cell(s.med, false), &src, &target, 17, 64, &pkt::udp(&src, &target, PEER_PORT, UDP_PORT, b"abcd")),
        Probe::TcpSyn => super::ll_wrap(&ll_cell(s.med, false), &src, &target, 6, 64, &pkt::tcp(&src, &target, PEER_PORT, TCP_PORT, PEER_ISN, 0, pkt::TCP_SYN, 1024, &[])),
    }
}

pub struct ScnExec {
    pub log: Vec<String>,
    pub frame_hex: String,
    pub outs: Vec<Out>,
    pub delivered: Vec<&'static str>,
    pub errors: Vec<String>,
    /// what the interface lists at the probe instant (printed in replays; NOT used by the oracle)
    pub listed_addrs: String,
    pub polls: u32,
    pub frames_in: u32,
}

struct Driver {
    w: World,
    log: Vec<String>,
    last_poll_us: i64,
    vu_served: bool,
    blocked: bool,
    polls: u32,
}

impl Driver {
    fn poll_at(&mut self, t: i64, why: &str) {
        self.w.now_us = t;
        let outs = self.w.poll_collect();
        self.last_poll_us = t;
        self.polls += 1;
        self.log.push(format!("t={:>12.6}s poll ({}) -> {:?}", t as f64 / 1e6, why, outs.iter().map(|o| o.describe()).collect::<Vec<_>>()));
    }

    /// the application's event loop: poll exactly when `poll_at()` says so, up to (excluding)
    /// `limit`; `vu` = the current end of the valid lifetime, whose deadline is served per `dpoll`
    fn run_until(&mut self, limit: i64, vu: Option<i64>, dpoll: DeadlinePoll) {
        for _ in 0..64 {
            if self.blocked {
                return;
            }
            let now = self.w.now();
            let Some(d) = self.w.iface.poll_at(now, &self.w.sockets) else { return };
            let d = d.total_micros();
            let is_vu = Some(d) == vu;
            let t = if is_vu {
                if self.vu_served {
                    return;
                }
                match dpoll {
                    DeadlinePoll::Skip => {
                        self.blocked = true;
                        return;
                    }
                    DeadlinePoll::Early => d - 1000,
                    DeadlinePoll::Exact => d,
                    DeadlinePoll::Late => d + 1000,
                }
            } else {
                d
            };
            let t = t.max(self.w.now_us);
            if t >= limit {
                return;
            }
            if t == self.last_poll_us {
                return; // deadline not in the future and already served at this instant
            }
            if is_vu {
                self.vu_served = true;
            }
            self.poll_at(t, if is_vu { "deadline = end of valid lifetime" } else { "deadline from poll_at()" });
        }
        self.w.errors.push("application event loop did not come to rest within 64 polls".into());
    }
}

pub fn execute(s: &Scn, strict: bool) -> ScnExec {
    let w = World::new_slaac(s.med, Sock::Std, strict);
    let mut d = Driver { last_poll_us: w.now_us, w, log: vec![], vu_served: false, blocked: false, polls: 0 };
    let tp = s.probe_time();
    let mut vu = None;
    let mut frames_in = 0;
    for t_ra in s.ra_times() {
        d.run_until(t_ra, vu, s.dpoll);
        d.w.dev.rx.push_back(ra_frame(s));
        frames_in += 1;
        d.blocked = false;
        d.poll_at(t_ra, "router advertisement arrives");
        vu = Some(t_ra + s.valid_s as i64 * 1_000_000);
        d.vu_served = false;
        if s.extra_poll && t_ra + EXTRA_POLL_US < tp {
            d.run_until(t_ra + EXTRA_POLL_US, vu, s.dpoll);
            d.poll_at(t_ra + EXTRA_POLL_US, "unrelated wake-up of the application");
        }
    }
    d.run_until(tp, vu, s.dpoll);
    // the application wakes up at the probe instant with nothing queued: maintenance output
    // (MLD reports for groups left/joined, ...) is flushed here and not attributed to the probe
    d.poll_at(tp, "probe instant, nothing queued yet");
    let extra = d.w.poll_collect();
    if !extra.is_empty() {
        d.w.errors.push("interface not quiescent at the probe instant".into());
    }
    let listed_addrs = format!("{:?}", d.w.iface.ip_addrs());
    let frame = probe_frame(s);
    let pre = d.w.images();
    let (outs, (mid, _)) = d.w.apply_mid(&frame);
    frames_in += 1;
    let mut delivered = vec![];
    for ((n, a), (_, b)) in pre.iter().zip(mid.iter()) {
        if a != b {
            delivered.push(*n);
        }
    }
    ScnExec {
        log: std::mem::take(&mut d.log),
        frame_hex: pkt::hex(&frame),
        outs,
        delivered,
        errors: std::mem::take(&mut d.w.errors),
        listed_addrs,
        polls: d.polls,
        frames_in,
    }
}

pub fn probe_kind_name(p: Probe) -> &'static str {
    match p {
        Probe::NsMcast | Probe::NsUnicast => Kind::Ns.name(),
        Probe::Echo => Kind::Echo.name(),
        Probe::Udp => Kind::Udp.name(),
        Probe::TcpSyn => Kind::TcpSyn.name(),
    }
}

/// (signature, what) for every violation of R1 in this run
pub fn judge(s: &Scn, e: &ScnExec) -> Vec<(String, String)> {
    let phase = match expectation(s) {
        Expect::Own | Expect::Boundary => return vec![],
        Expect::ForeignBeforeRa => "slaac-address-before-advertisement",
        Expect::ForeignAfterLifetime => "slaac-address-after-valid-lifetime",
    };
    let mut v = vec![];
    let k = probe_kind_name(s.probe);
    for sck in &e.delivered {
        v.push((format!("C11/R1/{}/v6/{}/foreign-ip-delivered-{}", k, phase, sck), format!("the SLAAC address {} is not an address of the interface at the probe instant ({}) but socket '{}' changed", slaac_addr(s.med), phase, sck)));
    }
    let mut kinds: Vec<String> = e.outs.iter().map(|o| o.kind.name()).collect();
    kinds.sort();
    kinds.dedup();
    for r in kinds {
        v.push((format!("C11/R1/{}/v6/{}/foreign-ip-answered-{}", k, phase, r), format!("the SLAAC address {} is not an address of the interface at the probe instant ({}) but a frame ({}) was emitted", slaac_addr(s.med), phase, r)));
    }
    v
}

fn detail(s: &Scn, e: &ScnExec, what: &str) -> String {
    let mut t = format!("{} | {}", what, s.describe());
    for l in &e.log {
        t.push_str(&format!("\n{}", l));
    }
    t.push_str(&format!("\nprobe in: {}", e.frame_hex));
    for o in &e.outs {
        t.push_str(&format!("\nframe out: {} [{}]", o.describe(), pkt::hex(&o.raw)));
    }
    t.push_str(&format!("\nsockets changed during ingress: {:?}; interface lists {}", e.delivered, e.listed_addrs));
    t
}

pub fn scenarios(tier: Tier) -> Vec<Scn> {
    let meds: &[Med] = &[Med::Eth, Med::Lowpan];
    let prefs = |l: u32| if tier == Tier::Quick { vec![l] } else { vec![l, 10] };
    let routers: Vec<u16> = if tier == Tier::Quick { vec![0, 20] } else { vec![0, 20, 9000] };
    let mut v = vec![];
    for &med in meds {
        for valid_s in [30u32, 100] {
            for preferred_s in prefs(valid_s) {
                for &router_s in &routers {
                    for refresh in [false, true] {
                        for extra_poll in [false, true] {
                            for &dpoll in DeadlinePoll::ALL {
                                for &when in When::ALL {
                                    for &probe in Probe::ALL {
                                        v.push(Scn { med, valid_s, preferred_s, router_s, refresh, extra_poll, dpoll, when, probe });
                                    }
                                }
                            }
                        }
                    }
                }
            }
        }
    }
    v
}

pub struct TimedTotals {
    pub runs: u64,
    pub frames_in: u64,
    pub validated: u64,
}

struct RunRes {
    viols: Vec<(String, String, String)>,
    errors: Vec<String>,
    panic: Option<String>,
    expect: Expect,
    outcome: String,
    polls: u32,
    frames_in: u32,
    validated: bool,
}

fn outcome(e: &ScnExec) -> String {
    let mut kinds: Vec<String> = e.outs.iter().map(|o| o.kind.name()).collect();
    kinds.sort();
    kinds.dedup();
    let mut s = String::new();
    if !e.delivered.is_empty() {
        s.push_str(&format!("delivered[{}]", e.delivered.join(",")));
    }
    if !kinds.is_empty() {
        if !s.is_empty() {
            s.push('+');
        }
        s.push_str(&format!("replied[{}]", kinds.join(",")));
    }
    if s.is_empty() {
        s.push_str("silent");
    }
    s
}

fn fingerprint(e: &ScnExec) -> u128 {
    fp128(&(e.outs.iter().map(|o| pkt::hex(&o.raw)).collect::<Vec<_>>(), &e.delivered, &e.log, &e.frame_hex))
}

pub fn run(rep: &mut Report, tier: Tier) -> TimedTotals {
    let scns = scenarios(tier);
    let results: Vec<RunRes> = scns
        .par_iter()
        .enumerate()
        .map(|(i, s)| match catch_unwind(AssertUnwindSafe(|| execute(s, false))) {
            Err(p) => RunRes {
                viols: vec![],
                errors: vec![],
                panic: Some(format!("{} at {} | {}", panic_msg(p), last_panic_loc(), s.describe())),
                expect: expectation(s),
                outcome: String::new(),
                polls: 0,
                frames_in: 0,
                validated: false,
            },
            Ok(e) => {
                let viols: Vec<(String, String, String)> = judge(s, &e).into_iter().map(|(sig, what)| (sig, detail(s, &e, &what), what)).collect();
                let mut errors = e.errors.clone();
                let mut validated = false;
                if i % 8 == 0 || !viols.is_empty() {
                    match catch_unwind(AssertUnwindSafe(|| execute(s, true))) {
                        Ok(e2) if fingerprint(&e2) == fingerprint(&e) && e2.errors.is_empty() => validated = true,
                        Ok(e2) if !e2.errors.is_empty() => errors.extend(e2.errors.iter().cloned()),
                        _ => errors.push("NONDETERMINISM: re-execution differs".into()),
                    }
                }
                RunRes { viols, errors, panic: None, expect: expectation(s), outcome: outcome(&e), polls: e.polls, frames_in: e.frames_in, validated }
            }
        })
        .collect();

    let mut tot = TimedTotals { runs: 0, frames_in: 0, validated: 0 };
    let mut per_expect: BTreeMap<String, BTreeMap<String, u64>> = BTreeMap::new();
    let mut sig_runs: BTreeMap<String, u64> = BTreeMap::new();
    let mut polls = 0u64;
    let mut viol_runs = 0u64;
    let mut own_answered = 0u64;
    let mut panics = 0u64;
    for (s, r) in scns.iter().zip(results.iter()) {
        tot.runs += 1;
        if let Some(p) = &r.panic {
            panics += 1;
            if rep.machinery_errors.len() < 20 {
                rep.machinery_errors.push(format!("panic in the timed SLAAC part: {}", p));
            }
            continue;
        }
        for e in &r.errors {
            if rep.machinery_errors.len() < 20 {
                rep.machinery_errors.push(format!("{} | {}", e, s.describe()));
            }
        }
        tot.frames_in += r.frames_in as u64;
        tot.validated += r.validated as u64;
        polls += r.polls as u64;
        *per_expect.entry(format!("{:?}", r.expect)).or_default().entry(r.outcome.clone()).or_insert(0) += 1;
        if r.expect == Expect::Own && r.outcome != "silent" {
            own_answered += 1;
        }
        if !r.viols.is_empty() {
            viol_runs += 1;
        }
        for (sig, det, _) in &r.viols {
            *sig_runs.entry(sig.clone()).or_insert(0) += 1;
            rep.violation(sig.clone(), det.clone(), json!({"type": "slaac", "scenario": s.to_json()}));
        }
    }
    // positive controls: while the address is valid it must have been seen working for every
    // probe (otherwise "silent after expiry" would be vacuous: wrong address, RA not accepted..)
    for &p in Probe::ALL {
        for &med in &[Med::Eth, Med::Lowpan] {
            let ok = scns.iter().zip(results.iter()).any(|(s, r)| s.probe == p && s.med == med && r.expect == Expect::Own && r.outcome != "silent" && r.panic.is_none());
            if !ok {
                rep.machinery_errors.push(format!("positive control failed: probe {} on {} never delivered/answered while the SLAAC address was valid", p.name(), med.name()));
            }
        }
    }
    let judged: u64 = results.iter().filter(|r| matches!(r.expect, Expect::ForeignBeforeRa | Expect::ForeignAfterLifetime)).count() as u64;
    rep.cov(
        "timed_slaac",
        json!({
            "what": "SLAAC address 2001:db8:3::/64 + EUI-64; expected validity computed from the advertisements injected, never from ip_addrs()",
            "dimensions": {
                "medium": ["ethernet", "ieee802154"], "valid_lifetime_s": [30, 100],
                "preferred_lifetime_s": if tier == Tier::Quick { json!(["= valid"]) } else { json!(["= valid", 10]) },
                "router_lifetime_s": if tier == Tier::Quick { json!([0, 20]) } else { json!([0, 20, 9000]) },
                "advertisement_repeated_after_10s": [false, true], "extra_poll_100ms_after_each_advertisement": [false, true],
                "poll_for_the_valid_until_deadline": DeadlinePoll::ALL.iter().map(|x| x.name()).collect::<Vec<_>>(),
                "probe_instant": When::ALL.iter().map(|x| x.name()).collect::<Vec<_>>(),
                "probe": Probe::ALL.iter().map(|x| x.name()).collect::<Vec<_>>(),
            },
            "runs": tot.runs, "polls_by_the_event_loop": polls, "frames_injected": tot.frames_in,
            "runs_judged_by_R1(address foreign)": judged, "violating_runs": viol_runs,
            "runs_while_address_valid_with_delivery_or_answer(positive control)": own_answered,
            "outcomes_by_expectation": per_expect, "runs_per_signature": sig_runs, "panics": panics,
        }),
    );
    tot
}

pub fn replay(v: &Value, want: &str) -> i32 {
    let Some(s) = v.get("scenario").and_then(Scn::from_json) else {
        eprintln!("MACHINERY ERROR: artefact has no replayable scenario");
        return 2;
    };
    println!("{}", s.describe());
    println!("SLAAC address expected from the advertisement: {}; expectation at the probe instant: {:?}", slaac_addr(s.med), expectation(&s));
    let e = match catch_unwind(AssertUnwindSafe(|| execute(&s, true))) {
        Ok(e) => e,
        Err(p) => {
            println!("panic: {} at {}", panic_msg(p), last_panic_loc());
            return 2;
        }
    };
    for l in &e.log {
        println!("{}", l);
    }
    println!("interface lists (not used by the oracle): {}", e.listed_addrs);
    println!("probe in       : {}", e.frame_hex);
    for o in &e.outs {
        println!("   frame out   : {} [{}]", o.describe(), pkt::hex(&o.raw));
    }
    if e.outs.is_empty() {
        println!("   (no frame out)");
    }
    println!("sockets changed during ingress: {:?}", e.delivered);
    for l in &e.errors {
        println!("MACHINERY ERROR: {}", l);
    }
    let mut hit = false;
    for (sig, what) in judge(&s, &e) {
        println!("violation: {} :: {}", sig, what);
        if sig == want || want.is_empty() {
            hit = true;
        }
    }
    if !e.errors.is_empty() {
        return 2;
    }
    if hit {
        1
    } else {
        println!("no violation with signature '{}' on replay", want);
        0
    }
}
