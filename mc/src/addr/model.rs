//! The finite table: dimensions, their alphabets, and the concrete addresses behind each class.

use crate::wirecheck::Addr;
use serde_json::{json, Value};

macro_rules! alphabet {
    ($t:ident { $($v:ident => $n:expr),* $(,)? }) => {
        #[derive(Clone, Copy, PartialEq, Eq, Debug, PartialOrd, Ord, Hash)]
        pub enum $t { $($v),* }
        impl $t {
            pub const ALL: &'static [$t] = &[$($t::$v),*];
            pub fn name(self) -> &'static str { match self { $($t::$v => $n),* } }
            pub fn from_name(s: &str) -> Option<$t> { Self::ALL.iter().copied().find(|x| x.name() == s) }
        }
    };
}

alphabet!(Med { Eth => "ethernet", Ip => "ip", Lowpan => "ieee802154" });
alphabet!(Ver { V4 => "v4", V6 => "v6" });
alphabet!(Kind {
    Echo => "icmp-echo-request",
    IcmpErr => "icmp-error",
    Udp => "udp",
    TcpSyn => "tcp-syn",
    TcpAck => "tcp-ack",
    TcpRst => "tcp-rst",
    TcpData => "tcp-data",
    Arp => "arp-request",
    Ns => "ndisc-ns",
    DnsResp => "dns-response",
});
alphabet!(LlDst {
    NoLl => "none",
    Own => "own",
    OtherUni => "other-unicast",
    Bcast => "broadcast",
    Mcast => "mapped-multicast",
    PanOwnExtOwn => "pan-own/ext-own",
    PanOwnExtOther => "pan-own/ext-other",
    PanOwnShortBcast => "pan-own/short-bcast",
    PanBcastExtOwn => "pan-bcast/ext-own",
    PanBcastShortBcast => "pan-bcast/short-bcast",
    PanOtherExtOwn => "pan-other/ext-own",
    PanOtherShortBcast => "pan-other/short-bcast",
    NoDstSrcPanOther => "no-dst-addressing/src-pan-other",
    NoDstSrcPanOwn => "no-dst-addressing/src-pan-own",
});
alphabet!(Dst {
    Own => "own",
    Own2 => "own-second-addr",
    OtherOnLink => "other-onlink",
    OffLink => "offlink",
    SubnetBcast => "subnet-bcast",
    LimitedBcast => "limited-bcast",
    AllNodes => "all-nodes",
    SolNode => "solicited-node",
    GroupG => "group-g",
    GroupU => "group-never-joined",
    Unspec => "unspecified",
    Loopback => "loopback",
    ForeignGlobalLow16 => "foreign-global-sharing-low-16-bits",
    ForeignGlobalLow24 => "foreign-global-sharing-low-24-bits",
    ForeignLinkLocalLow24 => "foreign-linklocal-sharing-low-24-bits",
    SolNodeForeign => "solicited-node-shaped-not-ours",
    McastLast3Ours => "non-solicited-node-multicast-ending-like-ours",
    Subnet2Bcast => "second-subnet-bcast",
});
alphabet!(Src {
    OnLink => "onlink",
    OffLink => "offlink",
    Unspec => "unspecified",
    Bcast => "subnet-bcast",
    LBcast => "limited-bcast",
    Mcast => "multicast",
    Loopback => "loopback",
    Own => "own",
    Bcast2 => "second-subnet-bcast",
});
alphabet!(Layout {
    Same2 => "[own, own-second-addr] (same IP version)",
    V4V6 => "[ipv4/24, ipv6/64]",
    V6V4 => "[ipv6/64, ipv4/24]",
    Host32First => "[ipv4 other/32, ipv4/24]",
    TwoSubnets => "[ipv4/24, ipv4/24 second subnet]",
});
alphabet!(RouteCfg {
    DefaultForeign => "default route via the on-link gateway",
    NoRoutes => "no routes",
    DefaultOwn => "default route via OUR OWN address",
    SpecificOwn => "prefixes covering the foreign unicast destinations via OUR OWN address",
    SpecificOwnExpired => "the same prefixes via OUR OWN address, expired",
});
alphabet!(Port {
    Match => "matching",
    NoMatch => "not-matching",
    DstZero => "dst-port-0",
    SrcZero => "src-port-0-dst-matching",
});
alphabet!(Sock { NoSock => "none", Std => "std", Raw => "std+raw", Bound => "addr-bound", Dns => "std+dns" });
alphabet!(Prefix {
    NoPrefix => "none",
    Teach => "arp-or-ns-teaches-peer",
    SynOwn => "syn-to-own-listener",
    SynBcast => "syn-to-broadcast-or-all-nodes",
    SynBcastQueued => "syn-to-broadcast-or-all-nodes-no-egress-pass-before-next-frame",
    UdpOwn => "udp-to-own-port",
    Handshake => "syn-then-ack-establishes-connection",
});

// ---- concrete addresses ----------------------------------------------------------------
pub const MY_MAC: [u8; 6] = [2, 0, 0, 0, 0, 1];
pub const PEER_MAC: [u8; 6] = [2, 0, 0, 0, 0, 2];
pub const GW_MAC: [u8; 6] = [2, 0, 0, 0, 0, 0x64];
pub const OTHER_MAC: [u8; 6] = [2, 0, 0, 0, 0, 0x77];
pub const MY_EXT: [u8; 8] = [2, 0, 0, 0, 0, 0, 0, 1];
pub const PEER_EXT: [u8; 8] = [2, 0, 0, 0, 0, 0, 0, 2];
pub const GW_EXT: [u8; 8] = [2, 0, 0, 0, 0, 0, 0, 0x64];
pub const OTHER_EXT: [u8; 8] = [2, 0, 0, 0, 0, 0, 0, 0x77];
pub const PAN_OWN: u16 = 0xbeef;
pub const PAN_OTHER: u16 = 0x1234;
pub const PAN_BCAST: u16 = 0xffff;

pub const TCP_PORT: u16 = 80;
pub const UDP_PORT: u16 = 7000;
pub const ICMP_IDENT: u16 = 0x1234;
pub const PEER_PORT: u16 = 4000;
pub const PEER_ISN: u32 = 1000;
pub const DEFAULT_ACK: u32 = 0x5000_0001;

const fn v6(hi: u16, b: u16, c: u16, lo: u16) -> [u8; 16] {
    [(hi >> 8) as u8, hi as u8, (b >> 8) as u8, b as u8, (c >> 8) as u8, c as u8, 0, 0, 0, 0, 0, 0, 0, 0, (lo >> 8) as u8, lo as u8]
}

/// second IPv4 subnet 172.16.5.0/24 (layout TwoSubnets) and the host address of layout
/// Host32First
pub const SUBNET2_OWN: [u8; 4] = [172, 16, 5, 1];
pub const SUBNET2_BCAST: [u8; 4] = [172, 16, 5, 255];
pub const HOST32_OWN: [u8; 4] = [10, 9, 9, 9];

/// The interface's address table (address, prefix length) in table order for a layout; the
/// cell's IP version decides which family "own"/"own-second-addr" refer to.
pub fn address_table(ver: Ver, layout: Layout) -> Vec<(Addr, u8)> {
    let (a4, a6) = (addrs(Ver::V4), addrs(Ver::V6));
    match layout {
        Layout::Same2 => {
            let a = addrs(ver);
            vec![(a.my, a.prefix_len), (a.my2, a.prefix_len2)]
        }
        Layout::V4V6 => vec![(a4.my, 24), (a6.my, 64)],
        Layout::V6V4 => vec![(a6.my, 64), (a4.my, 24)],
        Layout::Host32First => vec![(Addr::V4(HOST32_OWN), 32), (a4.my, 24)],
        Layout::TwoSubnets => vec![(a4.my, 24), (Addr::V4(SUBNET2_OWN), 24)],
    }
}

/// The routes of a configuration as (prefix, prefix length, gateway, expired). "Specific" routes
/// cover the foreign unicast destination classes other-onlink and offlink (IFACE_MAX_ROUTE_COUNT
/// is 2 by default; the look-alike IPv6 classes are only covered by the default route via our
/// own address).
pub fn route_table(ver: Ver, cfg: RouteCfg) -> Vec<(Addr, u8, Addr, bool)> {
    let a = addrs(ver);
    let zero = match ver {
        Ver::V4 => Addr::V4([0; 4]),
        Ver::V6 => Addr::V6([0; 16]),
    };
    let specific = |expired: bool| -> Vec<(Addr, u8, Addr, bool)> {
        match ver {
            // 10.1.2.0/24 (offlink 10.1.2.3) and 192.168.69.64/26 (other-onlink 192.168.69.77)
            Ver::V4 => vec![(Addr::V4([10, 1, 2, 0]), 24, a.my.clone(), expired), (Addr::V4([192, 168, 69, 64]), 26, a.my.clone(), expired)],
            // 2001:db8:ffff::/48 (offlink 2001:db8:ffff::9) and fe80::40/122 (other-onlink fe80::77)
            Ver::V6 => vec![
                (Addr::V6([0x20, 0x01, 0x0d, 0xb8, 0xff, 0xff, 0, 0, 0, 0, 0, 0, 0, 0, 0, 0]), 48, a.my.clone(), expired),
                (Addr::V6([0xfe, 0x80, 0, 0, 0, 0, 0, 0, 0, 0, 0, 0, 0, 0, 0, 0x40]), 122, a.my.clone(), expired),
            ],
        }
    };
    match cfg {
        RouteCfg::NoRoutes => vec![],
        RouteCfg::DefaultForeign => vec![(zero, 0, a.gw.clone(), false)],
        RouteCfg::DefaultOwn => vec![(zero, 0, a.my.clone(), false)],
        RouteCfg::SpecificOwn => specific(false),
        RouteCfg::SpecificOwnExpired => specific(true),
    }
}

/// Does the configuration contain a live route covering this foreign unicast destination class
/// whose gateway is one of our own addresses? (the documented AnyIP acceptance rule)
pub fn routed_via_own(cfg: RouteCfg, dst: Dst) -> bool {
    match cfg {
        RouteCfg::DefaultOwn => true,
        RouteCfg::SpecificOwn => matches!(dst, Dst::OtherOnLink | Dst::OffLink),
        _ => false,
    }
}

/// the interface's other address of the cell's IP version, if the layout has one
pub fn own2_addr(ver: Ver, layout: Layout) -> Option<Addr> {
    let my = addrs(ver).my;
    address_table(ver, layout).into_iter().map(|x| x.0).find(|a| *a != my && matches!((a, ver), (Addr::V4(_), Ver::V4) | (Addr::V6(_), Ver::V6)))
}

pub struct Addrs {
    pub my: Addr,
    pub my2: Addr,
    pub prefix_len: u8,
    pub prefix_len2: u8,
    pub peer: Addr,
    pub other: Addr,
    pub gw: Addr,
    pub off: Addr,
    pub group_g: Addr,
    pub group_u: Addr,
    pub mcast_src: Addr,
}

pub fn addrs(ver: Ver) -> Addrs {
    match ver {
        Ver::V4 => Addrs {
            my: Addr::V4([192, 168, 69, 1]),
            my2: Addr::V4([192, 168, 69, 3]),
            prefix_len: 24,
            prefix_len2: 24,
            peer: Addr::V4([192, 168, 69, 2]),
            other: Addr::V4([192, 168, 69, 77]),
            gw: Addr::V4([192, 168, 69, 100]),
            off: Addr::V4([10, 1, 2, 3]),
            group_g: Addr::V4([239, 1, 2, 3]),
            group_u: Addr::V4([239, 9, 9, 9]),
            mcast_src: Addr::V4([224, 0, 0, 5]),
        },
        Ver::V6 => Addrs {
            my: Addr::V6(v6(0xfe80, 0, 0, 1)),
            my2: Addr::V6(v6(0x2001, 0x0db8, 0, 1)),
            prefix_len: 64,
            prefix_len2: 64,
            peer: Addr::V6(v6(0xfe80, 0, 0, 2)),
            other: Addr::V6(v6(0xfe80, 0, 0, 0x77)),
            gw: Addr::V6(v6(0xfe80, 0, 0, 0x100)),
            off: Addr::V6(v6(0x2001, 0x0db8, 0xffff, 9)),
            group_g: Addr::V6(v6(0xff02, 0, 0, 0x1234)),
            group_u: Addr::V6(v6(0xff02, 0, 0, 0x9999)),
            mcast_src: Addr::V6(v6(0xff02, 0, 0, 5)),
        },
    }
}

/// Address behind a destination class; None = class does not exist for this IP version.
pub fn dst_addr(ver: Ver, d: Dst) -> Option<Addr> {
    let a = addrs(ver);
    Some(match (ver, d) {
        (_, Dst::Own) => a.my,
        (_, Dst::Own2) => a.my2,
        (_, Dst::OtherOnLink) => a.other,
        (_, Dst::OffLink) => a.off,
        (Ver::V4, Dst::SubnetBcast) => Addr::V4([192, 168, 69, 255]),
        (Ver::V4, Dst::LimitedBcast) => Addr::V4([255; 4]),
        (Ver::V6, Dst::SubnetBcast) | (Ver::V6, Dst::LimitedBcast) | (Ver::V6, Dst::Subnet2Bcast) => return None,
        // broadcast address of the second IPv4 subnet (layout TwoSubnets only, see `valid`)
        (Ver::V4, Dst::Subnet2Bcast) => Addr::V4(SUBNET2_BCAST),
        // IPv4 all-systems 224.0.0.1 is the IPv4 counterpart of ff02::1
        (Ver::V4, Dst::AllNodes) => Addr::V4([224, 0, 0, 1]),
        (Ver::V6, Dst::AllNodes) => Addr::V6(v6(0xff02, 0, 0, 1)),
        (Ver::V4, Dst::SolNode) => return None,
        // solicited-node multicast of fe80::1 (and of 2001:db8::1): ff02::1:ff00:1
        (Ver::V6, Dst::SolNode) => Addr::V6([0xff, 2, 0, 0, 0, 0, 0, 0, 0, 0, 0, 1, 0xff, 0, 0, 1]),
        (_, Dst::GroupG) => a.group_g,
        (_, Dst::GroupU) => a.group_u,
        (Ver::V4, Dst::Unspec) => Addr::V4([0; 4]),
        (Ver::V6, Dst::Unspec) => Addr::V6([0; 16]),
        (Ver::V4, Dst::Loopback) => Addr::V4([127, 0, 0, 1]),
        (Ver::V6, Dst::Loopback) => Addr::V6(v6(0, 0, 0, 1)),
        // IPv6 look-alikes of our addresses fe80::1 / 2001:db8::1 (low 24 bits 00:00:01). None
        // of them is an address of the interface or a group it listens to.
        (Ver::V4, Dst::ForeignGlobalLow16 | Dst::ForeignGlobalLow24 | Dst::ForeignLinkLocalLow24 | Dst::SolNodeForeign | Dst::McastLast3Ours) => return None,
        // 2001:db8:aaaa::55:1 — last two octets 00:01 as ours, third-last differs
        (Ver::V6, Dst::ForeignGlobalLow16) => Addr::V6([0x20, 0x01, 0x0d, 0xb8, 0xaa, 0xaa, 0, 0, 0, 0, 0, 0, 0, 0x55, 0, 1]),
        // 2001:db8:aaaa::1 — last three octets as ours
        (Ver::V6, Dst::ForeignGlobalLow24) => Addr::V6([0x20, 0x01, 0x0d, 0xb8, 0xaa, 0xaa, 0, 0, 0, 0, 0, 0, 0, 0, 0, 1]),
        // fe80::1:0:0:1 — on-link, last three octets as ours
        (Ver::V6, Dst::ForeignLinkLocalLow24) => Addr::V6([0xfe, 0x80, 0, 0, 0, 0, 0, 0, 0, 1, 0, 0, 0, 0, 0, 1]),
        // ff02::1:ff55:1 — solicited-node shaped, low 24 bits 55:00:01 match none of ours (low
        // 16 bits do)
        (Ver::V6, Dst::SolNodeForeign) => Addr::V6([0xff, 2, 0, 0, 0, 0, 0, 0, 0, 0, 0, 1, 0xff, 0x55, 0, 1]),
        // ff05::1:ff00:1 — NOT ff02::1:ff00:0/104, but the last three octets equal ours
        (Ver::V6, Dst::McastLast3Ours) => Addr::V6([0xff, 5, 0, 0, 0, 0, 0, 0, 0, 0, 0, 1, 0xff, 0, 0, 1]),
    })
}

pub fn src_addr(ver: Ver, s: Src) -> Option<Addr> {
    let a = addrs(ver);
    Some(match (ver, s) {
        (_, Src::OnLink) => a.peer,
        (_, Src::OffLink) => a.off,
        (Ver::V4, Src::Unspec) => Addr::V4([0; 4]),
        (Ver::V6, Src::Unspec) => Addr::V6([0; 16]),
        (Ver::V4, Src::Bcast) => Addr::V4([192, 168, 69, 255]),
        (Ver::V4, Src::LBcast) => Addr::V4([255; 4]),
        (Ver::V6, Src::Bcast) | (Ver::V6, Src::LBcast) | (Ver::V6, Src::Bcast2) => return None,
        (Ver::V4, Src::Bcast2) => Addr::V4(SUBNET2_BCAST),
        (_, Src::Mcast) => a.mcast_src,
        (Ver::V4, Src::Loopback) => Addr::V4([127, 0, 0, 1]),
        (Ver::V6, Src::Loopback) => Addr::V6(v6(0, 0, 0, 1)),
        (_, Src::Own) => a.my,
    })
}

impl Dst {
    /// foreign UNICAST destination class
    pub fn is_foreign_unicast(self) -> bool {
        matches!(self, Dst::OtherOnLink | Dst::OffLink | Dst::ForeignGlobalLow16 | Dst::ForeignGlobalLow24 | Dst::ForeignLinkLocalLow24)
    }
    /// broadcast or multicast destination class (by construction of the address, not by asking
    /// the stack)
    pub fn is_bcast_mcast(self) -> bool {
        matches!(
            self,
            Dst::SubnetBcast
                | Dst::LimitedBcast
                | Dst::AllNodes
                | Dst::SolNode
                | Dst::GroupG
                | Dst::GroupU
                | Dst::SolNodeForeign
                | Dst::McastLast3Ours
                | Dst::Subnet2Bcast
        )
    }
    /// foreign unicast address or a multicast group that is never joined (R1), independent of
    /// whether group G is joined
    pub fn is_always_foreign(self) -> bool {
        matches!(
            self,
            Dst::OtherOnLink
                | Dst::OffLink
                | Dst::GroupU
                | Dst::ForeignGlobalLow16
                | Dst::ForeignGlobalLow24
                | Dst::ForeignLinkLocalLow24
                | Dst::SolNodeForeign
                | Dst::McastLast3Ours
        )
    }
}
impl Src {
    /// non-unicast source as listed by the statement: unspecified, broadcast, multicast
    pub fn is_non_unicast(self) -> bool {
        matches!(self, Src::Unspec | Src::Bcast | Src::LBcast | Src::Mcast | Src::Bcast2)
    }
}
impl Kind {
    pub fn is_tcp(self) -> bool {
        matches!(self, Kind::TcpSyn | Kind::TcpAck | Kind::TcpRst | Kind::TcpData)
    }
}

/// Multicast MAC mapped from an IP multicast/broadcast destination (RFC 1112 / RFC 2464); for a
/// non-multicast IP destination the all-systems / all-nodes MAC is used (a unicast IP packet in
/// a multicast frame).
pub fn mapped_mac(dst: &Addr) -> [u8; 6] {
    match dst {
        Addr::V4(a) if a[0] >= 224 && a[0] <= 239 => [0x01, 0x00, 0x5e, a[1] & 0x7f, a[2], a[3]],
        Addr::V4(_) => [0x01, 0x00, 0x5e, 0, 0, 1],
        Addr::V6(a) if a[0] == 0xff => [0x33, 0x33, a[12], a[13], a[14], a[15]],
        Addr::V6(_) => [0x33, 0x33, 0, 0, 0, 1],
    }
}

/// First frame of a generic depth-2 sequence: the table coordinates of another cell.
#[derive(Clone, Copy, Debug, PartialEq, Eq)]
pub struct First {
    pub kind: Kind,
    pub ll: LlDst,
    pub dst: Dst,
    pub src: Src,
    pub port: Port,
}

/// One cell of the table (plus the base configuration it runs on).
#[derive(Clone, Copy, Debug, PartialEq, Eq)]
pub struct Cell {
    pub med: Med,
    pub ver: Ver,
    pub kind: Kind,
    pub ll: LlDst,
    pub dst: Dst,
    pub src: Src,
    pub port: Port,
    pub sock: Sock,
    pub joined: bool,
    pub primed: bool,
    pub prefix: Prefix,
    pub auto_first: Option<First>,
    pub layout: Layout,
    pub routes: RouteCfg,
    pub any_ip: bool,
}

fn port_from_json(v: &Value) -> Option<Port> {
    if let Some(s) = v.get("port").and_then(|x| x.as_str()) {
        return Port::from_name(s);
    }
    // artefacts written before the port dimension had more than two values
    v.get("port_match").and_then(|x| x.as_bool()).map(|b| if b { Port::Match } else { Port::NoMatch })
}

impl Cell {
    /// destination port / ident / embedded port / NS target matches the open sockets
    pub fn pm(&self) -> bool {
        matches!(self.port, Port::Match | Port::SrcZero)
    }
    pub fn to_json(&self) -> Value {
        json!({
            "medium": self.med.name(), "ip_version": self.ver.name(), "kind": self.kind.name(),
            "ll_dst": self.ll.name(), "dst": self.dst.name(), "src": self.src.name(),
            "port": self.port.name(), "sockets": self.sock.name(), "group_g_joined": self.joined,
            "neighbors_primed": self.primed, "prefix": self.prefix.name(), "address_table": self.layout.name(), "routes": self.routes.name(), "any_ip": self.any_ip,
            "first_cell": self.auto_first.map(|f| json!({"kind": f.kind.name(), "ll_dst": f.ll.name(), "dst": f.dst.name(), "src": f.src.name(), "port": f.port.name()})),
        })
    }
    pub fn from_json(v: &Value) -> Option<Cell> {
        let s = |k: &str| v.get(k).and_then(|x| x.as_str());
        let b = |k: &str| v.get(k).and_then(|x| x.as_bool());
        Some(Cell {
            med: Med::from_name(s("medium")?)?,
            ver: Ver::from_name(s("ip_version")?)?,
            kind: Kind::from_name(s("kind")?)?,
            ll: LlDst::from_name(s("ll_dst")?)?,
            dst: Dst::from_name(s("dst")?)?,
            src: Src::from_name(s("src")?)?,
            port: port_from_json(v)?,
            sock: Sock::from_name(s("sockets")?)?,
            joined: b("group_g_joined")?,
            primed: b("neighbors_primed")?,
            prefix: Prefix::from_name(s("prefix")?)?,
            // (artefacts written before the layout dimension existed used the first layout)
            layout: match s("address_table") {
                Some(n) => Layout::from_name(n)?,
                None => Layout::Same2,
            },
            routes: match s("routes") {
                Some(n) => RouteCfg::from_name(n)?,
                None => RouteCfg::DefaultForeign,
            },
            any_ip: b("any_ip").unwrap_or(false),
            auto_first: match v.get("first_cell") {
                Some(f) if !f.is_null() => {
                    let fs = |k: &str| f.get(k).and_then(|x| x.as_str());
                    Some(First {
                        kind: Kind::from_name(fs("kind")?)?,
                        ll: LlDst::from_name(fs("ll_dst")?)?,
                        dst: Dst::from_name(fs("dst")?)?,
                        src: Src::from_name(fs("src")?)?,
                        port: port_from_json(f)?,
                    })
                }
                _ => None,
            },
        })
    }
    pub fn describe(&self) -> String {
        let first = match &self.auto_first {
            Some(f) => format!(" first-cell=[{} ll={} dst={} src={} port={}]", f.kind.name(), f.ll.name(), f.dst.name(), f.src.name(), f.port.name()),
            None => String::new(),
        };
        format!(
            "{} {} {} ll={} dst={} src={} port={} sockets={} joined={} primed={} addrs={} routes=[{}] any_ip={} prefix={}{}",
            self.med.name(), self.ver.name(), self.kind.name(), self.ll.name(), self.dst.name(), self.src.name(),
            self.port.name(), self.sock.name(), self.joined, self.primed, self.layout.name(), self.routes.name(), self.any_ip, self.prefix.name(), first
        )
    }
}
