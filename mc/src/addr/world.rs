//! A fresh real smoltcp Interface + SocketSet per cell, brought up the way an application would.

use super::model::*;
use super::pkt::{self, Out, OutKind};
use crate::sim::SimDevice;
use crate::wirecheck::Addr;
use smoltcp::iface::{Config, Interface, SocketHandle, SocketSet};
use smoltcp::phy::Medium;
use smoltcp::socket::{dns, icmp, raw, tcp, udp};
use smoltcp::time::Instant;
use smoltcp::wire::{
    EthernetAddress, HardwareAddress, Ieee802154Address, Ieee802154Pan, IpAddress, IpCidr, IpListenEndpoint, IpProtocol, IpVersion,
    Ipv4Address, Ipv6Address,
};

pub const NOW_MS: i64 = 1000;

pub fn to_ip(a: &Addr) -> IpAddress {
    match a {
        Addr::V4(b) => IpAddress::Ipv4(Ipv4Address::new(b[0], b[1], b[2], b[3])),
        Addr::V6(b) => IpAddress::Ipv6(Ipv6Address::from(*b)),
    }
}
pub fn from_ip(a: &IpAddress) -> Addr {
    match a {
        IpAddress::Ipv4(x) => Addr::V4(x.octets()),
        IpAddress::Ipv6(x) => Addr::V6(x.octets()),
    }
}

/// What the TCP socket says about its own endpoint (public API), taken before a cell runs.
#[derive(Clone, Debug, PartialEq, Eq)]
pub struct TcpSnap {
    pub state: String,
    pub listen: (Option<Addr>, u16),
    pub local: Option<(Addr, u16)>,
    pub remote: Option<(Addr, u16)>,
}

impl TcpSnap {
    pub fn describe(&self) -> String {
        let ep = |e: &Option<(Addr, u16)>| e.as_ref().map(|(a, p)| format!("{}:{}", a, p)).unwrap_or_else(|| "-".into());
        format!(
            "state={} listen={}:{} local={} remote={}",
            self.state,
            self.listen.0.as_ref().map(|a| a.to_string()).unwrap_or_else(|| "*".into()),
            self.listen.1,
            ep(&self.local),
            ep(&self.remote)
        )
    }
}

/// rarely used set-up options
#[derive(Default)]
pub struct Extra {
    pub contexts: Vec<[u8; 8]>,
    pub rx_checksum_off: bool,
    /// explicit routing table (otherwise: `default_route` decides about the gateway route)
    pub routes: Option<RouteCfg>,
    pub any_ip: bool,
}

pub struct World {
    pub med: Med,
    pub ver: Ver,
    pub dev: SimDevice,
    pub iface: Interface,
    pub sockets: SocketSet<'static>,
    pub h_tcp: Option<SocketHandle>,
    pub h_udp: Option<SocketHandle>,
    /// UDP socket that was never bound (no endpoint: must never receive anything)
    pub h_udp_unbound: Option<SocketHandle>,
    /// UDP socket that was bound to another port and closed again (no endpoint either)
    pub h_udp_closed: Option<SocketHandle>,
    pub h_icmp_ident: Option<SocketHandle>,
    pub h_icmp_udp: Option<SocketHandle>,
    pub h_dns: Option<SocketHandle>,
    /// local port and transaction id of the pending DNS query (parsed from the query on the wire)
    pub dns_port: u16,
    pub dns_txid: u16,
    /// the clock handed to the stack (fixed at 1.000 s for the table; moved by the timed part)
    pub now_us: i64,
    pub setup_log: Vec<String>,
    pub errors: Vec<String>,
}

fn medium_of(m: Med) -> Medium {
    match m {
        Med::Eth => Medium::Ethernet,
        Med::Ip => Medium::Ip,
        Med::Lowpan => Medium::Ieee802154,
    }
}

impl World {
    /// `strict`: additionally prove that one more poll after the set-up leaves every socket image
    /// unchanged (costs two extra image computations; done on the re-executions and in replay)
    #[allow(clippy::too_many_arguments)]
    pub fn new(med: Med, ver: Ver, layout: Layout, sock: Sock, joined: bool, primed: bool, strict: bool) -> World {
        Self::new_routed(med, ver, layout, RouteCfg::DefaultForeign, false, sock, joined, primed, strict)
    }

    /// with an explicit routing table configuration and AnyIP switch
    #[allow(clippy::too_many_arguments)]
    pub fn new_routed(med: Med, ver: Ver, layout: Layout, routes: RouteCfg, any_ip: bool, sock: Sock, joined: bool, primed: bool, strict: bool) -> World {
        let mut table = address_table(ver, layout);
        table.truncate(smoltcp::config::IFACE_MAX_ADDR_COUNT.max(1));
        let extra = Extra { routes: Some(routes), any_ip, ..Extra::default() };
        Self::build(med, ver, table, false, false, sock, joined, primed, strict, &extra)
    }

    /// IEEE 802.15.4 interface with 6LoWPAN address contexts configured
    /// (`sixlowpan_address_context_mut()`), own addresses fe80::1/64 and `global`/64, default route
    /// via the on-link gateway; optionally without receive verification of the UDP / TCP / ICMPv6
    /// checksums in the device capabilities.
    pub fn new_lowpan_ctx(global: &Addr, contexts: &[[u8; 8]], rx_checksum_off: bool, sock: Sock, strict: bool) -> World {
        let a = addrs(Ver::V6);
        let extra = Extra { contexts: contexts.to_vec(), rx_checksum_off, ..Extra::default() };
        Self::build(Med::Lowpan, Ver::V6, vec![(a.my, 64), (global.clone(), 64)], true, false, sock, false, true, strict, &extra)
    }

    /// Interface for the timed SLAAC part: stateless autoconfiguration on, only the link-local
    /// address configured by hand, no static default route (routes come from advertisements).
    pub fn new_slaac(med: Med, sock: Sock, strict: bool) -> World {
        let a = addrs(Ver::V6);
        Self::build(med, Ver::V6, vec![(a.my, 64)], false, true, sock, false, true, strict, &Extra::default())
    }

    #[allow(clippy::too_many_arguments)]
    fn build(med: Med, ver: Ver, table: Vec<(Addr, u8)>, default_route: bool, slaac: bool, sock: Sock, joined: bool, primed: bool, strict: bool, extra: &Extra) -> World {
        let mtu = match med {
            Med::Eth => 1514,
            Med::Ip => 1500,
            Med::Lowpan => 127,
        };
        let mut dev = SimDevice::new(medium_of(med), mtu);
        if extra.rx_checksum_off {
            use smoltcp::phy::Checksum;
            dev.checksum.udp = Checksum::Tx;
            dev.checksum.tcp = Checksum::Tx;
            dev.checksum.icmpv6 = Checksum::Tx;
        }
        let hw = match med {
            Med::Eth => HardwareAddress::Ethernet(EthernetAddress(MY_MAC)),
            Med::Ip => HardwareAddress::Ip,
            Med::Lowpan => HardwareAddress::Ieee802154(Ieee802154Address::Extended(MY_EXT)),
        };
        let mut config = Config::new(hw);
        config.random_seed = 0x1234_5678;
        config.slaac = slaac;
        if med == Med::Lowpan {
            config.pan_id = Some(Ieee802154Pan(PAN_OWN));
        }
        let now = Instant::from_millis(NOW_MS);
        let mut iface = Interface::new(config, &mut dev, now);
        let a = addrs(ver);
        iface.update_ip_addrs(|l| {
            for (addr, plen) in &table {
                l.push(IpCidr::new(to_ip(addr), *plen)).unwrap();
            }
        });
        let mut errors = vec![];
        for c in &extra.contexts {
            if iface.sixlowpan_address_context_mut().push(smoltcp::wire::SixlowpanAddressContext(*c)).is_err() {
                errors.push("cannot add 6LoWPAN address context".into());
            }
        }
        if let Some(cfg) = extra.routes {
            use smoltcp::iface::Route;
            for (prefix, plen, via, expired) in route_table(ver, cfg) {
                let r = Route {
                    cidr: IpCidr::new(to_ip(&prefix), plen),
                    via_router: to_ip(&via),
                    preferred_until: None,
                    // expired half a second before the (fixed) clock of the table
                    expires_at: if expired { Some(Instant::from_millis(NOW_MS - 500)) } else { None },
                };
                let mut full = false;
                iface.routes_mut().update(|v| full = v.push(r).is_err());
                if full {
                    errors.push("routing table full".into());
                }
            }
        }
        iface.set_any_ip(extra.any_ip);
        match to_ip(&a.gw) {
            _ if !default_route => {}
            IpAddress::Ipv4(g) => {
                if iface.routes_mut().add_default_ipv4_route(g).is_err() {
                    errors.push("cannot add default route".into());
                }
            }
            IpAddress::Ipv6(g) => {
                if iface.routes_mut().add_default_ipv6_route(g).is_err() {
                    errors.push("cannot add default route".into());
                }
            }
        }
        if joined && iface.join_multicast_group(to_ip(&a.group_g)).is_err() {
            errors.push("cannot join group G".into());
        }

        let mut sockets = SocketSet::new(vec![]);
        let (mut h_tcp, mut h_udp, mut h_icmp_ident, mut h_icmp_udp, mut h_dns) = (None, None, None, None, None);
        let (mut h_udp_unbound, mut h_udp_closed) = (None, None);
        if sock != Sock::NoSock {
            let bound = sock == Sock::Bound;
            let ep = |port: u16| -> IpListenEndpoint {
                if bound {
                    IpListenEndpoint { addr: Some(to_ip(&a.my)), port }
                } else {
                    IpListenEndpoint { addr: None, port }
                }
            };
            let mut t = tcp::Socket::new(tcp::SocketBuffer::new(vec![0u8; 64]), tcp::SocketBuffer::new(vec![0u8; 32]));
            if t.listen(ep(TCP_PORT)).is_err() {
                errors.push("listen failed".into());
            }
            h_tcp = Some(sockets.add(t));
            let mut u = udp::Socket::new(
                udp::PacketBuffer::new(vec![udp::PacketMetadata::EMPTY; 4], vec![0u8; 32]),
                udp::PacketBuffer::new(vec![udp::PacketMetadata::EMPTY; 1], vec![0u8; 8]),
            );
            if u.bind(ep(UDP_PORT)).is_err() {
                errors.push("udp bind failed".into());
            }
            h_udp = Some(sockets.add(u));
            let mk_udp = || {
                udp::Socket::new(
                    udp::PacketBuffer::new(vec![udp::PacketMetadata::EMPTY; 2], vec![0u8; 16]),
                    udp::PacketBuffer::new(vec![udp::PacketMetadata::EMPTY; 1], vec![0u8; 8]),
                )
            };
            let mut uc = mk_udp();
            if uc.bind(UDP_PORT + 2).is_err() {
                errors.push("udp bind failed".into());
            }
            uc.close();
            if uc.is_open() {
                errors.push("udp close failed".into());
            }
            // the first UDP socket that accepts a datagram takes it: let each of the two
            // endpoint-less sockets come first in some configuration
            if bound {
                h_udp_closed = Some(sockets.add(uc));
                h_udp_unbound = Some(sockets.add(mk_udp()));
            } else {
                h_udp_unbound = Some(sockets.add(mk_udp()));
                h_udp_closed = Some(sockets.add(uc));
            }
            let mk_icmp = || {
                icmp::Socket::new(
                    icmp::PacketBuffer::new(vec![icmp::PacketMetadata::EMPTY; 2], vec![0u8; 160]),
                    icmp::PacketBuffer::new(vec![icmp::PacketMetadata::EMPTY; 1], vec![0u8; 8]),
                )
            };
            let mut i1 = mk_icmp();
            if i1.bind(icmp::Endpoint::Ident(ICMP_IDENT)).is_err() {
                errors.push("icmp bind failed".into());
            }
            h_icmp_ident = Some(sockets.add(i1));
            let mut i2 = mk_icmp();
            if i2.bind(icmp::Endpoint::Udp(ep(UDP_PORT))).is_err() {
                errors.push("icmp bind failed".into());
            }
            h_icmp_udp = Some(sockets.add(i2));
            if sock == Sock::Raw {
                let v = match ver {
                    Ver::V4 => IpVersion::Ipv4,
                    Ver::V6 => IpVersion::Ipv6,
                };
                let icmp_proto = match ver {
                    Ver::V4 => IpProtocol::Icmp,
                    Ver::V6 => IpProtocol::Icmpv6,
                };
                for p in [icmp_proto, IpProtocol::Udp, IpProtocol::Tcp] {
                    let r = raw::Socket::new(
                        Some(v),
                        Some(p),
                        raw::PacketBuffer::new(vec![raw::PacketMetadata::EMPTY; 4], vec![0u8; 512]),
                        raw::PacketBuffer::new(vec![raw::PacketMetadata::EMPTY; 1], vec![0u8; 8]),
                    );
                    sockets.add(r);
                }
            }
            if sock == Sock::Dns {
                let d = dns::Socket::new(&[to_ip(&a.peer)], vec![None, None]);
                h_dns = Some(sockets.add(d));
            }
        }
        let mut w = World {
            med,
            ver,
            dev,
            iface,
            sockets,
            h_tcp,
            h_udp,
            h_udp_unbound,
            h_udp_closed,
            h_icmp_ident,
            h_icmp_udp,
            h_dns,
            dns_port: 0,
            dns_txid: 0,
            now_us: NOW_MS * 1000,
            setup_log: vec![],
            errors,
        };
        w.quiesce("bring-up");
        if primed && med != Med::Ip {
            // teach the neighbor cache the on-link peer and the gateway with real ARP / NDISC
            // requests for our address
            for (ip, mac, ext) in [(a.peer.clone(), PEER_MAC, PEER_EXT), (a.gw.clone(), GW_MAC, GW_EXT)] {
                let f = w.teach_frame(&ip, &mac, &ext);
                let outs = w.apply(&f);
                let ok = outs.iter().any(|o| matches!(o.kind, OutKind::ArpReply | OutKind::NeighborAdvert));
                if !ok {
                    w.errors.push(format!("priming {} got no ARP reply / NA: {:?}", ip, outs.iter().map(|o| o.describe()).collect::<Vec<_>>()));
                }
            }
            w.quiesce("priming");
        }
        if let Some(h) = w.h_dns {
            let cx = w.iface.context();
            let r = w.sockets.get_mut::<dns::Socket>(h).start_query(cx, "a.b", smoltcp::wire::DnsQueryType::A);
            if r.is_err() {
                w.errors.push("start_query failed".into());
            }
            let outs = w.poll_collect();
            let mut seen = false;
            for o in &outs {
                if o.kind == OutKind::Udp {
                    if let Some((sp, dp, ..)) = o.l4 {
                        if dp == 53 && o.udp_payload.len() >= 2 {
                            w.dns_port = sp;
                            w.dns_txid = ((o.udp_payload[0] as u16) << 8) | o.udp_payload[1] as u16;
                            seen = true;
                        }
                    }
                }
            }
            if !seen {
                if primed || med == Med::Ip {
                    w.errors.push(format!("DNS query not seen on the wire: {:?}", outs.iter().map(|o| o.describe()).collect::<Vec<_>>()));
                }
            }
            w.quiesce("dns");
        }
        // the set-up must be quiescent: another poll changes nothing and emits nothing
        let before = if strict { w.images() } else { vec![] };
        let outs = w.poll_collect();
        if !outs.is_empty() || (strict && before != w.images()) {
            w.errors.push("set-up not quiescent".into());
        }
        w
    }

    pub fn now(&self) -> Instant {
        Instant::from_micros(self.now_us)
    }

    /// ARP request (Ethernet/IPv4) or neighbor solicitation with source link-layer option
    /// (IPv6) from `ip` for our first address.
    pub fn teach_frame(&self, ip: &Addr, mac: &[u8; 6], ext: &[u8; 8]) -> Vec<u8> {
        let a = addrs(self.ver);
        match (self.med, self.ver) {
            (Med::Eth, Ver::V4) => {
                let (Addr::V4(spa), Addr::V4(tpa)) = (ip, &a.my) else { unreachable!() };
                pkt::eth(&[0xff; 6], mac, 0x0806, &pkt::arp_request(mac, spa, tpa))
            }
            (Med::Eth, Ver::V6) => {
                let sol = dst_addr(Ver::V6, Dst::SolNode).unwrap();
                let Addr::V6(t) = &a.my else { unreachable!() };
                let ns = pkt::neighbor_solicit(ip, &sol, t, Some(mac));
                let p = pkt::ip_packet(ip, &sol, 58, 255, &ns);
                pkt::eth(&mapped_mac(&sol), mac, 0x86dd, &p)
            }
            (Med::Lowpan, _) => {
                let sol = dst_addr(Ver::V6, Dst::SolNode).unwrap();
                let Addr::V6(t) = &a.my else { unreachable!() };
                let ns = pkt::neighbor_solicit(ip, &sol, t, Some(ext));
                lowpan_frame(PAN_OWN, Ieee802154Address::BROADCAST, Ieee802154Address::Extended(*ext), ip, &sol, 58, 255, &ns)
            }
            (Med::Ip, _) => unreachable!(),
        }
    }

    pub fn classify(&self, f: &[u8]) -> Out {
        match self.med {
            Med::Eth => pkt::classify_ethernet(f),
            Med::Ip => pkt::classify_ip(f, f),
            Med::Lowpan => pkt::classify_154(f),
        }
    }

    fn drain(&mut self) -> Vec<Out> {
        let fr = self.dev.take_tx();
        fr.iter().map(|(_, f)| self.classify(f)).collect()
    }

    pub fn poll_collect(&mut self) -> Vec<Out> {
        let t = self.now();
        self.iface.poll(t, &mut self.dev, &mut self.sockets);
        self.drain()
    }

    /// poll until nothing more comes out (bounded); everything emitted is logged, not judged
    fn quiesce(&mut self, what: &str) {
        for _ in 0..16 {
            let outs = self.poll_collect();
            if outs.is_empty() {
                return;
            }
            for o in outs {
                self.setup_log.push(format!("{}: {}", what, o.describe()));
            }
        }
        self.errors.push(format!("{}: still emitting after 16 polls", what));
    }

    /// Inject one frame; first `poll_ingress_single` (the direct answer), then a full `poll`
    /// (socket egress: SYN-ACKs etc.). Returns everything emitted.
    pub fn apply(&mut self, frame: &[u8]) -> Vec<Out> {
        self.apply_mid(frame).0
    }
    /// only `poll_ingress_single`, no egress pass (models a second frame already waiting in the
    /// receive queue: `poll` processes all queued frames before any socket egress)
    pub fn apply_ingress_only(&mut self, frame: &[u8]) -> Vec<Out> {
        self.dev.rx.push_back(frame.to_vec());
        let t = self.now();
        self.iface.poll_ingress_single(t, &mut self.dev, &mut self.sockets);
        self.drain()
    }
    /// like `apply`, also returns the socket images and the TCP socket snapshot taken between
    /// ingress and egress
    #[allow(clippy::type_complexity)]
    pub fn apply_mid(&mut self, frame: &[u8]) -> (Vec<Out>, (Vec<(&'static str, String)>, Option<TcpSnap>)) {
        self.dev.rx.push_back(frame.to_vec());
        let t = self.now();
        self.iface.poll_ingress_single(t, &mut self.dev, &mut self.sockets);
        let mut outs = self.drain();
        let mid = (self.images(), self.tcp_snap());
        for _ in 0..4 {
            let more = self.poll_collect();
            if more.is_empty() {
                break;
            }
            outs.extend(more);
        }
        (outs, mid)
    }

    /// `{:?}` images of the TCP/UDP/ICMP/DNS sockets (raw sockets excluded on purpose)
    pub fn images(&self) -> Vec<(&'static str, String)> {
        let mut v = vec![];
        if let Some(h) = self.h_tcp {
            v.push(("tcp", format!("{:?}", self.sockets.get::<tcp::Socket>(h))));
        }
        if let Some(h) = self.h_udp {
            v.push(("udp", format!("{:?}", self.sockets.get::<udp::Socket>(h))));
        }
        if let Some(h) = self.h_udp_unbound {
            v.push(("udp-unbound", format!("{:?}", self.sockets.get::<udp::Socket>(h))));
        }
        if let Some(h) = self.h_udp_closed {
            v.push(("udp-closed", format!("{:?}", self.sockets.get::<udp::Socket>(h))));
        }
        if let Some(h) = self.h_icmp_ident {
            v.push(("icmp-ident", format!("{:?}", self.sockets.get::<icmp::Socket>(h))));
        }
        if let Some(h) = self.h_icmp_udp {
            v.push(("icmp-udp", format!("{:?}", self.sockets.get::<icmp::Socket>(h))));
        }
        if let Some(h) = self.h_dns {
            v.push(("dns", format!("{:?}", self.sockets.get::<dns::Socket>(h))));
        }
        v
    }

    /// Fingerprint of everything that determines future behaviour: the interface digest hook
    /// (neighbor cache, counters, PRNG, multicast, fragmentation state) and the `{:?}` image of
    /// the whole SocketSet. Used ONLY to merge equivalent first frames in the generic depth-2
    /// exploration, never as an oracle.
    pub fn state_fp(&self) -> u128 {
        crate::core::fp128(&(self.iface.verif_digest(), format!("{:?}", self.sockets)))
    }

    pub fn tcp_snap(&self) -> Option<TcpSnap> {
        let h = self.h_tcp?;
        let s = self.sockets.get::<tcp::Socket>(h);
        let le = s.listen_endpoint();
        Some(TcpSnap {
            state: format!("{:?}", s.state()),
            listen: (le.addr.as_ref().map(from_ip), le.port),
            local: s.local_endpoint().map(|e| (from_ip(&e.addr), e.port)),
            remote: s.remote_endpoint().map(|e| (from_ip(&e.addr), e.port)),
        })
    }
}

/// 802.15.4 data frame + IPHC header (built with smoltcp::wire, next header carried inline)
/// + the upper layer bytes as given. Source PAN = destination PAN (PAN id compression).
#[allow(clippy::too_many_arguments)]
pub fn lowpan_frame(pan: u16, ll_dst: Ieee802154Address, ll_src: Ieee802154Address, src: &Addr, dst: &Addr, proto: u8, hop: u8, l4: &[u8]) -> Vec<u8> {
    use smoltcp::wire::{
        Ieee802154Frame, Ieee802154FrameType, Ieee802154FrameVersion, Ieee802154Repr, SixlowpanIphcPacket, SixlowpanIphcRepr, SixlowpanNextHeader,
    };
    let (Addr::V6(s), Addr::V6(d)) = (src, dst) else { panic!("6LoWPAN carries IPv6 only") };
    let ieee = Ieee802154Repr {
        frame_type: Ieee802154FrameType::Data,
        security_enabled: false,
        frame_pending: false,
        ack_request: false,
        sequence_number: Some(7),
        pan_id_compression: true,
        frame_version: Ieee802154FrameVersion::Ieee802154_2003,
        dst_pan_id: Some(Ieee802154Pan(pan)),
        dst_addr: Some(ll_dst),
        src_pan_id: Some(Ieee802154Pan(pan)),
        src_addr: Some(ll_src),
    };
    let iphc = SixlowpanIphcRepr {
        src_addr: Ipv6Address::from(*s),
        ll_src_addr: Some(ll_src),
        dst_addr: Ipv6Address::from(*d),
        ll_dst_addr: Some(ll_dst),
        next_header: SixlowpanNextHeader::Uncompressed(IpProtocol::from(proto)),
        hop_limit: hop,
        ecn: None,
        dscp: None,
        flow_label: None,
    };
    let hl = ieee.buffer_len();
    let il = iphc.buffer_len();
    let mut f = vec![0u8; hl + il + l4.len()];
    ieee.emit(&mut Ieee802154Frame::new_unchecked(&mut f[..hl]));
    iphc.emit(&mut SixlowpanIphcPacket::new_unchecked(&mut f[hl..hl + il]));
    f[hl + il..].copy_from_slice(l4);
    f
}

/// 802.15.4 data frame WITHOUT destination addressing (frame control 0xc001: data, dst mode
/// none, src mode extended, no PAN id compression => the source PAN id is present), MAC header
/// built byte-wise: `01 c0 <seq> <src pan LE> <src ext addr, transmitted reversed>`; followed by an
/// IPHC header that carries the IPv6 destination inline (no link-layer destination to derive it
/// from) and the upper layer bytes. Per IEEE 802.15.4 such a frame is for the PAN coordinator of
/// the source PAN.
pub fn lowpan_frame_no_dst(src_pan: u16, ll_src: [u8; 8], src: &Addr, dst: &Addr, proto: u8, hop: u8, l4: &[u8]) -> Vec<u8> {
    use smoltcp::wire::{SixlowpanIphcPacket, SixlowpanIphcRepr, SixlowpanNextHeader};
    let (Addr::V6(s), Addr::V6(d)) = (src, dst) else { panic!("6LoWPAN carries IPv6 only") };
    let mut f = vec![0x01, 0xc0, 7, src_pan as u8, (src_pan >> 8) as u8];
    let mut rev = ll_src;
    rev.reverse();
    f.extend_from_slice(&rev);
    let iphc = SixlowpanIphcRepr {
        src_addr: Ipv6Address::from(*s),
        ll_src_addr: Some(Ieee802154Address::Extended(ll_src)),
        dst_addr: Ipv6Address::from(*d),
        ll_dst_addr: None,
        next_header: SixlowpanNextHeader::Uncompressed(IpProtocol::from(proto)),
        hop_limit: hop,
        ecn: None,
        dscp: None,
        flow_label: None,
    };
    let hl = f.len();
    let il = iphc.buffer_len();
    f.resize(hl + il + l4.len(), 0);
    iphc.emit(&mut SixlowpanIphcPacket::new_unchecked(&mut f[hl..hl + il]));
    f[hl + il..].copy_from_slice(l4);
    f
}
