//! C03 — "No received frame sequence can panic, hang or wedge the interface".
//!
//! Bounded-exhaustive input enumeration (E2) + BFS / scripted frame-and-time sequences (E1), on
//! real `Interface`s of the three media (Ethernet, raw IP, IEEE 802.15.4/6LoWPAN) with TCP
//! (LISTEN / SYN-SENT / ESTABLISHED), UDP (two plain sockets whose application discards, and
//! two ECHO servers on the LOWPAN_NHC boundary ports 0xf0bf / 0xf0ff whose application sends
//! every datagram back, so that frames alone make the interface emit UDP), ICMP (Ident / Udp /
//! Tcp endpoints), raw, DNS (pending query) and DHCPv4 sockets. Events of a sequence: one frame
//! + poll, several frames queued before ONE poll, time advance + poll, clock jump without poll. World configurations per medium: A (plain), B (raw sockets, SLAAC,
//! IPv6 peers, DHCP requesting), C (application has close()d the established connection:
//! FIN-WAIT-1), and A with an IPv4-only / IPv6-only / empty address list (Ethernet, IP; 802.15.4:
//! empty). See `run()` for the domains; `frames/seeds.rs` for the seed catalogue;
//! `frames/world.rs` for the world, the application model and the trailing probes.
//!
//! Oracle, per injected frame / per sequence (it demands exactly what the statement says):
//!  (1) `Interface::poll` returns: no panic (catch_unwind) and no hang (deterministic device
//!      call counter inside the poll + a coarse wall-clock watchdog for loops that never touch
//!      the device);
//!  (2) afterwards the interface still answers well-formed requests. The prober (re-)teaches
//!      its link-layer address (ARP request / neighbor solicitation) and sends
//!      (i)   an ICMP echo request to an address the interface owns at that moment (IPv6 always,
//!            IPv4 whenever there is a usable IPv4 subnet: DHCP may legitimately have changed
//!            or removed the address, and some worlds have no address of a family at all);
//!      (ii)  61 s later - every reassembly slot must have timed out by then - an echo request
//!            sent in two fragments (IPv4 fragments resp. 6LoWPAN FRAG1/FRAGN);
//!      (iii) on 802.15.4, after idle polls that let the single egress fragmentation buffer
//!            drain, a 200-octet echo request whose REPLY needs 6LoWPAN fragmentation; all
//!            fragments of the reply must come out and reassemble to the echo.
//!      Each must be answered; what is not applicable in a world (no address) is skipped.

mod pkt;
mod seeds;
mod world;

use crate::core::*;
use crate::sim::{hex, unhex};
use rayon::prelude::*;
use seeds::Seed;
use serde_json::{json, Value};
use smoltcp::phy::Medium;
use std::collections::{BTreeMap, BTreeSet, HashSet};
use std::sync::atomic::{AtomicBool, Ordering};
use std::sync::{mpsc, Mutex};
use world::*;

/// Boundary values for byte mutation in the quick tier (plus original ^ 0x01). Two values are
/// added to the set given in DESIGN.md because length fields have their edges exactly there:
/// 0x28 (= 40, IPv6 header length = smallest legal 6LoWPAN datagram_size) and 0x2f (= 47, one
/// less than the smallest IPv6 + UDP datagram).
const BOUNDARY: [u8; 13] = [0, 1, 7, 8, 0x0f, 0x28, 0x2f, 0x3f, 0x40, 0x7f, 0x80, 0xf0, 0xff];
/// the pair enumeration uses the set exactly as given in DESIGN.md (without 0x28)
const PAIR_VALUES: [u8; 11] = [0, 1, 7, 8, 0x0f, 0x3f, 0x40, 0x7f, 0x80, 0xf0, 0xff];
const HEAD: usize = 96;
const PAIR_HEAD: usize = 40;
const ADVANCES: [i64; 3] = [0, 1_000, 61_000];
/// silences used by the scripted sequences (all > 60 s: neighbor entries and reassembly slots
/// expire; 61 s + 1 s steps and 64 s cover the retransmission at about 63 s of a peer that is
/// polled at every deadline)
const SILENCES: [&[i64]; 4] = [&[61_000], &[61_000, 1_000], &[61_000, 1_000, 1_000], &[64_000]];
/// clock jumps without a poll ("at any instants"): the late segment is the first thing the
/// interface sees after the jump, so it meets round-trip samples, timers and caches that are
/// 2^30 .. 2^33 ms (12 days .. 99 days) and 2^40 ms old
const JUMPS: [i64; 7] = [1 << 30, (1 << 31) - 1, 1 << 31, (1 << 32) - 1, 1 << 32, 1 << 33, 1 << 40];

// ------------------------------------------------------------------------------------------
// events, replayable runs
// ------------------------------------------------------------------------------------------

#[derive(Clone, Debug, PartialEq, Eq)]
pub enum Ev {
    Frame(Vec<u8>),
    Advance(i64),
    /// the clock moves on WITHOUT a poll (a host that slept): the next frame meets the
    /// interface at a far later instant than its timers were last serviced
    Jump(i64),
    /// several frames queued in the device before ONE poll (no application step, no delayed
    /// ACK, no egress pass between them)
    Frames(Vec<Vec<u8>>),
}
fn evs_to_json(evs: &[Ev]) -> Value {
    Value::Array(
        evs.iter()
            .map(|e| match e {
                Ev::Frame(f) => json!({"frame": hex(f)}),
                Ev::Advance(ms) => json!({"advance_ms": ms}),
                Ev::Jump(ms) => json!({"jump_ms": ms}),
                Ev::Frames(fs) => json!({"frames_one_poll": fs.iter().map(|f| hex(f)).collect::<Vec<_>>()}),
            })
            .collect(),
    )
}
fn evs_from_json(v: &Value) -> Vec<Ev> {
    v.as_array()
        .map(|a| {
            a.iter()
                .filter_map(|e| {
                    if let Some(h) = e.get("frame").and_then(|x| x.as_str()) {
                        Some(Ev::Frame(unhex(h)))
                    } else if let Some(a) = e.get("frames_one_poll").and_then(|x| x.as_array()) {
                        Some(Ev::Frames(a.iter().filter_map(|h| h.as_str().map(unhex)).collect()))
                    } else if let Some(ms) = e.get("jump_ms").and_then(|x| x.as_i64()) {
                        Some(Ev::Jump(ms))
                    } else {
                        e.get("advance_ms").and_then(|x| x.as_i64()).map(Ev::Advance)
                    }
                })
                .collect()
        })
        .unwrap_or_default()
}

#[derive(Clone, Debug)]
struct Viol3 {
    sig: String,
    detail: String,
    /// panic location file:line (evidence only; signatures carry no line numbers)
    loc: String,
}

fn medium_sig(m: Medium) -> &'static str {
    medium_name(m)
}

fn outcome_viol(cfg: Cfg, o: &Outcome, ctx: &str) -> Option<Viol3> {
    match o {
        Outcome::Ok => None,
        Outcome::Panic { msg, site, loc } => Some(Viol3 {
            sig: format!("C03/panic/{}/{}/{}", medium_sig(cfg.medium), site, panic_tag(msg)),
            detail: format!("Interface::poll panicked {}: '{}' at {} [config {}]", ctx, msg, loc, cfg.name()),
            loc: loc.clone(),
        }),
        Outcome::Hang { detail } => Some(Viol3 {
            sig: format!("C03/hang/{}/device-loop", medium_sig(cfg.medium)),
            detail: format!("Interface::poll did not return {}: {} [config {}]", ctx, detail, cfg.name()),
            loc: String::new(),
        }),
    }
}

fn probe_viol(cfg: Cfg, p: &ProbeResult, ctx: &str) -> Option<Viol3> {
    if let Some(v) = outcome_viol(cfg, &p.outcome, &format!("while handling the trailing probe {}", ctx)) {
        return Some(v);
    }
    let mut dead = vec![];
    if p.v6 == Some(false) {
        dead.push("v6-echo");
    }
    if p.v4 == Some(false) {
        dead.push("v4-echo");
    }
    if p.frag == Some(false) {
        dead.push(if cfg.medium == Medium::Ieee802154 { "6lowpan-fragmented-echo" } else { "v4-fragmented-echo" });
    }
    if p.large == Some(false) {
        dead.push("6lowpan-large-echo(fragmented-reply)");
    }
    if dead.is_empty() {
        return None;
    }
    Some(Viol3 {
        sig: format!("C03/wedged/{}/{}", medium_sig(cfg.medium), dead.join("+")),
        detail: format!("no echo reply to the trailing probe {} [config {}]; probe log: {:?}", ctx, cfg.name(), p.log),
        loc: String::new(),
    })
}

/// Result of executing a complete event list on a FRESH world followed by the probe.
struct RunOut {
    viol: Option<Viol3>,
    fp: u128,
    log: Vec<String>,
    setup_err: Option<String>,
}

fn run_events(cfg: Cfg, evs: &[Ev], want_log: bool) -> RunOut {
    let mut log = vec![];
    let mut w = match World::new(cfg) {
        Ok(w) => w,
        Err(e) => {
            // not a C03 verdict: no frame has been received yet (callers turn it into a note /
            // machinery error)
            return RunOut { viol: None, fp: 0, log: vec![e.clone()], setup_err: Some(e) };
        }
    };
    for (i, ev) in evs.iter().enumerate() {
        let o = match ev {
            Ev::Frame(f) => w.inject(f),
            Ev::Frames(fs) => w.inject_many(fs),
            Ev::Advance(ms) => w.advance(*ms),
            Ev::Jump(ms) => {
                w.now_ms += *ms;
                Outcome::Ok
            }
        };
        let tx = w.take_tx();
        if want_log {
            let what = match ev {
                Ev::Frame(f) => format!("frame[{}] {}", f.len(), hex(f)),
                Ev::Advance(ms) => format!("advance {} ms", ms),
                Ev::Jump(ms) => format!("clock jumps {} ms without a poll", ms),
                Ev::Frames(fs) => format!("{} frames queued before one poll: {}", fs.len(), fs.iter().map(|f| hex(f)).collect::<Vec<_>>().join(" | ")),
            };
            log.push(format!("{:2}: t={}ms {} -> {:?} tx={:?}", i, w.now_ms, what, o, tx.iter().map(|f| pkt::classify(cfg.medium, f)).collect::<Vec<_>>()));
        }
        if let Some(v) = outcome_viol(cfg, &o, &format!("on event {} of {}", i + 1, evs.len())) {
            return RunOut { viol: Some(v), fp: 0, log, setup_err: None };
        }
    }
    let fp = w.fingerprint();
    if want_log {
        log.push(format!("interface addresses now: {:?}", w.iface.ip_addrs()));
    }
    let p = w.probe();
    if want_log {
        log.push(format!("probe: v6={:?} v4={:?} fragmented={:?} large={:?} outcome={:?} {:?}", p.v6, p.v4, p.frag, p.large, p.outcome, p.log));
        if !w.app_panics.is_empty() {
            log.push(format!("socket API panics in the application model: {:?}", w.app_panics));
        }
    }
    RunOut { viol: probe_viol(cfg, &p, &format!("after {} event(s)", evs.len())), fp, log, setup_err: None }
}

// ------------------------------------------------------------------------------------------
// wall-clock watchdog (for hangs that never touch the device)
// ------------------------------------------------------------------------------------------

struct WdSlot {
    since: Option<std::time::Instant>,
    cfg: Option<Cfg>,
    evs: Vec<Ev>,
}
const WD_SLOTS: usize = 80;
static WD: std::sync::OnceLock<Vec<Mutex<WdSlot>>> = std::sync::OnceLock::new();
static WD_STOP: AtomicBool = AtomicBool::new(false);

fn wd() -> &'static Vec<Mutex<WdSlot>> {
    WD.get_or_init(|| (0..WD_SLOTS).map(|_| Mutex::new(WdSlot { since: None, cfg: None, evs: vec![] })).collect())
}
fn wd_secs() -> f64 {
    // 2 s per poll is the design value; the default here is more generous so that a loaded
    // machine cannot produce a false "hang" (a real hang never ends, the margin costs nothing)
    std::env::var("VERIF_C03_HANG_S").ok().and_then(|s| s.parse().ok()).unwrap_or(20.0)
}
fn wd_slot() -> usize {
    rayon::current_thread_index().map(|i| i + 1).unwrap_or(0).min(WD_SLOTS - 1)
}
static WD_PAUSE: AtomicBool = AtomicBool::new(false);
fn wd_wait_if_paused() {
    // while the monitor re-runs a suspect evaluation alone, everybody else stays out of the way
    while WD_PAUSE.load(Ordering::Relaxed) {
        std::thread::sleep(std::time::Duration::from_millis(5));
    }
}
fn wd_begin(cfg: Cfg, evs: &[Ev]) {
    wd_wait_if_paused();
    let mut s = wd()[wd_slot()].lock().unwrap();
    s.since = Some(std::time::Instant::now());
    s.cfg = Some(cfg);
    s.evs.clear();
    s.evs.extend_from_slice(evs);
}
fn wd_begin_frame(cfg: Cfg, frame: &[u8]) {
    wd_wait_if_paused();
    let mut s = wd()[wd_slot()].lock().unwrap();
    s.since = Some(std::time::Instant::now());
    s.cfg = Some(cfg);
    s.evs.clear();
    s.evs.push(Ev::Frame(frame.to_vec()));
}
fn wd_end() {
    wd()[wd_slot()].lock().unwrap().since = None;
}

/// Every evaluation builds and drops a world (a few dozen small heap blocks). With glibc's
/// default settings each worker arena keeps growing/shrinking its heap through mprotect/madvise,
/// and 16 threads then serialise on the process' mmap lock. Keep freed memory instead.
#[cfg(not(target_env = "gnu"))]
fn tune_allocator() {}
#[cfg(target_env = "gnu")]
fn tune_allocator() {
    extern "C" {
        fn mallopt(param: i32, value: i32) -> i32;
    }
    const M_TRIM_THRESHOLD: i32 = -1;
    const M_TOP_PAD: i32 = -2;
    const M_MMAP_THRESHOLD: i32 = -3;
    unsafe {
        mallopt(M_TRIM_THRESHOLD, 512 << 20);
        mallopt(M_TOP_PAD, 16 << 20);
        mallopt(M_MMAP_THRESHOLD, 64 << 20);
    }
}

enum Msg {
    Done(Box<Explored>),
    Hang(Cfg, Vec<Ev>),
}

fn wd_monitor(tx: mpsc::Sender<Msg>) {
    let limit = wd_secs();
    loop {
        std::thread::sleep(std::time::Duration::from_millis(250));
        if WD_STOP.load(Ordering::Relaxed) {
            return;
        }
        let stuck: Option<(usize, Cfg, Vec<Ev>)> = wd().iter().enumerate().find_map(|(i, m)| {
            let s = m.lock().unwrap();
            match (s.since, s.cfg) {
                (Some(t), Some(c)) if t.elapsed().as_secs_f64() > limit => Some((i, c, s.evs.clone())),
                _ => None,
            }
        });
        if let Some((slot, cfg, evs)) = stuck {
            // confirm on a dedicated thread with a fresh world, all other workers quiesced,
            // before reporting
            WD_PAUSE.store(true, Ordering::Relaxed);
            std::thread::sleep(std::time::Duration::from_millis(500));
            let (ctx, crx) = mpsc::channel();
            let evs2 = evs.clone();
            std::thread::Builder::new()
                .stack_size(64 << 20)
                .spawn(move || {
                    let r = std::panic::catch_unwind(std::panic::AssertUnwindSafe(|| run_events(cfg, &evs2, false)));
                    let _ = ctx.send(r.is_ok());
                })
                .ok();
            // only a genuine timeout counts; a finished (or crashed) re-run is not a hang
            let timed_out = matches!(crx.recv_timeout(std::time::Duration::from_secs_f64(limit)), Err(mpsc::RecvTimeoutError::Timeout));
            WD_PAUSE.store(false, Ordering::Relaxed);
            if timed_out {
                let _ = tx.send(Msg::Hang(cfg, evs));
                return;
            }
            // it finished when run alone: the machine was just slow; restart this slot's timer
            let mut s = wd()[slot].lock().unwrap();
            if s.since.is_some() {
                s.since = Some(std::time::Instant::now());
            }
        }
    }
}

// ------------------------------------------------------------------------------------------
// single-frame pass
// ------------------------------------------------------------------------------------------

#[derive(Clone, Copy, Debug)]
enum Unit {
    /// the seed itself and every truncation of it
    Base(usize),
    /// every value (tier dependent) at one byte position, raw and with checksum fix-up
    Byte(usize, usize),
    /// every pair of boundary values at (p1, p2 > p1) for one p1 (thorough)
    Pair(usize, usize),
    /// all byte strings of length <= 2 with the given first byte (None: the empty and 1-byte ones)
    Raw(Option<u8>),
}

#[derive(Clone, Debug, PartialEq, Eq, PartialOrd, Ord)]
struct EffectKey {
    replies: Vec<String>,
    changed: u64,
}

#[derive(Default)]
struct UnitOut {
    injected: u64,
    changed: u64,
    replied: u64,
    with_fixup: u64,
    probes_run: u64,
    fingerprinted: u64,
    worlds_built: u64,
    max_dev_calls: usize,
    reply_classes: BTreeMap<String, u64>,
    /// (effect, seed index) -> first frame (enumeration order) with that effect
    effects: BTreeMap<(EffectKey, usize), Vec<u8>>,
    viols: Vec<(Viol3, Vec<Ev>)>,
    /// signature -> (number of injected frames with that verdict, panic locations)
    viol_stats: BTreeMap<String, (u64, BTreeSet<String>)>,
    machinery: Vec<String>,
    app_panics: BTreeSet<String>,
    seed_effect: Option<bool>,
}

struct Base {
    cfg: Cfg,
    fp: u128,
    comps: Vec<u64>,
    comp_names: Vec<String>,
    seeds: Vec<Seed>,
}

struct Evaluator<'a> {
    base: &'a Base,
    out: UnitOut,
}

impl<'a> Evaluator<'a> {
    fn new(base: &'a Base) -> Self {
        Evaluator { base, out: UnitOut::default() }
    }

    fn viol(&mut self, v: Viol3, evs: Vec<Ev>) {
        let e = self.out.viol_stats.entry(v.sig.clone()).or_default();
        e.0 += 1;
        if !v.loc.is_empty() {
            e.1.insert(v.loc.clone());
        }
        if !self.out.viols.iter().any(|(x, _)| x.sig == v.sig) {
            self.out.viols.push((v, evs));
        }
    }

    /// Inject one frame into a FRESH world in the base state S0 and apply the oracle: (1) poll
    /// returns, (2) the trailing probe is answered. With `want_fp` the resulting state is also
    /// fingerprinted (state-change statistics, BFS alphabet). Returns (changed, replies).
    fn frame(&mut self, seed_idx: usize, frame: &[u8], fixed: bool, want_fp: bool) -> (bool, usize) {
        let cfg = self.base.cfg;
        wd_begin_frame(cfg, frame);
        let mut w = match World::new(cfg) {
            Ok(w) => w,
            Err(e) => {
                self.out.machinery.push(format!("world set-up failed: {}", e));
                wd_end();
                return (false, 0);
            }
        };
        self.out.worlds_built += 1;
        self.out.injected += 1;
        if fixed {
            self.out.with_fixup += 1;
        }
        let o = w.inject(frame);
        self.out.max_dev_calls = self.out.max_dev_calls.max(w.dev.max_calls);
        let evs = || vec![Ev::Frame(frame.to_vec())];
        if let Some(v) = outcome_viol(cfg, &o, "on the injected frame") {
            self.viol(v, evs());
            wd_end();
            return (true, 0);
        }
        let tx = w.take_tx();
        let mut replies: Vec<String> = tx.iter().map(|f| pkt::classify(cfg.medium, f)).collect();
        for r in &replies {
            *self.out.reply_classes.entry(r.clone()).or_insert(0) += 1;
        }
        if !tx.is_empty() {
            self.out.replied += 1;
        }
        let mut changed = false;
        if want_fp {
            self.out.fingerprinted += 1;
            changed = w.fingerprint() != self.base.fp;
            if changed {
                self.out.changed += 1;
                let comps = w.components();
                let mut mask = 0u64;
                for (i, c) in comps.iter().enumerate() {
                    if self.base.comps.get(i) != Some(c) {
                        mask |= 1 << i.min(63);
                    }
                }
                replies.sort();
                replies.dedup();
                self.out.effects.entry((EffectKey { replies, changed: mask }, seed_idx)).or_insert_with(|| frame.to_vec());
            }
        }
        let p = w.probe();
        self.out.probes_run += 1;
        self.out.max_dev_calls = self.out.max_dev_calls.max(w.dev.max_calls);
        for a in &w.app_panics {
            self.out.app_panics.insert(a.clone());
        }
        if let Some(v) = probe_viol(cfg, &p, "after the injected frame") {
            self.viol(v, evs());
        }
        wd_end();
        (changed, tx.len())
    }
}

fn positions(seed: &Seed) -> Vec<usize> {
    let mut p: Vec<usize> = (0..seed.frame.len().min(HEAD)).collect();
    if let Some(h) = &seed.hot {
        for i in h.clone() {
            if i >= HEAD && i < seed.frame.len() {
                p.push(i);
            }
        }
    }
    p
}

fn fix(cfg: Cfg, seed: &Seed, f: &mut [u8]) -> bool {
    match cfg.medium {
        Medium::Ieee802154 => match &seed.l4 {
            Some(i) => pkt::fixup_l4info(i, f),
            None => false,
        },
        m => pkt::fixup(m, f),
    }
}

fn run_unit(base: &Base, tier: Tier, unit: Unit) -> UnitOut {
    // a panic in here is a harness bug (smoltcp is only ever entered under its own
    // catch_unwind in World): turn it into a machinery error instead of killing the run
    match std::panic::catch_unwind(std::panic::AssertUnwindSafe(|| run_unit_inner(base, tier, unit))) {
        Ok(o) => o,
        Err(e) => {
            wd_end();
            let mut o = UnitOut::default();
            o.machinery.push(format!("HARNESS PANIC in unit {:?}: {} at {}", unit, panic_msg(e), last_panic_loc()));
            o
        }
    }
}

fn run_unit_inner(base: &Base, tier: Tier, unit: Unit) -> UnitOut {
    let mut ev = Evaluator::new(base);
    let cfg = base.cfg;
    match unit {
        Unit::Base(si) => {
            let seed = &base.seeds[si];
            let (changed, replies) = ev.frame(si, &seed.frame, false, true);
            ev.out.seed_effect = Some(changed || replies > 0);
            for len in 0..if seed.mutate == 0 { 0 } else { seed.frame.len() } {
                ev.frame(si, &seed.frame[..len], false, true);
            }
        }
        Unit::Byte(si, pos) => {
            let seed = &base.seeds[si];
            let orig = seed.frame[pos];
            let vals: Vec<u8> = match tier {
                Tier::Thorough => (0..=255u8).collect(),
                Tier::Quick => {
                    let mut v: Vec<u8> = BOUNDARY.to_vec();
                    v.push(orig ^ 1);
                    v.sort();
                    v.dedup();
                    v
                }
            };
            let mut m = seed.frame.clone();
            for v in vals {
                if v == orig {
                    continue;
                }
                m.copy_from_slice(&seed.frame);
                m[pos] = v;
                ev.frame(si, &m, false, true);
                let mut f = m.clone();
                if fix(cfg, seed, &mut f) && f != m && f != seed.frame {
                    ev.frame(si, &f, true, true);
                }
            }
        }
        Unit::Pair(si, p1) => {
            let seed = &base.seeds[si];
            let n = seed.frame.len().min(PAIR_HEAD);
            let mut m = seed.frame.clone();
            for p2 in p1 + 1..n {
                for &v1 in &PAIR_VALUES {
                    if v1 == seed.frame[p1] {
                        continue;
                    }
                    for &v2 in &PAIR_VALUES {
                        if v2 == seed.frame[p2] {
                            continue;
                        }
                        m.copy_from_slice(&seed.frame);
                        m[p1] = v1;
                        m[p2] = v2;
                        let fixed = fix(cfg, seed, &mut m);
                        ev.frame(si, &m, fixed, false);
                    }
                }
            }
        }
        Unit::Raw(None) => {
            ev.frame(usize::MAX, &[], false, true);
            for b in 0..=255u8 {
                ev.frame(usize::MAX, &[b], false, true);
            }
        }
        Unit::Raw(Some(b0)) => {
            for b1 in 0..=255u8 {
                ev.frame(usize::MAX, &[b0, b1], false, false);
            }
        }
    }
    ev.out
}

#[derive(Default)]
struct CfgStats {
    name: String,
    seeds: u64,
    seeds_with_effect: u64,
    injected: u64,
    changed: u64,
    replied: u64,
    with_fixup: u64,
    probes_run: u64,
    fingerprinted: u64,
    worlds_built: u64,
    max_dev_calls: usize,
    reply_classes: BTreeMap<String, u64>,
    effect_classes: u64,
    bfs: Vec<(String, BfsStats)>,
    pinned: u64,
    scripts: u64,
    surprise: Vec<String>,
    units: u64,
}

struct Explored {
    stats: Vec<CfgStats>,
    viols: Vec<(Viol3, Cfg, Vec<Ev>)>,
    machinery: Vec<String>,
    samples: Vec<Value>,
    app_panics: BTreeSet<String>,
    exhaustive: bool,
    component_names: BTreeMap<String, Vec<String>>,
    notes: Vec<String>,
    viol_stats: BTreeMap<String, (u64, BTreeSet<String>)>,
}

/// Scout world: learn what the stack chose, build the catalogue, establish the base state and
/// its probe verdict.
fn prepare(cfg: Cfg, ex: &mut Explored) -> Option<Base> {
    let scout = match World::new(cfg) {
        Ok(w) => w,
        Err(e) => {
            ex.machinery.push(format!("[{}] world set-up failed: {}", cfg.name(), e));
            return None;
        }
    };
    let mut learned = scout.learned.clone();
    {
        // which ISS does the listening socket answer with when a SYN is the first frame after
        // the base state? (deterministic: same PRNG state in every fresh world)
        let (me, peer): (Vec<u8>, Vec<u8>) = if cfg.v6_peers() { (IFACE6.to_vec(), PEER6.to_vec()) } else { (IFACE4.to_vec(), PEER4.to_vec()) };
        let iss = World::new(cfg).ok().and_then(|mut w| {
            let f = World::wrap_ip(cfg.medium, &PEER_MAC, PEER_EXT, &seeds::edge_listen_syn(&me, &peer, seeds::EDGE_ISNS[0]));
            if !w.inject(&f).is_ok() {
                return None;
            }
            w.take_tx().iter().filter_map(|f| tx_l4(cfg.medium, f)).find(|v| v.proto == 6 && v.sport == P_LISTEN && v.body[13] & 0x12 == 0x12).map(|v| u32::from_be_bytes(v.body[4..8].try_into().unwrap()))
        });
        match iss {
            Some(i) => learned.listen_iss = i,
            None if cfg.addrs == 3 => {}
            None => ex.machinery.push(format!("[{}] could not learn the listening socket's ISS (no SYN-ACK to the edge SYN)", cfg.name())),
        }
    }
    let seeds = seeds::catalogue(cfg, &learned);
    let base = Base { cfg, fp: scout.fingerprint(), comps: scout.components(), comp_names: scout.component_names(), seeds };
    ex.component_names.insert(cfg.name(), base.comp_names.clone());
    drop(scout);
    // base state: determinism, poll fixpoint, and the probe must work before anything is injected
    let r1 = run_events(cfg, &[], true);
    let r2 = run_events(cfg, &[Ev::Advance(0)], false);
    if r1.fp != base.fp || r2.fp != base.fp {
        ex.machinery.push(format!("[{}] base state is not reproducible / not a poll fixpoint", cfg.name()));
    }
    if let Some(v) = r1.viol {
        ex.machinery.push(format!("[{}] the trailing probe fails on the untouched world: {} {:?}", cfg.name(), v.detail, r1.log));
        return None;
    }
    Some(base)
}

fn units_of(base: &Base, tier: Tier) -> Vec<Unit> {
    let mut units: Vec<Unit> = vec![];
    for (si, seed) in base.seeds.iter().enumerate() {
        units.push(Unit::Base(si));
        if seed.mutate < 2 {
            continue;
        }
        for pos in positions(seed) {
            units.push(Unit::Byte(si, pos));
        }
        // (pair mutants only in the fully addressed worlds: they are the bulk of the work)
        if tier == Tier::Thorough && base.cfg.addrs == 0 {
            for p1 in 0..seed.frame.len().min(PAIR_HEAD).saturating_sub(1) {
                units.push(Unit::Pair(si, p1));
            }
        }
    }
    units.push(Unit::Raw(None));
    for b0 in 0..=255u8 {
        if tier == Tier::Thorough || BOUNDARY.contains(&b0) {
            units.push(Unit::Raw(Some(b0)));
        }
    }
    units
}

/// Deterministic merge (in unit order) of the single-frame results of one configuration.
fn merge_cfg(base: &Base, units: &[Unit], outs: Vec<UnitOut>, ex: &mut Explored) -> (CfgStats, BTreeMap<(EffectKey, usize), Vec<u8>>) {
    let cfg = base.cfg;
    let mut st = CfgStats { name: cfg.name(), ..Default::default() };
    st.units = units.len() as u64;
    st.seeds = base.seeds.len() as u64;
    let mut effects: BTreeMap<(EffectKey, usize), Vec<u8>> = BTreeMap::new();
    let mut no_effect_seeds = vec![];
    let mut surprise_effect_seeds = vec![];
    for (u, o) in units.iter().zip(outs) {
        st.injected += o.injected;
        st.changed += o.changed;
        st.replied += o.replied;
        st.with_fixup += o.with_fixup;
        st.probes_run += o.probes_run;
        st.fingerprinted += o.fingerprinted;
        st.worlds_built += o.worlds_built;
        st.max_dev_calls = st.max_dev_calls.max(o.max_dev_calls);
        for (k, n) in o.reply_classes {
            *st.reply_classes.entry(k).or_insert(0) += n;
        }
        for (k, f) in o.effects {
            effects.entry(k).or_insert(f);
        }
        for (v, evs) in o.viols {
            if !ex.viols.iter().any(|(x, _, _)| x.sig == v.sig) {
                ex.viols.push((v, cfg, evs));
            }
        }
        for m in o.machinery {
            if ex.machinery.len() < 20 {
                ex.machinery.push(format!("[{}] {}", cfg.name(), m));
            }
        }
        ex.app_panics.extend(o.app_panics);
        for (sig, (n, locs)) in o.viol_stats {
            let e = ex.viol_stats.entry(sig).or_default();
            e.0 += n;
            e.1.extend(locs);
        }
        if let (Unit::Base(si), Some(e)) = (u, o.seed_effect) {
            if e {
                st.seeds_with_effect += 1;
                if !base.seeds[*si].expect_effect && !base.seeds[*si].name.contains("/icmp-cut/") && !base.seeds[*si].name.contains("/tcp-b/") {
                    surprise_effect_seeds.push(base.seeds[*si].name.clone());
                }
            } else if base.seeds[*si].expect_effect {
                no_effect_seeds.push(base.seeds[*si].name.clone());
            }
        }
    }
    if !no_effect_seeds.is_empty() {
        ex.machinery.push(format!("[{}] seeds expected to be processed had no observable effect (catalogue bug): {:?}", cfg.name(), no_effect_seeds));
    }
    st.surprise = surprise_effect_seeds;
    st.effect_classes = effects.len() as u64;
    // samples: a seed and a state-changing mutant
    if ex.samples.len() < 9 {
        let sd = &base.seeds[base.seeds.len() / 3];
        ex.samples.push(json!({"config": cfg.name(), "kind": "seed", "name": sd.name, "frame": hex(&sd.frame)}));
        if let Some(((k, si), f)) = effects.iter().find(|((_, si), f)| *si != usize::MAX && **f != base.seeds[*si].frame) {
            let changed: Vec<&String> = base.comp_names.iter().enumerate().filter(|(i, _)| k.changed >> i & 1 == 1).map(|(_, n)| n).collect();
            ex.samples.push(json!({"config": cfg.name(), "kind": "state-changing mutant", "of_seed": base.seeds[*si].name, "frame": hex(f),
                "replies": k.replies, "changed_components": changed}));
        }
    }
    (st, effects)
}

fn hist_events(frames: &[Vec<u8>], hist: &[u16]) -> Vec<Ev> {
    hist.iter()
        .map(|&c| {
            let c = c as usize;
            if c < frames.len() {
                Ev::Frame(frames[c].clone())
            } else {
                Ev::Advance(ADVANCES[c - frames.len()])
            }
        })
        .collect()
}

#[derive(Default)]
struct BfsStats {
    alphabet: u64,
    depth: usize,
    states: u64,
    transitions: u64,
    per_level: Vec<u64>,
    exhaustive: bool,
    note: String,
}

/// Level-synchronous BFS; a state is the event history that reaches it, replayed on a fresh
/// world (oracle (1) at every step, oracle (2) = probe at the end of every history).
fn bfs(cfg: Cfg, base_fp: u128, frames: &[Vec<u8>], depth: usize, budget_s: f64, ex: &mut Explored) -> BfsStats {
    let t0 = std::time::Instant::now();
    let n_ev = frames.len() + ADVANCES.len();
    let mut st = BfsStats { alphabet: n_ev as u64, exhaustive: true, ..Default::default() };
    let mut visited: HashSet<u128> = HashSet::new();
    visited.insert(base_fp);
    st.states = 1;
    st.per_level.push(1);
    let mut frontier: Vec<Vec<u16>> = vec![vec![]];
    let stop = AtomicBool::new(false);
    let harness_panics: Mutex<Vec<String>> = Mutex::new(vec![]);
    for d in 0..depth {
        if frontier.is_empty() {
            break;
        }
        let items: Vec<(usize, u16)> = (0..frontier.len()).flat_map(|i| (0..n_ev as u16).map(move |c| (i, c))).collect();
        let results: Vec<Option<(Vec<u16>, u128, Option<Viol3>)>> = items
            .par_iter()
            .map(|&(i, c)| {
                if stop.load(Ordering::Relaxed) {
                    return None;
                }
                if t0.elapsed().as_secs_f64() > budget_s {
                    stop.store(true, Ordering::Relaxed);
                    return None;
                }
                let mut h2 = frontier[i].clone();
                h2.push(c);
                let evs = hist_events(frames, &h2);
                wd_begin(cfg, &evs);
                let r = std::panic::catch_unwind(std::panic::AssertUnwindSafe(|| run_events(cfg, &evs, false)));
                wd_end();
                match r {
                    Ok(r) if r.setup_err.is_some() => {
                        harness_panics.lock().unwrap().push(format!("world set-up failed inside BFS: {:?}", r.setup_err));
                        None
                    }
                    Ok(r) => Some((h2, r.fp, r.viol)),
                    Err(e) => {
                        harness_panics.lock().unwrap().push(format!("HARNESS PANIC in BFS history {}: {} at {}", evs_to_json(&evs), panic_msg(e), last_panic_loc()));
                        None
                    }
                }
            })
            .collect();
        let capped = stop.load(Ordering::Relaxed);
        for m in harness_panics.lock().unwrap().drain(..) {
            if ex.machinery.len() < 20 {
                ex.machinery.push(format!("[{}] {}", cfg.name(), m));
            }
        }
        let mut next = vec![];
        for (hist, fp, viol) in results.into_iter().flatten() {
            st.transitions += 1;
            if let Some(v) = viol {
                if !ex.viols.iter().any(|(x, _, _)| x.sig == v.sig) {
                    ex.viols.push((v, cfg, hist_events(frames, &hist)));
                }
                continue;
            }
            if visited.insert(fp) {
                st.states += 1;
                next.push(hist);
            }
        }
        st.per_level.push(next.len() as u64);
        st.depth = d + 1;
        if capped {
            st.exhaustive = false;
            st.note = format!("time budget {:.0}s hit inside depth {} (level incomplete)", budget_s, d + 1);
            ex.exhaustive = false;
            break;
        }
        if d + 1 == depth && ex.samples.len() < 12 {
            if let Some(h) = next.iter().find(|h| h.iter().all(|&c| (c as usize) < frames.len())).or(next.last()) {
                ex.samples.push(json!({"config": cfg.name(), "kind": "deepest BFS history", "events": evs_to_json(&hist_events(frames, h))}));
            }
        }
        frontier = next;
    }
    st
}

fn all_cfgs() -> Vec<Cfg> {
    let mut v = vec![];
    for medium in [Medium::Ethernet, Medium::Ip, Medium::Ieee802154] {
        for variant in [0u8, 1, 2] {
            v.push(Cfg { medium, variant, join_154: false, addrs: 0 });
        }
        // the interface's address configuration is part of "any configuration": IPv4-only,
        // IPv6-only and unaddressed interfaces (802.15.4 is IPv6-only to begin with)
        for addrs in [1u8, 2, 3] {
            if medium == Medium::Ieee802154 && addrs != 3 {
                continue;
            }
            v.push(Cfg { medium, variant: 0, join_154: false, addrs });
        }
    }
    v
}

fn explore(tier: Tier) -> Explored {
    let mut ex = Explored {
        stats: vec![],
        viols: vec![],
        machinery: vec![],
        samples: vec![],
        app_panics: BTreeSet::new(),
        exhaustive: true,
        component_names: BTreeMap::new(),
        notes: vec![],
        viol_stats: BTreeMap::new(),
    };
    // 802.15.4 with a joined IPv6 group (the configuration DESIGN.md asks for): its very first
    // poll is evaluated on its own, with ZERO received frames. A panic there is not a C03
    // violation as worded (no frame was received): it is recorded as a note, and the frame
    // exploration of the 802.15.4 medium runs without the joined group.
    {
        let cfg = Cfg { medium: Medium::Ieee802154, variant: 0, join_154: true, addrs: 0 };
        let r = run_events(cfg, &[], false);
        if let Some(e) = r.setup_err {
            ex.notes.push(format!("[{}] outside C03 (no frame received): {}", cfg.name(), e));
        }
    }
    let mut cfgs = all_cfgs();
    if let Ok(only) = std::env::var("VERIF_C03_ONLY") {
        // debugging aid: restrict to one configuration (the result is then not exhaustive)
        cfgs.retain(|c| c.name() == only);
        ex.exhaustive = false;
    }
    let bases: Vec<Option<Base>> = cfgs.iter().map(|c| prepare(*c, &mut ex)).collect();
    if bases.iter().any(|b| b.is_none()) {
        ex.exhaustive = false;
    }
    // ---------------------------------------------------------------- single-frame pass
    let mut work: Vec<(usize, Unit)> = vec![];
    let mut per_cfg_units: Vec<Vec<Unit>> = vec![];
    for (ci, b) in bases.iter().enumerate() {
        let us = b.as_ref().map(|b| units_of(b, tier)).unwrap_or_default();
        work.extend(us.iter().map(|u| (ci, *u)));
        per_cfg_units.push(us);
    }
    let mut outs: Vec<Option<UnitOut>> = work.par_iter().map(|(ci, u)| Some(run_unit(bases[*ci].as_ref().unwrap(), tier, *u))).collect();
    let mut k = 0;
    let mut merged = vec![];
    for (ci, b) in bases.iter().enumerate() {
        let n = per_cfg_units[ci].len();
        let Some(base) = b else { continue };
        let mine: Vec<UnitOut> = outs[k..k + n].iter_mut().map(|o| o.take().unwrap()).collect();
        k += n;
        merged.push((ci, merge_cfg(base, &per_cfg_units[ci], mine, &mut ex)));
    }
    // ---------------------------------------------------------------- sequences (BFS)
    // coarse alphabet: one representative frame per distinct observable effect on S0 (set of
    // reply classes x set of interface/socket components whose image changed); fine alphabet
    // (thorough, depth 2): one per (effect, seed).
    let n = merged.len().max(1) as f64;
    let (coarse_depth, coarse_budget, fine_budget) = if tier == Tier::Quick { (2, 30.0 / n, 0.0) } else { (3, 300.0 / n, 150.0 / n) };
    for (ci, (mut st, effects)) in merged {
        let cfg = cfgs[ci];
        let base = bases[ci].as_ref().unwrap();
        let mut coarse: BTreeMap<EffectKey, Vec<u8>> = BTreeMap::new();
        for ((k, _), f) in &effects {
            coarse.entry(k.clone()).or_insert_with(|| f.clone());
        }
        // pinned seeds (lone fragments, TCP sequence-space edge handshakes and their follow-up
        // segments) are in the alphabet whatever their effect class; level 2 pins only where
        // the search depth is 2
        let with_pins = |mut frames: Vec<Vec<u8>>, max_pin: u8| -> Vec<Vec<u8>> {
            for sd in &base.seeds {
                if sd.pin != 0 && sd.pin <= max_pin && !frames.contains(&sd.frame) {
                    frames.push(sd.frame.clone());
                }
            }
            frames
        };
        let reps: Vec<Vec<u8>> = coarse.into_values().collect();
        st.pinned = base.seeds.iter().filter(|s| s.pin != 0).count() as u64;
        let frames = with_pins(reps, if coarse_depth == 2 { 2 } else { 1 });
        st.bfs.push(("coarse+pinned".into(), bfs(cfg, base.fp, &frames, coarse_depth, coarse_budget, &mut ex)));
        if tier == Tier::Thorough {
            // (the members of the systematic ICMP quotation-length family are represented in
            // the coarse alphabet by effect only, not one by one)
            let fine: Vec<Vec<u8>> = effects
                .iter()
                .filter(|((_, si), _)| *si == usize::MAX || !base.seeds[*si].name.contains("/icmp-cut/"))
                .map(|(_, f)| f.clone())
                .collect();
            let frames = with_pins(fine, 2);
            st.bfs.push(("fine+pinned".into(), bfs(cfg, base.fp, &frames, 2, fine_budget, &mut ex)));
        }
        // scripted sequences: every TCP edge handshake segment followed by every ordered pair
        // of its follow-up segments (handshake, then e.g. data crossing 2^31, then a
        // retransmission overlapping the left window edge)
        let mut scripts: Vec<Vec<Ev>> = vec![];
        for open in base.seeds.iter().filter(|s| s.name.contains("/tcp-b/") && s.name.ends_with("/open")) {
            let group = open.name.trim_end_matches("open");
            let follow: Vec<&Seed> = base.seeds.iter().filter(|s| s.name.starts_with(group) && !s.name.ends_with("/open")).collect();
            let sized: Vec<&Seed> = follow.iter().copied().filter(|s| s.name.contains("/w-")).collect();
            // window-relative data segments in consecutive polls WITHOUT any time advance (the
            // delayed ACK of the first is still pending when the next arrives), and queued
            // together before ONE poll (the application has not read in between either)
            for f1 in &sized {
                for f2 in &sized {
                    scripts.push(vec![Ev::Frames(vec![open.frame.clone(), f1.frame.clone(), f2.frame.clone()])]);
                    if cfg.addrs == 0 && (open.name.contains("/7fffff00/") || open.name.contains("/7fffffe0/")) {
                        for f3 in &sized {
                            let fr = |x: &Seed| Ev::Frame(x.frame.clone());
                            scripts.push(vec![fr(open), fr(f1), fr(f2), fr(f3)]);
                            scripts.push(vec![fr(open), Ev::Frames(vec![f1.frame.clone(), f2.frame.clone(), f3.frame.clone()])]);
                            scripts.push(vec![fr(open), fr(f1), Ev::Frames(vec![f2.frame.clone(), f3.frame.clone()])]);
                        }
                    }
                }
            }
            for f1 in &follow {
                for f2 in &follow {
                    scripts.push(vec![Ev::Frame(open.frame.clone()), Ev::Frame(f1.frame.clone()), Ev::Frame(f2.frame.clone())]);
                    scripts.push(vec![Ev::Frame(open.frame.clone()), Ev::Frames(vec![f1.frame.clone(), f2.frame.clone()])]);
                }
                // the peer goes silent after the handshake segment: its neighbor entry (60 s)
                // expires, our retransmission cannot be emitted, then the late segment arrives
                for gap in SILENCES {
                    let mut evs = vec![Ev::Frame(open.frame.clone())];
                    evs.extend(gap.iter().map(|ms| Ev::Advance(*ms)));
                    evs.push(Ev::Frame(f1.frame.clone()));
                    scripts.push(evs);
                }
                // the host sleeps with our SYN-ACK in flight; the late segment is the first
                // thing polled afterwards
                for j in JUMPS {
                    scripts.push(vec![Ev::Frame(open.frame.clone()), Ev::Jump(j), Ev::Frame(f1.frame.clone())]);
                }
            }
        }
        {
            // the same for the connection that is ESTABLISHED in the base state
            let sized: Vec<&Seed> = base.seeds.iter().filter(|s| s.name.contains("/tcp-w/est/")).collect();
            let fr = |x: &Seed| Ev::Frame(x.frame.clone());
            for f1 in &sized {
                for f2 in &sized {
                    scripts.push(vec![fr(f1), fr(f2)]);
                    scripts.push(vec![Ev::Frames(vec![f1.frame.clone(), f2.frame.clone()])]);
                    if cfg.addrs == 0 {
                        for f3 in &sized {
                            scripts.push(vec![fr(f1), fr(f2), fr(f3)]);
                            scripts.push(vec![Ev::Frames(vec![f1.frame.clone(), f2.frame.clone(), f3.frame.clone()])]);
                            scripts.push(vec![fr(f1), Ev::Frames(vec![f2.frame.clone(), f3.frame.clone()])]);
                        }
                    }
                }
            }
        }
        if cfg.variant == 2 {
            // FIN-WAIT-1 world: silence, then every segment for the closing connection
            for f in base.seeds.iter().filter(|s| s.name.contains("/tcp-est/")) {
                for gap in SILENCES {
                    let mut evs: Vec<Ev> = gap.iter().map(|ms| Ev::Advance(*ms)).collect();
                    evs.push(Ev::Frame(f.frame.clone()));
                    scripts.push(evs);
                }
                // the host sleeps with our FIN in flight
                for j in JUMPS {
                    scripts.push(vec![Ev::Jump(j), Ev::Frame(f.frame.clone())]);
                    scripts.push(vec![Ev::Jump(j), Ev::Frame(f.frame.clone()), Ev::Advance(1_000)]);
                }
            }
        }
        // frames whose reply needs egress fragmentation, delivered in consecutive polls (no
        // idle poll in between): every pair, triple and quadruple
        let big: Vec<&Seed> = base.seeds.iter().filter(|s| s.name.contains("big-reply/")).collect();
        for a in &big {
            for b in &big {
                scripts.push(vec![Ev::Frame(a.frame.clone()), Ev::Frame(b.frame.clone())]);
                for c in &big {
                    scripts.push(vec![Ev::Frame(a.frame.clone()), Ev::Frame(b.frame.clone()), Ev::Frame(c.frame.clone())]);
                    for d in &big {
                        scripts.push(vec![Ev::Frame(a.frame.clone()), Ev::Frame(b.frame.clone()), Ev::Frame(c.frame.clone()), Ev::Frame(d.frame.clone())]);
                    }
                }
            }
        }
        // the host sleeps (no poll) and then receives any seed frame: every timer, cache entry,
        // lease and reassembly slot is met at an instant far beyond its deadline by a FRAME,
        // not by an idle poll; also with the same frame before the sleep (state it created is
        // then 2^30 .. 2^40 ms old)
        for sd in &base.seeds {
            for j in JUMPS {
                scripts.push(vec![Ev::Jump(j), Ev::Frame(sd.frame.clone())]);
                scripts.push(vec![Ev::Frame(sd.frame.clone()), Ev::Jump(j), Ev::Frame(sd.frame.clone())]);
            }
        }
        st.scripts = scripts.len() as u64;
        let results: Vec<Result<Option<Viol3>, String>> = scripts
            .par_iter()
            .map(|evs| {
                wd_begin(cfg, evs);
                let r = std::panic::catch_unwind(std::panic::AssertUnwindSafe(|| run_events(cfg, evs, false)));
                wd_end();
                match r {
                    Ok(r) => Ok(r.viol),
                    Err(e) => Err(format!("HARNESS PANIC in script {}: {} at {}", evs_to_json(evs), panic_msg(e), last_panic_loc())),
                }
            })
            .collect();
        for (evs, r) in scripts.iter().zip(results) {
            match r {
                Ok(Some(v)) => {
                    if !ex.viols.iter().any(|(x, _, _)| x.sig == v.sig) {
                        ex.viols.push((v, cfg, evs.clone()));
                    }
                }
                Ok(None) => {}
                Err(m) => {
                    if ex.machinery.len() < 20 {
                        ex.machinery.push(format!("[{}] {}", cfg.name(), m));
                    }
                }
            }
        }
        ex.stats.push(st);
    }
    ex
}

// ------------------------------------------------------------------------------------------
// entry points
// ------------------------------------------------------------------------------------------

pub fn run(tier: Tier) -> i32 {
    let mut rep = Report::new("C03", tier);
    rep.assumptions.push("bounds: single-frame pass = every seed of the catalogue, every truncation, every single byte of the first 96 bytes (+ DHCP option area, NDISC/DNS message tails, whole 802.15.4 frames) set to the boundary set {0,1,7,8,0x0f,0x28,0x2f,0x3f,0x40,0x7f,0x80,0xf0,0xff,orig^1} (quick) or to all 256 values (thorough), each raw and with all locatable checksums recomputed; thorough adds every pair of positions in the first 40 bytes x every pair of values from {0,1,7,8,0x0f,0x3f,0x40,0x7f,0x80,0xf0,0xff} (checksums recomputed) and all byte strings of length <= 2 (quick: first byte from the boundary set); sequences = BFS to depth 2 (quick) / 3 (thorough) over one representative frame per distinct observable effect (reply classes x changed components) + time advances {0, 1 s, 61 s}; thorough additionally depth 2 over one representative per (effect, seed); lone-fragment seeds and the TCP sequence-space edge seeds (handshake segments placing RCV.NXT at 2^31-0x100, 2^31-0x20, 2^31-1, 2^31 and the same below 2^32, with their follow-up segments) are pinned into the alphabets, every handshake x follow-up x follow-up triple, and every handshake (or, in the variant C worlds, the application's close()) followed by a silence of 61 / 62 / 63 / 64 s and a late segment, or by a clock jump WITHOUT a poll of 2^30, 2^31-1, 2^31, 2^32-1, 2^32, 2^33 or 2^40 ms and a late segment, is run as a scripted sequence; every seed frame is also run after such a clock jump, alone and preceded by itself before the jump; ICMPv4/ICMPv6 error messages are seeded with their quotation cut to every length (outer lengths and checksums consistent); every TCP group (edge handshakes and the established connection) has data segments of 1, half a window, one window, window+1 and 2 windows at RCV.NXT and half a window beyond it, delivered as pairs / triples in consecutive polls without any time advance and queued together before one poll; datagrams to the two echo sockets come from source ports 0xf0b0, 0xf0bf, 0xf0c0, 0xf0ff, 0xf100, 0x1234 (inline and every admissible NHC port form); on 802.15.4 single frames whose reply needs 6LoWPAN fragmentation are pinned and all their pairs / triples / quadruples are delivered in consecutive polls; BFS levels are cut by a wall-clock budget only with exhaustive=false reported".into());
    rep.assumptions.push("world configurations: per medium A, B, C (see module header) and A with IPv4-only / IPv6-only / empty address list; the address-restricted worlds get the complete single-frame pass (thorough: without the pair mutants) and the same sequences; where a world has no address of a family the corresponding probe is not applicable (an unaddressed interface is only held to oracle (1))".into());
    rep.assumptions.push("every injected frame meets a FRESH world in the base state and is followed by the probe; pair mutants and 2-byte raw frames get oracle (1)+(2) only (they are not fingerprinted, so they do not count in 'changed state')".into());
    rep.assumptions.push("the two echo sockets' application sends every received datagram back to its sender after the poll that delivered it (it leaves in the next poll, at the latest the probe's first); otherwise the application model reads and discards received data after every poll and applies DHCP configuration events (IPv4 address, default route) like examples/dhcp_client.rs; trusted: harness frame builders, independent reply classifier".into());
    rep.assumptions.push("the 802.15.4 worlds used for frame exploration have no joined multicast group (joining one makes the very first poll panic before any frame is received: recorded under notes_outside_C03, not as a violation) and no IPv4; overflow-checks are ON in this profile, so arithmetic overflow on attacker-controlled lengths is observed as a panic".into());
    rep.assumptions.push(format!("hang detection: > {} device calls inside one poll (deterministic), or a single evaluation exceeding {} s wall clock twice (second time alone on a fresh world)", DEVICE_CALL_LIMIT, wd_secs()));

    if std::env::var("VERIF_C03_SELFTEST").as_deref() == Ok("hang") {
        // self-test of the deterministic hang detector
        let mut w = World::new(Cfg { medium: Medium::Ip, variant: 0, join_154: false, addrs: 0 }).unwrap();
        w.dev.spin = true;
        println!("selftest: {:?}", w.poll());
        return 0;
    }

    if std::env::var("VERIF_C03_SELFTEST").as_deref() == Ok("seeds") {
        // debugging aid: what every seed of the catalogue does to a fresh world
        for cfg in all_cfgs() {
            let scout = World::new(cfg).unwrap();
            for sd in seeds::catalogue(cfg, &scout.learned) {
                let r = run_events(cfg, &[Ev::Frame(sd.frame.clone())], true);
                println!("[{}] {} ({} B, expect_effect={})", cfg.name(), sd.name, sd.frame.len(), sd.expect_effect);
                for l in r.log {
                    println!("      {}", l.chars().take(260).collect::<String>());
                }
            }
        }
        return 0;
    }
    if std::env::var("VERIF_C03_SELFTEST").as_deref() == Ok("bench") {
        for cfg in all_cfgs() {
            let t = std::time::Instant::now();
            let n = 2000;
            for _ in 0..n {
                let _ = World::new(cfg);
            }
            let build = t.elapsed().as_secs_f64() / n as f64;
            let mut w = World::new(cfg).unwrap();
            let t = std::time::Instant::now();
            for _ in 0..n {
                let _ = w.fingerprint();
            }
            let fp = t.elapsed().as_secs_f64() / n as f64;
            let t = std::time::Instant::now();
            for _ in 0..n {
                let _ = w.iface.verif_digest();
            }
            println!("  digest {:.1} us", t.elapsed().as_secs_f64() / n as f64 * 1e6);
            let t = std::time::Instant::now();
            for _ in 0..n {
                let _ = format!("{:?}", w.sockets);
            }
            println!("  sockets fmt {:.1} us", t.elapsed().as_secs_f64() / n as f64 * 1e6);
            let sfmt = format!("{:?}", w.sockets);
            if std::env::var("VERIF_C03_DUMP").is_ok() {
                println!("{}", sfmt);
            }
            let t = std::time::Instant::now();
            for _ in 0..n {
                let _ = fp128(&sfmt);
            }
            println!("  fp128 {:.1} us", t.elapsed().as_secs_f64() / n as f64 * 1e6);
            let t = std::time::Instant::now();
            for _ in 0..n {
                let _ = w.inject(&[0u8; 60]);
            }
            let inj = t.elapsed().as_secs_f64() / n as f64;
            let t = std::time::Instant::now();
            for _ in 0..n {
                let _ = w.probe();
            }
            let pr = t.elapsed().as_secs_f64() / n as f64;
            println!("{}: build {:.1} us, fingerprint {:.1} us (digest {} B, sockets {} B), inject {:.1} us, probe {:.1} us", cfg.name(), build * 1e6, fp * 1e6,
                w.iface.verif_digest().len(), format!("{:?}", w.sockets).len(), inj * 1e6, pr * 1e6);
        }
        return 0;
    }
    tune_allocator();
    let (tx, rx) = mpsc::channel::<Msg>();
    WD_STOP.store(false, Ordering::Relaxed);
    let tx2 = tx.clone();
    std::thread::spawn(move || wd_monitor(tx2));
    std::thread::Builder::new()
        .stack_size(64 << 20)
        .spawn(move || {
            let ex = explore(tier);
            let _ = tx.send(Msg::Done(Box::new(ex)));
        })
        .expect("spawn explorer");
    let msg = rx.recv().expect("explorer died");
    WD_STOP.store(true, Ordering::Relaxed);
    let ex = match msg {
        Msg::Done(ex) => *ex,
        Msg::Hang(cfg, evs) => {
            rep.violation(
                format!("C03/hang/{}/wall-clock", medium_name(cfg.medium)),
                format!("an evaluation did not finish within {} s, neither inside the exploration nor alone on a fresh world [config {}]", wd_secs(), cfg.name()),
                json!({"cfg": cfg.to_json(), "events": evs_to_json(&evs)}),
            );
            rep.and_exhaustive(false);
            rep.cov("note", json!("exploration aborted by the wall-clock watchdog; counts are not available"));
            return rep.finish();
        }
    };
    for (v, cfg, evs) in &ex.viols {
        rep.violation(v.sig.clone(), v.detail.clone(), json!({"cfg": cfg.to_json(), "events": evs_to_json(evs), "sig": v.sig}));
    }
    for m in &ex.machinery {
        rep.machinery_errors.push(m.clone());
    }
    let mut per_cfg = serde_json::Map::new();
    let mut per_medium: BTreeMap<String, BTreeMap<&'static str, u64>> = BTreeMap::new();
    let (mut states, mut transitions, mut injected, mut nontrivial, mut validated) = (0u64, 0u64, 0u64, 0u64, 0u64);
    for s in &ex.stats {
        per_cfg.insert(
            s.name.clone(),
            json!({
                "seeds": s.seeds, "seeds_with_observable_effect": s.seeds_with_effect, "work_units": s.units,
                "mutants_injected": s.injected, "mutants_with_checksum_fixup": s.with_fixup,
                "mutants_that_changed_state": s.changed, "mutants_that_elicited_a_reply": s.replied,
                "distinct_reply_classes": s.reply_classes.len(), "reply_classes": s.reply_classes,
                "distinct_effects_on_base_state(seed x replies x changed components)": s.effect_classes,
                "probes_run": s.probes_run, "mutants_fingerprinted": s.fingerprinted,
                "worlds_built": s.worlds_built, "max_device_calls_in_one_poll": s.max_dev_calls,
                "seeds_not_expected_to_have_an_effect_that_had_one": s.surprise,
                "seeds_pinned_into_bfs_alphabets": s.pinned, "scripted_sequences(tcp edge triples, handshake/close + silence + late segment)": s.scripts,
                "bfs": s.bfs.iter().map(|(n, b)| json!({"alphabet": n, "events(frames+advances)": b.alphabet, "depth": b.depth, "states": b.states,
                        "transitions": b.transitions, "new_states_per_level": b.per_level, "exhaustive": b.exhaustive, "note": b.note})).collect::<Vec<_>>(),
            }),
        );
        let m = per_medium.entry(s.name.split('/').next().unwrap_or("").to_string()).or_default();
        *m.entry("seeds").or_insert(0) += s.seeds;
        *m.entry("mutants_injected").or_insert(0) += s.injected;
        *m.entry("mutants_that_changed_state").or_insert(0) += s.changed;
        *m.entry("mutants_that_elicited_a_reply").or_insert(0) += s.replied;
        let bfs_states: u64 = s.bfs.iter().map(|(_, b)| b.states).sum();
        let bfs_transitions: u64 = s.bfs.iter().map(|(_, b)| b.transitions).sum::<u64>() + s.scripts;
        *m.entry("bfs_states").or_insert(0) += bfs_states;
        *m.entry("bfs_transitions").or_insert(0) += bfs_transitions;
        states += bfs_states + s.changed;
        transitions += bfs_transitions + s.injected;
        injected += s.injected;
        nontrivial += s.changed + s.replied;
        validated += s.probes_run + bfs_transitions;
    }
    rep.add_count("states", states);
    rep.add_count("transitions", transitions);
    rep.add_count("evaluations", injected);
    rep.add_count("distinct_nontrivial", nontrivial);
    rep.add_count("traces_validated_against_impl", validated);
    rep.and_exhaustive(ex.exhaustive);
    rep.cov("rule", json!("per (medium, config): every mutant of every seed injected into the base state of a real Interface (poll under catch_unwind + device call counter), fingerprint compared, trailing ARP/NS + echo probe; then BFS over sequences of effect-representative frames and time advances, every history replayed on a fresh world and probed. states = state-changing mutants + BFS states; transitions = injected frames + BFS transitions; distinct_nontrivial = mutants that changed state or elicited a reply"));
    rep.cov("per_config", Value::Object(per_cfg));
    rep.cov("per_medium", json!(per_medium));
    rep.cov("fingerprint_components", json!(ex.component_names));
    rep.cov(
        "single_frame_verdicts_per_signature",
        json!(ex.viol_stats.iter().map(|(k, (n, l))| (k.clone(), json!({"frames": n, "panic_locations": l}))).collect::<BTreeMap<_, _>>()),
    );
    if !ex.notes.is_empty() {
        rep.cov("notes_outside_C03", json!(ex.notes));
    }
    if !ex.app_panics.is_empty() {
        rep.cov("socket_api_panics_in_application_model(not C03)", json!(ex.app_panics));
    }
    rep.samples = ex.samples;
    rep.finish()
}

pub fn replay(art: &Value) -> i32 {
    let r = &art["replay"];
    let Some(cfg) = Cfg::from_json(&r["cfg"]) else {
        eprintln!("MACHINERY ERROR: artefact has no cfg");
        return 2;
    };
    let evs = evs_from_json(&r["events"]);
    println!("config {} ; {} event(s)", cfg.name(), evs.len());
    let (tx, rx) = mpsc::channel();
    let evs2 = evs.clone();
    std::thread::Builder::new()
        .stack_size(64 << 20)
        .spawn(move || {
            let out = run_events(cfg, &evs2, true);
            let _ = tx.send(out);
        })
        .expect("spawn");
    match rx.recv_timeout(std::time::Duration::from_secs_f64(wd_secs() * 2.0)) {
        Err(_) => {
            println!("violation: C03/hang/{}/wall-clock :: replay did not finish", medium_name(cfg.medium));
            1
        }
        Ok(out) => {
            for l in &out.log {
                println!("{}", l);
            }
            match out.viol {
                Some(v) => {
                    println!("violation: {} :: {}", v.sig, v.detail);
                    1
                }
                None => {
                    if let Some(e) = out.setup_err {
                        eprintln!("MACHINERY ERROR: {}", e);
                        return 2;
                    }
                    println!("no violation on replay");
                    0
                }
            }
        }
    }
}
