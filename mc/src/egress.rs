//! C10 — "Every transmitted frame is well-formed, fits the MTU and has a legal source".
//!
//! Oracle: `egress/mon.rs`, an independent (no `smoltcp::wire`) validator applied to EVERY buffer
//! handed to `TxToken::consume` in a designated scenario suite executed on real interfaces:
//!  (a) `egress/tcpx.rs`: the two-endpoint TCP harness, all executions with <= k deviations, raw
//!      IP and Ethernet, IPv4 and IPv6, MTU in {protocol minimum, +1, 576/1280, 1500};
//!  (b) `egress/scen.rs` on `egress/rig.rs`: single-interface scenarios on all three media
//!      (UDP / ICMP / TCP / ARP / NDISC / SLAAC / MLD / IGMP / DHCP / DNS / raw sockets), the full
//!      product medium x MTU x checksum capability set x scenario x IP version x variant; the
//!      device pre-fills transmit buffers with 0xA5 / 0x5A so that bytes smoltcp does not write
//!      show; 802.15.4 rigs with an extended and with a short hardware address; histories that
//!      change the address list (DHCP renewal that changes the lease, scenario `renumbering`:
//!      the application replaces / removes the address in the middle of a TCP active open, an
//!      established connection, datagrams waiting for neighbor resolution, a fragment train, a
//!      DNS query) judged against the address list at the moment of transmission; the
//!      the socket option hop limit {1, 2, 63, 64, 65, 254, 255} on UDP / ICMP / DNS / TCP
//!      sockets and in raw packets (on 802.15.4 the decompressed hop limit must be the option);
//!      application model "echo with the received metadata" (examples/server.rs) on UDP sockets
//!      for unicast / broadcast / multicast destinations (own signatures
//!      `C10/source/udp-echo-of-received-metadata/<kind of destination>`);
//!  (c) `egress/cat.rs`: the replies to the C03 seed / mutant catalogue on the many-socket worlds;
//!  (d) `egress/bfsx.rs`: breadth-first exploration of event sequences (sends, inbound requests,
//!      timers, neighbor answers, a device that takes one frame per event) on one interface.
//! A panic inside `Interface::poll` in (a), (b) or (d) is reported as `C10/panic/<site>` (no inbound
//! garbage is involved there: the poll dies while producing frames for well-formed traffic).

mod bfsx;
mod c03;
mod cat;
pub mod mon;
mod rig;
mod scen;
mod tcpx;

use crate::core::*;
use crate::sim::hex;
use rayon::prelude::*;
use rig::*;
use serde_json::{json, Value};
use smoltcp::phy::Medium;
use std::collections::{BTreeMap, BTreeSet};
use tcpx::Agg;

// ------------------------------------------------------------------------------------------
// part (b) runner
// ------------------------------------------------------------------------------------------

#[derive(Clone, Copy, Debug)]
struct Job {
    medium: Medium,
    ip_mtu: usize,
    caps: usize,
    scen: usize,
    v6: bool,
    variant: usize,
    /// transmit buffer pre-fill
    poison: u8,
    /// 802.15.4: interface with a short hardware address
    short_hw: bool,
}
impl Job {
    fn to_json(&self, name: &str) -> Value {
        json!({"part": "iface", "scenario": name, "medium": medium_name(self.medium), "ip_mtu": self.ip_mtu, "caps": self.caps, "v6": self.v6, "variant": self.variant, "tx_prefill": self.poison, "short_hw": self.short_hw})
    }
}

#[derive(Default)]
struct JobOut {
    agg: Agg,
    polls: u64,
    frames: u64,
    pending_trains: u64,
    abandoned_trains: u64,
    raw_frames: u64,
    lenient_fragments: u64,
    findings: Vec<(String, String)>,
    machinery: Option<String>,
    /// digest of everything emitted (determinism re-check)
    digest: u128,
    /// first clean frame of every shape, with the context it was validated in (self-test input)
    clean: BTreeMap<String, (Vec<u8>, mon::Ctx)>,
}

/// IPv4 scenarios: {68 (RFC 791 minimum), 69, 576, 1500}; IPv6: {1280 (RFC 8200 minimum), 1281, 1500};
/// IEEE 802.15.4: device MTU 125 and 127
fn mtus(medium: Medium, v6: bool) -> &'static [usize] {
    match (medium, v6) {
        (Medium::Ieee802154, _) => &[125, 127],
        (_, false) => &[68, 69, 576, 1500],
        (_, true) => &[1280, 1281, 1500],
    }
}

fn jobs() -> Vec<Job> {
    let sc = scen::scenarios();
    let mut v = vec![];
    for medium in [Medium::Ethernet, Medium::Ip, Medium::Ieee802154] {
        for v6 in [false, true] {
            for &ip_mtu in mtus(medium, v6) {
                for caps in 0..CAP_NAMES.len() {
                    for (si, s) in sc.iter().enumerate() {
                        for variant in 0..s.variants {
                            if (s.setup)(medium, v6, variant).is_some() {
                                v.push(Job { medium, ip_mtu, caps, scen: si, v6, variant, poison: POISON, short_hw: false });
                                // 802.15.4: the same with a SHORT hardware address (other MAC header
                                // lengths: 9 octets towards the link broadcast address, 15 towards a
                                // neighbor); the complementary pre-fill with the default capabilities
                                if medium == Medium::Ieee802154 {
                                    v.push(Job { medium, ip_mtu, caps, scen: si, v6, variant, poison: POISON, short_hw: true });
                                    if caps == 0 {
                                        v.push(Job { medium, ip_mtu, caps, scen: si, v6, variant, poison: POISON2, short_hw: true });
                                    }
                                }
                                // the complementary pre-fill: everywhere on 802.15.4 (IPHC, NHC and
                                // the MAC header are written by read-modify-write setters), on
                                // the other media with the default and the all-tx-off capabilities
                                if medium == Medium::Ieee802154 || caps == 0 || caps == 6 {
                                    v.push(Job { medium, ip_mtu, caps, scen: si, v6, variant, poison: POISON2, short_hw: false });
                                }
                            }
                        }
                    }
                }
            }
        }
    }
    v
}

fn run_job(j: &Job, trace: bool) -> (JobOut, Vec<String>) {
    let sc = scen::scenarios();
    let s = &sc[j.scen];
    let mut out = JobOut::default();
    let Some(tw) = (s.setup)(j.medium, j.v6, j.variant) else {
        return (out, vec![]);
    };
    let cfg = RigCfg { medium: j.medium, ip_mtu: j.ip_mtu, caps: j.caps, slaac: tw.slaac, v4_addr: tw.v4, ll_addr: tw.ll, ula_addr: tw.ula, poison: j.poison, short_hw: j.short_hw, ll_from_short: tw.ll_from_short && j.short_hw };
    let r = std::panic::catch_unwind(std::panic::AssertUnwindSafe(|| {
        let mut rig = Rig::new(cfg);
        rig.keep_trace = trace;
        (s.run)(&mut rig, j.v6, j.variant);
        // leftovers (fragments still queued, delayed ACKs)
        rig.settle();
        rig
    }));
    let rig = match r {
        Ok(r) => r,
        Err(e) => {
            // smoltcp is only entered under the rig's own catch_unwind, except for socket API
            // calls and Interface::new: tell the two apart by the panic location
            let loc = last_panic_loc();
            let msg = panic_msg(e);
            if loc.starts_with("/repo/") {
                out.findings.push((format!("C10/panic/{}", panic_site()), format!("scenario {} on {}: panic outside poll: {} at {}", s.name, cfg.name(), msg, loc)));
            } else {
                out.machinery = Some(format!("HARNESS PANIC in scenario {} {:?}: {} at {}", s.name, j, msg, loc));
            }
            return (out, vec![]);
        }
    };
    let mut dig = String::new();
    for rec in &rig.log {
        out.agg.record(&rec.frame, &rec.verdict);
        out.frames += 1;
        if rec.raw {
            out.raw_frames += 1;
        }
        dig.push_str(&hex(&rec.frame));
        dig.push('|');
        if j.caps == 0 && rec.verdict.findings.is_empty() && rec.verdict.undecodable.is_none() && !out.clean.contains_key(&rec.verdict.shape) {
            out.clean.insert(rec.verdict.shape.clone(), (rec.frame.clone(), rec.ctx.clone()));
        }
        for f in &rec.verdict.findings {
            let sig = match (&rec.source_tag, f.clause) {
                (Some(t), "source") => format!("C10/source/{}", t),
                _ => f.sig(),
            };
            out.findings.push((
                sig,
                format!(
                    "scenario {} (v{}, variant {}) on {}: {} | t={}us frame[{}] {} ({}){}",
                    s.name,
                    if j.v6 { 6 } else { 4 },
                    j.variant,
                    cfg.name(),
                    f.detail,
                    rec.t_us,
                    rec.frame.len(),
                    hex(&rec.frame),
                    rec.verdict.shape,
                    if rec.raw { " [raw socket]" } else { "" }
                ),
            ));
        }
    }
    for (sig, detail) in &rig.extra_findings {
        out.findings.push((sig.clone(), format!("scenario {} (v{}, variant {}) on {}: {}", s.name, if j.v6 { 6 } else { 4 }, j.variant, cfg.name(), detail)));
    }
    for (site, msg, loc) in &rig.panics {
        out.findings.push((format!("C10/panic/{}", site), format!("scenario {} (v{}, variant {}) on {}: Interface::poll panicked while emitting: {} at {}", s.name, if j.v6 { 6 } else { 4 }, j.variant, cfg.name(), msg, loc)));
    }
    for h in &rig.hangs {
        out.findings.push(("C10/hang/device-loop".into(), format!("scenario {} on {}: {}", s.name, cfg.name(), h)));
    }
    out.lenient_fragments = rig.later_fragments_from_a_removed_address;
    out.polls = rig.polls;
    out.pending_trains = rig.mon.pending() as u64;
    out.abandoned_trains = rig.mon.abandoned;
    out.digest = fp128(&dig);
    (out, rig.trace)
}

// ------------------------------------------------------------------------------------------
// run
// ------------------------------------------------------------------------------------------

fn agg_json(a: &Agg) -> Value {
    json!({
        "frames_validated": a.frames,
        "distinct_frame_shapes": a.shapes.len(),
        "largest_frame": a.max_frame,
        "per_protocol_class": a.per_class,
        "datagrams_reassembled_and_validated": a.completed,
        "not_decodable": a.undecodable,
    })
}

pub fn run(tier: Tier) -> i32 {
    let mut rep = Report::new("C10", tier);
    let mut all = Agg::default();
    let mut shapes_total: BTreeSet<String> = BTreeSet::new();
    // where each signature was seen (scenario / seed), so that one signature hiding several
    // causes is visible in the evidence
    let mut origins: BTreeMap<String, BTreeSet<String>> = BTreeMap::new();

    // ---------------------------------------------------------------- (b) interface scenarios
    let t0 = std::time::Instant::now();
    let js = jobs();
    let outs: Vec<(JobOut, Vec<String>)> = js.par_iter().map(|j| run_job(j, false)).collect();
    let sc = scen::scenarios();
    let mut per_medium: BTreeMap<String, Agg> = BTreeMap::new();
    let mut per_mtu: BTreeMap<String, u64> = BTreeMap::new();
    let mut per_caps: BTreeMap<String, u64> = BTreeMap::new();
    let mut per_scen: BTreeMap<String, (u64, u64)> = BTreeMap::new();
    let mut b_total = Agg::default();
    let (mut polls, mut pending, mut abandoned, mut raw_frames) = (0u64, 0u64, 0u64, 0u64);
    let mut lenient_fragments = 0u64;
    let mut silent_jobs = vec![];
    for (j, (o, _)) in js.iter().zip(outs.iter()) {
        let name = sc[j.scen].name;
        if let Some(m) = &o.machinery {
            rep.machinery_errors.push(m.clone());
        }
        for (sig, detail) in &o.findings {
            rep.violation(sig.clone(), detail.clone(), j.to_json(name));
            origins.entry(sig.clone()).or_default().insert(format!("scenario {}/v{}/variant{}/{}", name, if j.v6 { 6 } else { 4 }, j.variant, medium_name(j.medium)));
        }
        per_medium.entry(medium_name(j.medium).into()).or_default().merge(&o.agg);
        *per_mtu.entry(format!("{}/ip-mtu-{}", medium_name(j.medium), j.ip_mtu)).or_insert(0) += o.frames;
        *per_caps.entry(CAP_NAMES[j.caps].into()).or_insert(0) += o.frames;
        let e = per_scen.entry(format!("{}/v{}", name, if j.v6 { 6 } else { 4 })).or_insert((0, 0));
        e.0 += 1;
        e.1 += o.frames;
        if o.frames == 0 && j.caps == 0 {
            silent_jobs.push(format!("{}/v{}/variant{}/{}/mtu{}", name, if j.v6 { 6 } else { 4 }, j.variant, medium_name(j.medium), j.ip_mtu));
        }
        b_total.merge(&o.agg);
        polls += o.polls;
        pending += o.pending_trains;
        abandoned += o.abandoned_trains;
        raw_frames += o.raw_frames;
        lenient_fragments += o.lenient_fragments;
    }
    // monitor self-test: the validator must not be blind. Every single-bit-pattern mutant of the
    // first 128 octets of one clean frame per shape is validated by a fresh monitor; evidence
    // only (a mutant can be a different but equally valid frame: ports, sequence numbers, hop
    // limits, link addresses, fragments whose upper layer is only checked after reassembly).
    {
        let mut clean: BTreeMap<String, (Vec<u8>, mon::Ctx)> = BTreeMap::new();
        for (o, _) in outs.iter() {
            for (k, v) in &o.clean {
                clean.entry(k.clone()).or_insert_with(|| v.clone());
            }
        }
        let items: Vec<(&String, &(Vec<u8>, mon::Ctx))> = clean.iter().collect();
        let res: Vec<(String, u64, u64)> = items
            .par_iter()
            .map(|(shape, (frame, ctx))| {
                let (mut n, mut hit) = (0u64, 0u64);
                let mut m = frame.clone();
                for pos in 0..frame.len().min(128) {
                    for x in [0x01u8, 0x10, 0x80, 0xff] {
                        m.copy_from_slice(frame);
                        m[pos] ^= x;
                        n += 1;
                        if !mon::Monitor::new().validate(&m, ctx).findings.is_empty() {
                            hit += 1;
                        }
                    }
                }
                let class = shape.split('|').next().unwrap_or("").split('/').take(3).collect::<Vec<_>>().join("/");
                (class, n, hit)
            })
            .collect();
        let mut per: BTreeMap<String, (u64, u64)> = BTreeMap::new();
        let (mut n, mut hit) = (0u64, 0u64);
        for (c, a, b) in res {
            let e = per.entry(c).or_insert((0, 0));
            e.0 += a;
            e.1 += b;
            n += a;
            hit += b;
        }
        rep.cov(
            "monitor_self_test",
            json!({"rule": "one clean frame per distinct shape (default capabilities); each of the first 128 octets XORed with 01, 10, 80, ff; a fresh monitor validates the mutant", "clean_frames": clean.len(), "mutants": n, "mutants_flagged": hit,
                "per_class(mutants,flagged)": per.iter().map(|(k, v)| (k.clone(), json!([v.0, v.1]))).collect::<BTreeMap<_, _>>()}),
        );
    }
    // determinism: every 8th job is executed again and must emit byte-identical frames
    let recheck: Vec<usize> = (0..js.len()).filter(|i| i % 8 == 0).collect();
    let again: Vec<u128> = recheck.par_iter().map(|&i| run_job(&js[i], false).0.digest).collect();
    let mut validated = 0u64;
    for (&i, d) in recheck.iter().zip(again) {
        if d != outs[i].0.digest {
            rep.machinery_errors.push(format!("NONDETERMINISM: job {:?} emitted different frames on re-execution", js[i]));
        } else {
            validated += 1;
        }
    }
    eprintln!("egress (b): {} scenario runs, {} frames, wall {:.1}s", js.len(), b_total.frames, t0.elapsed().as_secs_f64());
    rep.add_count("states", js.len() as u64);
    rep.add_count("transitions", polls);
    rep.add_count("traces_validated_against_impl", validated);
    rep.add_count("evaluations", b_total.frames);
    shapes_total.extend(b_total.shapes.iter().cloned());
    all.merge(&b_total);
    rep.cov(
        "part_b_interface_scenarios",
        json!({
            "scenario_runs": js.len(),
            "polls": polls,
            "total": agg_json(&b_total),
            "per_medium": per_medium.iter().map(|(k, v)| (k.clone(), agg_json(v))).collect::<BTreeMap<_, _>>(),
            "frames_per_medium_and_mtu": per_mtu,
            "frames_per_checksum_capability_set": per_caps,
            "per_scenario(runs,frames)": per_scen.iter().map(|(k, v)| (k.clone(), json!([v.0, v.1]))).collect::<BTreeMap<_, _>>(),
            "frames_tagged_raw_socket(exempt_from_source_rule_only)": raw_frames,
            "later_ipv4_fragments_sent_from_an_address_removed_after_the_first_fragment_left(lenient reading: not reported)": lenient_fragments,
            "fragment_trains_incomplete_at_end_of_scenario": pending,
            "fragment_trains_restarted": abandoned,
            "runs_without_any_frame(default caps)": silent_jobs,
            "capability_sets": CAP_NAMES,
            "tx_buffer_prefill": "0xA5 in every run; additionally 0x5A (complement) in every 802.15.4 run and in the default / all-tx-off runs of the other media",
        }),
    );
    for (shape, fr) in b_total.sample.iter() {
        rep.samples.push(json!({"part": "iface", "classification": shape, "frame": fr}));
    }

    // ---------------------------------------------------------------- (a) tcp2
    let lim = Limits { max_states: 50_000_000, max_wall_s: if tier == Tier::Quick { 60.0 } else { 900.0 } };
    let mut tcp_parts = BTreeMap::new();
    for (cfg, k) in tcpx::configs(tier) {
        let mut samples = vec![];
        let mut found = vec![];
        let t0 = std::time::Instant::now();
        match devbound::<tcpx::TcpEg>("egress-tcp2", &cfg, k, 4000, &lim, &mut found, &mut samples) {
            Ok(st) => {
                eprintln!("egress tcp2 cfg={} k<={} runs={} wall={:.1}s", cfg.name, k, st.runs, t0.elapsed().as_secs_f64());
                rep.absorb(&format!("tcp2 cfg={} k<={}", cfg.name, k), &st);
                let complete = st.outcomes.iter().filter(|(o, _)| o.starts_with("CLOSED-CLOSED")).map(|(_, n)| *n).sum::<u64>();
                tcp_parts.insert(cfg.name.to_string(), json!({"runs": st.runs, "runs_completed_both_closed": complete, "k": k}));
            }
            Err(e) => rep.machinery_errors.push(format!("egress tcp2 {}: {}", cfg.name, e)),
        }
        for f in found {
            if f.viol.sig.starts_with("MACHINERY") {
                rep.machinery_errors.push(format!("{}: {}", f.viol.sig, f.viol.detail));
            } else if f.viol.sig.starts_with("panic/") {
                rep.violation(format!("C10/{}", f.viol.sig), f.viol.detail.clone(), f.replay.clone());
            } else {
                rep.found.push(f);
            }
        }
    }
    let tcp_agg = std::mem::take(&mut *tcpx::TCP_AGG.lock().unwrap());
    let mut a_total = Agg::default();
    let mut per_cfg = BTreeMap::new();
    for (name, a) in &tcp_agg {
        a_total.merge(a);
        let mut o = agg_json(a);
        if let Some(p) = tcp_parts.get(name) {
            o["exploration"] = p.clone();
        }
        per_cfg.insert(name.clone(), o);
    }
    shapes_total.extend(a_total.shapes.iter().cloned());
    rep.add_count("evaluations", a_total.frames);
    all.merge(&a_total);
    rep.cov("part_a_tcp2", json!({"total": agg_json(&a_total), "per_configuration": per_cfg}));
    for (shape, fr) in a_total.sample.iter().take(2) {
        rep.samples.push(json!({"part": "tcp2", "classification": shape, "frame": fr}));
    }

    // ---------------------------------------------------------------- (d) event sequences (BFS)
    let lim = Limits { max_states: 20_000_000, max_wall_s: if tier == Tier::Quick { 30.0 } else { 600.0 } };
    for (cfg, depth) in bfsx::configs(tier) {
        let mut samples = vec![];
        let mut found = vec![];
        let t0 = std::time::Instant::now();
        match bfs::<bfsx::EgBfs>("egress-seq", &cfg, depth, &lim, &mut found, &mut samples) {
            Ok(st) => {
                eprintln!("egress seq cfg={} depth<={} states={} transitions={} wall={:.1}s", cfg.name, depth, st.states, st.transitions, t0.elapsed().as_secs_f64());
                rep.absorb(&format!("event sequences cfg={} depth<={}", cfg.name, depth), &st);
                if rep.samples.len() < 9 {
                    rep.samples.extend(samples.into_iter().take(1));
                }
            }
            Err(e) => rep.machinery_errors.push(format!("egress seq {}: {}", cfg.name, e)),
        }
        for f in found {
            if f.viol.sig.starts_with("MACHINERY") {
                rep.machinery_errors.push(format!("{}: {}", f.viol.sig, f.viol.detail));
            } else if f.viol.sig.starts_with("panic/") {
                rep.violation(format!("C10/{}", f.viol.sig), f.viol.detail.clone(), f.replay.clone());
            } else {
                rep.found.push(f);
            }
        }
    }
    {
        let g = std::mem::take(&mut *bfsx::BFS_AGG.lock().unwrap());
        let mut d_total = Agg::default();
        let mut per_cfg = BTreeMap::new();
        let mut validations = 0u64;
        for (name, a) in &g {
            d_total.merge(&a.agg);
            validations += a.validations;
            let mut o = agg_json(&a.agg);
            o["frame_validations_including_replays_of_prefixes"] = json!(a.validations);
            per_cfg.insert(name.clone(), o);
        }
        shapes_total.extend(d_total.shapes.iter().cloned());
        rep.add_count("evaluations", validations);
        all.merge(&d_total);
        rep.cov(
            "part_d_event_sequences",
            json!({"alphabet": "Tick, +1.1s, udp small / big (fragments) / multicast / big multicast (fragments), icmp echo out, inbound big echo request, inbound udp to closed port, inbound SYN to closed port, dns query, join/leave group, neighbor answer, slow-device toggle (one frame per event)",
                "note": "frames_validated counts DISTINCT frames here (the BFS re-executes prefixes)", "total": agg_json(&d_total), "per_configuration": per_cfg}),
        );
    }

    // ---------------------------------------------------------------- (c) C03 catalogue replies
    let t0 = std::time::Instant::now();
    let cat = cat::run(tier);
    let mut c_total = Agg::default();
    let mut per_world = BTreeMap::new();
    for (name, o) in &cat {
        for m in &o.machinery {
            rep.machinery_errors.push(m.clone());
        }
        for (sig, (n, detail, replay)) in &o.findings {
            let seeds: Vec<&String> = o.finding_seeds.get(sig).map(|s| s.iter().collect()).unwrap_or_default();
            origins.entry(sig.clone()).or_default().insert(format!("catalogue world {}: {} frames, mutants of seeds {:?}", name, n, seeds));
            rep.violation(sig.clone(), format!("{} [{} emitted frames with this verdict in world {}]", detail, n, name), replay.clone());
        }
        c_total.merge(&o.agg);
        rep.add_count("states", o.replied);
        rep.add_count("transitions", o.injected);
        let mut j = agg_json(&o.agg);
        j["seeds"] = json!(o.seeds);
        j["units"] = json!(o.units);
        j["frames_injected"] = json!(o.injected);
        j["injections_with_checksum_fixup"] = json!(o.with_fixup);
        j["injections_that_elicited_frames"] = json!(o.replied);
        j["polls_that_panicked_or_hung(C03's verdict, not reported here)"] = json!(o.polls_that_panicked);
        j["fragment_trains_incomplete"] = json!(o.pending_trains);
        per_world.insert(name.clone(), j);
    }
    eprintln!("egress (c): {} reply frames validated, wall {:.1}s", c_total.frames, t0.elapsed().as_secs_f64());
    shapes_total.extend(c_total.shapes.iter().cloned());
    rep.add_count("evaluations", c_total.frames);
    all.merge(&c_total);
    rep.cov("part_c_replies_to_C03_catalogue", json!({"total": agg_json(&c_total), "per_world": per_world}));
    for (shape, fr) in c_total.sample.iter().take(2) {
        rep.samples.push(json!({"part": "catalogue", "classification": shape, "frame": fr}));
    }

    for f in &rep.found {
        origins.entry(f.viol.sig.clone()).or_default();
    }
    rep.cov("where_each_signature_was_seen", json!(origins));
    rep.add_count("distinct_nontrivial", shapes_total.len() as u64);
    rep.cov("frames_validated_total", json!(all.frames));
    rep.cov("distinct_frame_shapes_total", json!(shapes_total.len()));
    rep.cov("frames_per_protocol_class_total", json!(all.per_class));
    rep.cov(
        "rule",
        json!("every buffer passed to TxToken::consume in (a) all tcp2 executions with <= k deviations per configuration, (b) the full product medium x MTU x checksum-capability set x scenario x IP version x variant of scripted single-interface scenarios, (c) one fresh many-socket world per seed / truncation / single-byte mutant of the C03 catalogue, (d) every event sequence up to the BFS depth on 6 interface configurations, is validated by the independent EgressMonitor. states = scenario runs + distinct tcp2 states + distinct BFS states + injections that elicited frames; transitions = polls + tcp2 events + BFS transitions + injected frames; evaluations = frames validated; distinct_nontrivial = distinct frame shapes (protocol class + length class + flags/options)"),
    );
    rep.assumptions.push("MTU sets: IPv4 {68, 69, 576, 1500}, IPv6 {1280, 1281, 1500} (IP MTU; Ethernet device MTU = IP MTU + 14), IEEE 802.15.4 device MTU {125, 127} and, whatever the device reports, never more than 125 octets per frame (127 of the PHY minus the FCS the device appends; signature mtu/ieee802154/frame-exceeds-125-octets), each with an extended and with a short interface hardware address; IPv6 scenarios are not run below 1280 (outside the quantified domain)".into());
    rep.assumptions.push("checksum capability sets: default, each of ipv4/udp/tcp/icmpv4/icmpv6 with tx off (Checksum::Rx) one at a time, all five tx off, all five rx off (Checksum::Tx), all five off both ways (Checksum::None); a checksum is only asserted when smoltcp is the one computing it; IGMP has no capability and is always asserted".into());
    rep.assumptions.push("transmit buffers are pre-filled with 0xA5, and with the complement 0x5A in every 802.15.4 run and the default / all-tx-off runs of the other media; own addresses at emission time = union of Interface::ip_addrs() before and after the poll that emitted the frame; frames whose (src, dst, protocol) equals a packet the harness pushed through a raw socket are exempt from the source rule only; later fragments of an IPv4 datagram are judged against the addresses owned when its first fragment left (lenient reading, counted in the evidence), every other frame - retransmissions included - against the list at its own transmission".into());
    rep.assumptions.push("tcp2: k<=2 (quick) / k<=3 (thorough) deviations (drop / duplicate / reorder / timer-first / reader stall); event sequences: BFS over 14 events to depth 3-4 (quick) / 5-6 (thorough), see the parts list; catalogue: seeds + truncations + boundary-value (quick) / all-value (thorough) single-byte mutants of the first 64 (quick) / 96 (thorough) octets, raw and with checksum fix-up; panics on received garbage in part (c) are C03's verdict and only counted here".into());
    rep.assumptions.push("trusted: the independent parser (egress/mon.rs), the RFC 1071 reference sum, the stimulus builders of the C03 harness".into());
    rep.finish()
}

// ------------------------------------------------------------------------------------------
// replay
// ------------------------------------------------------------------------------------------

pub fn replay(art: &Value) -> i32 {
    let r = &art["replay"];
    if r["harness"].as_str() == Some("egress-tcp2") {
        let cfgs = r["config"].as_str().unwrap_or("");
        return match tcpx::cfg_by_debug(cfgs) {
            Some(c) => replay_artifact::<tcpx::TcpEg>(&c, art),
            None => {
                eprintln!("unknown tcp2 configuration in artefact");
                2
            }
        };
    }
    if r["harness"].as_str() == Some("egress-seq") {
        let cfgs = r["config"].as_str().unwrap_or("");
        let Some(c) = bfsx::cfg_by_debug(cfgs) else {
            eprintln!("unknown sequence configuration in artefact");
            return 2;
        };
        let choices: Vec<u16> = r["choices"].as_array().map(|a| a.iter().map(|x| x.as_u64().unwrap_or(0) as u16).collect()).unwrap_or_default();
        let mut h = <bfsx::EgBfs as Harness>::new(&c);
        h.set_trace();
        let mut viols = vec![];
        for (i, &ch) in choices.iter().enumerate() {
            let en = h.enabled();
            if ch as usize >= en.len() {
                eprintln!("MACHINERY ERROR: replay divergence at step {}", i);
                return 2;
            }
            let ev = en[ch as usize].0.clone();
            println!("--- step {} {:?}", i, ev);
            h.apply(&ev, &mut viols);
            for l in h.trace() {
                println!("    {}", l);
            }
        }
        let mut seen = BTreeSet::new();
        for v in &viols {
            if seen.insert(v.sig.clone()) {
                println!("violation: {} :: {}", v.sig, v.detail);
            }
        }
        if seen.is_empty() {
            println!("no violation on replay");
            return 0;
        }
        return 1;
    }
    match r["part"].as_str() {
        Some("catalogue") => cat::replay(art),
        Some("iface") => {
            let sc = scen::scenarios();
            let name = r["scenario"].as_str().unwrap_or("");
            let Some(si) = sc.iter().position(|s| s.name == name) else {
                eprintln!("unknown scenario {}", name);
                return 2;
            };
            let Some(medium) = medium_from(r["medium"].as_str().unwrap_or("")) else {
                eprintln!("unknown medium");
                return 2;
            };
            let j = Job {
                medium,
                ip_mtu: r["ip_mtu"].as_u64().unwrap_or(1500) as usize,
                caps: (r["caps"].as_u64().unwrap_or(0) as usize).min(CAP_NAMES.len() - 1),
                scen: si,
                v6: r["v6"].as_bool().unwrap_or(false),
                variant: r["variant"].as_u64().unwrap_or(0) as usize,
                poison: r["tx_prefill"].as_u64().unwrap_or(POISON as u64) as u8,
                short_hw: r["short_hw"].as_bool().unwrap_or(false),
            };
            println!("scenario {} v{} variant {} on {}/ip-mtu {}/{}/tx buffers pre-filled with {:#04x}", name, if j.v6 { 6 } else { 4 }, j.variant, medium_name(medium), j.ip_mtu, CAP_NAMES[j.caps], j.poison);
            if j.short_hw {
                println!("the interface has the short hardware address ab01");
            }
            let (o, trace) = run_job(&j, true);
            for l in trace {
                println!("  {}", l);
            }
            if let Some(m) = o.machinery {
                eprintln!("MACHINERY ERROR: {}", m);
                return 2;
            }
            let want = art["signature"].as_str().unwrap_or("");
            let mut seen = BTreeSet::new();
            for (s, d) in &o.findings {
                if seen.insert(s.clone()) {
                    println!("violation: {}{} :: {}", s, if s == want { " (the recorded signature)" } else { "" }, d);
                }
            }
            if seen.is_empty() {
                println!("no violation on replay");
                0
            } else {
                1
            }
        }
        _ => {
            eprintln!("artefact has no known replay part");
            2
        }
    }
}
