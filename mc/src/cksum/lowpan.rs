//! Part (b), Medium::Ieee802154: two REAL smoltcp interfaces talk to each other over an in-memory
//! 802.15.4 link; every frame either of them emits passes through an INDEPENDENT decoder
//! (802.15.4 header, RFC 4944 FRAG1/FRAGN reassembly, RFC 6282 IPHC + UDP NHC decompression;
//! no smoltcp::wire) and the upper-layer checksum of every reassembled datagram is verified with
//! the independent verifier of `wirex.rs`. The second interface only generates realistic
//! stimuli (neighbor discovery, echo requests, TCP handshakes); it is not the oracle.

use super::wirex::*;
use super::world::*;
use crate::core::*;
use rayon::prelude::*;
use serde_json::{json, Value};
use smoltcp::iface::{Config, Interface, SocketHandle, SocketSet};
use smoltcp::phy::Medium;
use smoltcp::socket::{icmp, tcp, udp};
use smoltcp::time::Instant;
use smoltcp::wire::{HardwareAddress, Ieee802154Address, Ieee802154Pan, IpCidr, IpEndpoint};
use std::collections::{BTreeMap, VecDeque};

// ------------------------------------------------------------------ independent decoder

pub struct Frame154 {
    pub src_ll: Vec<u8>,
    pub dst_ll: Vec<u8>,
    pub payload: Vec<u8>,
}

pub fn parse_154(f: &[u8]) -> Result<Frame154, String> {
    if f.len() < 3 {
        return Err("802.15.4 frame shorter than 3 bytes".into());
    }
    let fcf = u16::from_le_bytes([f[0], f[1]]);
    if fcf & 7 != 1 {
        return Err(format!("802.15.4 frame type {} (not data)", fcf & 7));
    }
    if fcf & (1 << 3) != 0 {
        return Err("802.15.4 security enabled".into());
    }
    let panid_comp = fcf & (1 << 6) != 0;
    let dam = (fcf >> 10) & 3;
    let sam = (fcf >> 14) & 3;
    let mut o = 3usize;
    let mut take = |n: usize| -> Result<Vec<u8>, String> {
        let s = f.get(o..o + n).ok_or("802.15.4 header truncated")?;
        o += n;
        let mut v = s.to_vec();
        v.reverse(); // little endian on air
        Ok(v)
    };
    let mut dst_ll = vec![];
    match dam {
        0 => {}
        2 => {
            take(2)?;
            dst_ll = take(2)?;
        }
        3 => {
            take(2)?;
            dst_ll = take(8)?;
        }
        _ => return Err("reserved dst addressing mode".into()),
    }
    let mut src_ll = vec![];
    match sam {
        0 => {}
        2 | 3 => {
            if !(panid_comp && dam != 0) {
                take(2)?;
            }
            src_ll = take(if sam == 2 { 2 } else { 8 })?;
        }
        _ => return Err("reserved src addressing mode".into()),
    }
    Ok(Frame154 { src_ll, dst_ll, payload: f[o..].to_vec() })
}

fn iid_from_ll(ll: &[u8]) -> Option<[u8; 8]> {
    match ll.len() {
        8 => {
            let mut i = [0u8; 8];
            i.copy_from_slice(ll);
            i[0] ^= 0x02;
            Some(i)
        }
        2 => Some([0, 0, 0, 0xff, 0xfe, 0, ll[0], ll[1]]),
        _ => None,
    }
}

/// decompressed headers (IPv6 header, plus the 8-byte UDP header when LOWPAN_NHC UDP is used);
/// length fields are filled in by the caller once the datagram size is known
pub struct Dec {
    pub hdr: Vec<u8>,
    pub consumed: usize,
    pub udp_nhc: bool,
    pub udp_ck_elided: bool,
}

pub fn iphc(p: &[u8], ll_src: &[u8], ll_dst: &[u8]) -> Result<Dec, String> {
    if p.len() < 2 {
        return Err("6LoWPAN payload shorter than 2 bytes".into());
    }
    if p[0] >> 5 != 0b011 {
        return Err(format!("dispatch {:02x} is not IPHC", p[0]));
    }
    let tf = (p[0] >> 3) & 3;
    let nh_c = (p[0] >> 2) & 1;
    let hlim = p[0] & 3;
    let cid = p[1] >> 7;
    let sac = (p[1] >> 6) & 1;
    let sam = (p[1] >> 4) & 3;
    let m = (p[1] >> 3) & 1;
    let dac = (p[1] >> 2) & 1;
    let dam = p[1] & 3;
    if cid == 1 {
        return Err("unsupported: IPHC context identifier extension".into());
    }
    let mut o = 2usize;
    let mut hdr = vec![0u8; 40];
    hdr[0] = 0x60;
    // traffic class / flow label are not covered by any checksum: skipped, left zero
    o += match tf {
        0 => 4,
        1 => 3,
        2 => 1,
        _ => 0,
    };
    let get = |o: &mut usize, n: usize| -> Result<&[u8], String> {
        let s = p.get(*o..*o + n).ok_or("IPHC truncated")?;
        *o += n;
        Ok(s)
    };
    let mut next = None;
    if nh_c == 0 {
        next = Some(get(&mut o, 1)?[0]);
    }
    hdr[7] = match hlim {
        0 => get(&mut o, 1)?[0],
        1 => 1,
        2 => 64,
        _ => 255,
    };
    let ll_prefix = |iid: &[u8]| -> [u8; 16] {
        let mut a = [0u8; 16];
        a[0] = 0xfe;
        a[1] = 0x80;
        a[8..].copy_from_slice(iid);
        a
    };
    let unicast = |o: &mut usize, ac: u8, am: u8, ll: &[u8]| -> Result<[u8; 16], String> {
        if ac == 1 {
            if am == 0 {
                return Ok([0u8; 16]);
            }
            return Err("unsupported: IPHC context-based address".into());
        }
        Ok(match am {
            0 => {
                let mut a = [0u8; 16];
                a.copy_from_slice(get(o, 16)?);
                a
            }
            1 => ll_prefix(get(o, 8)?),
            2 => {
                let s = get(o, 2)?;
                ll_prefix(&[0, 0, 0, 0xff, 0xfe, 0, s[0], s[1]])
            }
            _ => ll_prefix(&iid_from_ll(ll).ok_or("IPHC elided address without link-layer address")?),
        })
    };
    let src = unicast(&mut o, sac, sam, ll_src)?;
    let dst = if m == 0 {
        unicast(&mut o, dac, dam, ll_dst)?
    } else {
        if dac == 1 {
            return Err("unsupported: IPHC context-based multicast".into());
        }
        let mut a = [0u8; 16];
        a[0] = 0xff;
        match dam {
            0 => a.copy_from_slice(get(&mut o, 16)?),
            1 => {
                let s = get(&mut o, 6)?;
                a[1] = s[0];
                a[11..16].copy_from_slice(&s[1..6]);
            }
            2 => {
                let s = get(&mut o, 4)?;
                a[1] = s[0];
                a[13..16].copy_from_slice(&s[1..4]);
            }
            _ => {
                a[1] = 0x02;
                a[15] = get(&mut o, 1)?[0];
            }
        }
        a
    };
    hdr[8..24].copy_from_slice(&src);
    hdr[24..40].copy_from_slice(&dst);
    let mut udp_nhc = false;
    let mut udp_ck_elided = false;
    match next {
        Some(nh) => hdr[6] = nh,
        None => {
            let b = get(&mut o, 1)?[0];
            if b >> 3 != 0b11110 {
                return Err(format!("unsupported: LOWPAN_NHC {:02x}", b));
            }
            hdr[6] = 17;
            udp_nhc = true;
            udp_ck_elided = b & 4 != 0;
            let (sp, dp): (u16, u16) = match b & 3 {
                0 => {
                    let s = get(&mut o, 4)?;
                    (get16(&s[0..2]), get16(&s[2..4]))
                }
                1 => {
                    let s = get(&mut o, 3)?;
                    (get16(&s[0..2]), 0xf000 | s[2] as u16)
                }
                2 => {
                    let s = get(&mut o, 3)?;
                    (0xf000 | s[0] as u16, get16(&s[1..3]))
                }
                _ => {
                    let s = get(&mut o, 1)?;
                    (0xf0b0 | (s[0] >> 4) as u16, 0xf0b0 | (s[0] & 0xf) as u16)
                }
            };
            let mut u = [0u8; 8];
            u[0..2].copy_from_slice(&sp.to_be_bytes());
            u[2..4].copy_from_slice(&dp.to_be_bytes());
            if !udp_ck_elided {
                let s = get(&mut o, 2)?;
                u[6] = s[0];
                u[7] = s[1];
            }
            hdr.extend_from_slice(&u);
        }
    }
    Ok(Dec { hdr, consumed: o, udp_nhc, udp_ck_elided })
}

fn finish_lengths(d: &mut [u8], udp_nhc: bool) {
    let pl = (d.len() - 40) as u16;
    d[4..6].copy_from_slice(&pl.to_be_bytes());
    if udp_nhc && d.len() >= 48 {
        d[44..46].copy_from_slice(&pl.to_be_bytes());
    }
}

struct Partial {
    buf: Vec<u8>,
    have: Vec<(usize, usize)>,
    udp_nhc: bool,
    ck_elided: bool,
    got_first: bool,
    nfrag: usize,
}

pub struct Datagram {
    pub bytes: Vec<u8>,
    pub fragments: usize,
    pub udp_ck_elided: bool,
}

#[derive(Default)]
pub struct Reasm {
    parts: BTreeMap<(Vec<u8>, Vec<u8>, u16, usize), Partial>,
}
impl Reasm {
    /// feed one 802.15.4 frame; Ok(Some(datagram)) when a datagram is complete
    pub fn feed(&mut self, frame: &[u8]) -> Result<Option<Datagram>, String> {
        let f = parse_154(frame)?;
        let p = &f.payload;
        let d = *p.first().ok_or("802.15.4 frame without payload")?;
        let is1 = d >> 3 == 0b11000;
        let isn = d >> 3 == 0b11100;
        if !is1 && !isn {
            let dec = iphc(p, &f.src_ll, &f.dst_ll)?;
            let mut bytes = dec.hdr.clone();
            bytes.extend_from_slice(&p[dec.consumed..]);
            finish_lengths(&mut bytes, dec.udp_nhc);
            return Ok(Some(Datagram { bytes, fragments: 1, udp_ck_elided: dec.udp_ck_elided }));
        }
        if p.len() < 4 {
            return Err("fragment header truncated".into());
        }
        let size = (((p[0] & 7) as usize) << 8) | p[1] as usize;
        let tag = get16(&p[2..4]);
        if size < 40 {
            return Err("fragment datagram_size < 40".into());
        }
        let key = (f.src_ll.clone(), f.dst_ll.clone(), tag, size);
        let part = self.parts.entry(key.clone()).or_insert_with(|| Partial { buf: vec![0u8; size], have: vec![], udp_nhc: false, ck_elided: false, got_first: false, nfrag: 0 });
        part.nfrag += 1;
        let (off, data): (usize, Vec<u8>) = if is1 {
            let dec = iphc(&p[4..], &f.src_ll, &f.dst_ll)?;
            part.udp_nhc = dec.udp_nhc;
            part.ck_elided = dec.udp_ck_elided;
            part.got_first = true;
            let mut v = dec.hdr.clone();
            v.extend_from_slice(&p[4 + dec.consumed..]);
            (0, v)
        } else {
            if p.len() < 5 {
                return Err("FRAGN header truncated".into());
            }
            (p[4] as usize * 8, p[5..].to_vec())
        };
        if off + data.len() > size {
            return Err(format!("fragment [{}..{}) exceeds datagram_size {}", off, off + data.len(), size));
        }
        if part.have.iter().any(|&(a, b)| off < b && a < off + data.len()) {
            return Err("overlapping fragments".into());
        }
        part.buf[off..off + data.len()].copy_from_slice(&data);
        part.have.push((off, off + data.len()));
        let covered: usize = part.have.iter().map(|&(a, b)| b - a).sum();
        if covered == size && part.got_first {
            let part = self.parts.remove(&key).unwrap();
            let mut bytes = part.buf;
            finish_lengths(&mut bytes, part.udp_nhc);
            return Ok(Some(Datagram { bytes, fragments: part.nfrag, udp_ck_elided: part.ck_elided }));
        }
        Ok(None)
    }
    pub fn pending(&self) -> usize {
        self.parts.len()
    }
}

// ------------------------------------------------------------------ two real interfaces

pub const MY_LL: [u8; 8] = [2, 0, 0, 0, 0, 0, 0, 1]; // IID ::1  -> fe80::1 = MY6
pub const PEER_LL: [u8; 8] = [2, 0, 0, 0, 0, 0, 0, 2]; // fe80::2 = PEER6
pub const MY6G: [u8; 16] = [0xfd, 0, 0, 0, 0, 0, 0, 0, 0, 0, 0, 0, 0, 0, 0x12, 0x34];
pub const PEER6G: [u8; 16] = [0xfd, 0, 0, 0, 0, 0, 0, 0, 0, 0, 0, 0, 0, 0, 0x56, 0x78];
const LBUF: usize = 1500;

/// Address pairs (node A, node B). 0: fe80::/64 with the IID derived from the hardware address
/// (both halves elidable in IPHC); 1: fd00::/64 (carried in line); 2..4: link-local-LOOKING
/// addresses with a non-zero bit among bits 10..63, which stateless IPHC cannot compress
/// losslessly (RFC 6282 3.2.2 elides the fe80::/64 prefix only): 2: fe80:0:0:1::/64 with derived
/// IID, 3: fe80:1::/64 with an IID not derived from the hardware address, 4: febf::/64 derived.
pub fn addr_pair(mode: u8) -> ([u8; 16], [u8; 16]) {
    let mk = |p: [u8; 8], iid: [u8; 8]| {
        let mut a = [0u8; 16];
        a[..8].copy_from_slice(&p);
        a[8..].copy_from_slice(&iid);
        a
    };
    let (i1, i2) = ([0, 0, 0, 0, 0, 0, 0, 1], [0, 0, 0, 0, 0, 0, 0, 2]);
    match mode {
        0 => (MY6, PEER6),
        1 => (MY6G, PEER6G),
        2 => (mk([0xfe, 0x80, 0, 0, 0, 0, 0, 1], i1), mk([0xfe, 0x80, 0, 0, 0, 0, 0, 1], i2)),
        3 => (mk([0xfe, 0x80, 0, 1, 0, 0, 0, 0], [0, 0, 0, 0, 0, 0, 0x12, 0x34]), mk([0xfe, 0x80, 0, 1, 0, 0, 0, 0], [0, 0, 0, 0, 0, 0, 0x56, 0x78])),
        _ => (mk([0xfe, 0xbf, 0, 0, 0, 0, 0, 0], i1), mk([0xfe, 0xbf, 0, 0, 0, 0, 0, 0], i2)),
    }
}
pub fn addr_name(mode: u8) -> &'static str {
    match mode {
        0 => "fe80::/64, IID from hw address",
        1 => "fd00::/64",
        2 => "fe80:0:0:1::/64, IID from hw address",
        3 => "fe80:1::/64, IID not from hw address",
        _ => "febf::/64, IID from hw address",
    }
}
/// addresses configured on node `which` (0 = A, 1 = B)
fn node_addrs(mode: u8, which: usize) -> Vec<[u8; 16]> {
    if mode <= 1 {
        // as before: both the fe80::/64 and the fd00::/64 address
        return if which == 0 { vec![MY6, MY6G] } else { vec![PEER6, PEER6G] };
    }
    let (a, b) = addr_pair(mode);
    vec![if which == 0 { a } else { b }]
}

pub struct Node {
    pub dev: Dev,
    pub iface: Interface,
    pub sockets: SocketSet<'static>,
    pub udp: SocketHandle,
    pub icmp: SocketHandle,
    pub tcp: SocketHandle,
}
impl Node {
    fn new(ll: [u8; 8], addrs: &[[u8; 16]], caps: Caps, listen: bool, burst: usize) -> Node {
        let mut dev = Dev { rx: VecDeque::new(), tx: vec![], medium: Medium::Ieee802154, mtu: 1500, caps: caps.mk(), burst: if burst == 0 { None } else { Some(burst) } };
        let mut config = Config::new(HardwareAddress::Ieee802154(Ieee802154Address::Extended(ll)));
        config.random_seed = ll[7] as u64;
        config.pan_id = Some(Ieee802154Pan(0xbeef));
        let mut iface = Interface::new(config, &mut dev, Instant::from_millis(1000));
        iface.update_ip_addrs(|a| {
            for x in addrs {
                a.push(IpCidr::new(ipaddr(x), 64)).unwrap();
            }
        });
        let mut sockets = SocketSet::new(vec![]);
        let mut u = udp::Socket::new(
            udp::PacketBuffer::new(vec![udp::PacketMetadata::EMPTY; 2], vec![0u8; LBUF]),
            udp::PacketBuffer::new(vec![udp::PacketMetadata::EMPTY; 2], vec![0u8; LBUF]),
        );
        u.bind(UDP_PORT).unwrap();
        let udp = sockets.add(u);
        let mut ic = icmp::Socket::new(
            icmp::PacketBuffer::new(vec![icmp::PacketMetadata::EMPTY; 2], vec![0u8; LBUF]),
            icmp::PacketBuffer::new(vec![icmp::PacketMetadata::EMPTY; 2], vec![0u8; LBUF]),
        );
        ic.bind(icmp::Endpoint::Ident(ICMP_IDENT)).unwrap();
        let icmp = sockets.add(ic);
        let mut t = tcp::Socket::new(tcp::SocketBuffer::new(vec![0u8; if burst == 0 { 4096 } else { 16384 }]), tcp::SocketBuffer::new(vec![0u8; 4096]));
        if listen {
            t.listen(TCP_LISTEN).unwrap();
        }
        let tcp = sockets.add(t);
        Node { dev, iface, sockets, udp, icmp, tcp }
    }
}

#[derive(Default, Clone)]
pub struct LStats {
    pub counts: BTreeMap<String, u64>,
    pub viols: Vec<(String, String, Value)>,
    pub errors: Vec<String>,
    pub frames: u64,
    pub datagrams: u64,
    pub polls: u64,
    pub sends: u64,
}
impl LStats {
    fn inc(&mut self, k: String) {
        *self.counts.entry(k).or_insert(0) += 1;
    }
    fn merge(mut self, o: LStats) -> LStats {
        for (k, v) in o.counts {
            *self.counts.entry(k).or_insert(0) += v;
        }
        for v in o.viols {
            if !self.viols.iter().any(|x| x.0 == v.0) {
                self.viols.push(v);
            }
        }
        for e in o.errors {
            if self.errors.len() < 20 {
                self.errors.push(e);
            }
        }
        self.frames += o.frames;
        self.datagrams += o.datagrams;
        self.polls += o.polls;
        self.sends += o.sends;
        self
    }
}

#[derive(Clone, Debug)]
pub struct LScn {
    pub kind: String,
    /// address pair in use, see `addr_pair`
    pub addr: u8,
    pub sizes: Vec<usize>,
    pub caps: Caps,
    /// DeviceCapabilities::max_burst_size of both devices (0 = None); TCP rx buffers are 16 KiB then
    pub burst: usize,
}
impl LScn {
    fn to_json(&self) -> Value {
        json!({"part":"b6","kind":self.kind,"addr":self.addr,"addr_name":addr_name(self.addr),"sizes":self.sizes,"caps":self.caps.to_json(),"max_burst_size":self.burst})
    }
}

pub struct LoWorld {
    pub a: Node,
    pub b: Node,
    pub now_ms: i64,
    pub mon: [Reasm; 2],
    pub st: LStats,
    pub verbose: bool,
    scn: Value,
    cur_size: usize,
}
impl LoWorld {
    pub fn new(s: &LScn) -> LoWorld {
        LoWorld {
            a: Node::new(MY_LL, &node_addrs(s.addr, 0), s.caps, true, s.burst),
            b: Node::new(PEER_LL, &node_addrs(s.addr, 1), s.caps, false, s.burst),
            now_ms: 1000,
            mon: [Reasm::default(), Reasm::default()],
            st: LStats::default(),
            verbose: false,
            scn: s.to_json(),
            cur_size: 0,
        }
    }
    fn observe(&mut self, who: usize, frame: &[u8], caps: &Caps) {
        self.st.frames += 1;
        match self.mon[who].feed(frame) {
            Err(e) => {
                if e.starts_with("unsupported") {
                    self.st.inc(format!("frame not decodable by the independent decoder ({})", e));
                } else {
                    self.st.errors.push(format!("6LoWPAN frame from node {} rejected by independent decoder: {} ({})", who, e, hex(frame)));
                }
            }
            Ok(None) => {}
            Ok(Some(d)) => {
                self.st.datagrams += 1;
                let info = classify(&d.bytes);
                let shape = match d.fragments {
                    1 => "1 frame".to_string(),
                    n if n >= 9 => "9+ fragments".to_string(),
                    n => format!("{} fragments", n),
                };
                let name = info.proto_name();
                let sub = info.subtype(&d.bytes);
                if self.verbose {
                    println!("node {} datagram {} bytes in {}: {} {} -> {:?} {}", who, d.bytes.len(), shape, name, sub, info.l4, info.note);
                }
                let tx_on = Caps::index_for(info.ver, info.proto).map(|i| caps.tx(i)).unwrap_or(false);
                if d.udp_ck_elided {
                    self.st.inc(format!("{} checksum elided by NHC ({})", name, shape));
                    return;
                }
                match info.l4 {
                    Ck::Valid => self.st.inc(format!("{} {} [{}]: valid", name, sub, shape)),
                    Ck::Wrong | Ck::UdpZero6 => {
                        self.st.inc(format!("{} {} [{}]: invalid", name, sub, shape));
                        if tx_on {
                            let sig = format!("C08/emitted-invalid/{}/{}/6lowpan-{}", name, sub, if d.fragments > 1 { "fragmented" } else { "unfragmented" });
                            if !self.st.viols.iter().any(|v| v.0 == sig) {
                                let mut r = self.scn.clone();
                                r["at_size"] = json!(self.cur_size);
                                self.st.viols.push((
                                    sig,
                                    format!("datagram emitted by a real Medium::Ieee802154 interface ({} , {} bytes after independent reassembly/decompression) fails {} checksum verification; scenario {} at payload size {}; datagram {}", shape, d.bytes.len(), name, self.scn, self.cur_size, hex(&d.bytes)),
                                    r,
                                ));
                            }
                        }
                    }
                    _ => self.st.inc(format!("{} [{}]: not checkable ({})", name, shape, info.note)),
                }
            }
        }
    }
    /// poll both nodes and exchange frames until the link is quiet
    pub fn pump(&mut self, caps: &Caps) {
        for _ in 0..400 {
            let t = Instant::from_millis(self.now_ms);
            self.a.iface.poll(t, &mut self.a.dev, &mut self.a.sockets);
            let fa = std::mem::take(&mut self.a.dev.tx);
            self.b.iface.poll(t, &mut self.b.dev, &mut self.b.sockets);
            let fb = std::mem::take(&mut self.b.dev.tx);
            self.st.polls += 2;
            if fa.is_empty() && fb.is_empty() {
                break;
            }
            for f in fa {
                self.observe(0, &f, caps);
                self.b.dev.rx.push_back(f);
            }
            for f in fb {
                self.observe(1, &f, caps);
                self.a.dev.rx.push_back(f);
            }
        }
    }
    pub fn settle(&mut self, caps: &Caps) {
        self.pump(caps);
        self.now_ms += 20;
        self.pump(caps);
    }
}

/// hand-built unsolicited neighbor advertisement (override) from `from` to `to`, carried with both
/// 128-bit addresses in line (lossless for any address), so that the neighbor caches are filled
/// even if the nodes' own neighbor discovery exchange is not accepted by the peer
fn na_frame(from_ll: &[u8; 8], from: &[u8; 16], to_ll: &[u8; 8], to: &[u8; 16]) -> Vec<u8> {
    let mut icmp = vec![0u8; 40];
    icmp[0] = 136;
    icmp[4] = 0x20; // override
    icmp[8..24].copy_from_slice(from);
    icmp[24] = 2; // target link-layer address option, 2 x 8 octets
    icmp[25] = 2;
    icmp[26..34].copy_from_slice(from_ll);
    let c = l4_cksum(from, to, 58, &icmp);
    icmp[2] = (c >> 8) as u8;
    icmp[3] = c as u8;
    let mut f = vec![0x41, 0xcc, 0x55, 0xef, 0xbe];
    let mut d = *to_ll;
    d.reverse();
    f.extend_from_slice(&d);
    let mut s = *from_ll;
    s.reverse();
    f.extend_from_slice(&s);
    // IPHC: TF elided, next header in line, hop limit 255, SAM = DAM = 00 (128 bits in line)
    f.extend_from_slice(&[0x7b, 0x00, 58]);
    f.extend_from_slice(from);
    f.extend_from_slice(to);
    f.extend_from_slice(&icmp);
    f
}

fn pat(size: usize, salt: u8) -> Vec<u8> {
    (0..size).map(|i| (i as u8).wrapping_mul(13).wrapping_add(salt) | 1).collect()
}

pub fn run_scn(s: &LScn, verbose: bool) -> LStats {
    let mut w = LoWorld::new(s);
    w.verbose = verbose;
    let caps = s.caps;
    let (aa, ba) = addr_pair(s.addr);
    let (a_addr, b_addr): (&[u8], &[u8]) = (&aa, &ba);
    // warm-up: neighbor discovery in both directions via one small echo each way
    for _ in 0..6 {
        let e = build_echo(b_addr, a_addr, true, ICMP_IDENT, 0, &[1, 2, 3]);
        let _ = w.b.sockets.get_mut::<icmp::Socket>(w.b.icmp).send_slice(&e, ipaddr(a_addr));
        let e = build_echo(a_addr, b_addr, true, ICMP_IDENT, 0, &[1, 2, 3]);
        let _ = w.a.sockets.get_mut::<icmp::Socket>(w.a.icmp).send_slice(&e, ipaddr(b_addr));
        w.settle(&caps);
        w.now_ms += 1100;
        w.settle(&caps);
        let mut got = false;
        while w.b.sockets.get_mut::<icmp::Socket>(w.b.icmp).recv().is_ok() {
            got = true;
        }
        while w.a.sockets.get_mut::<icmp::Socket>(w.a.icmp).recv().is_ok() {}
        if got {
            break;
        }
    }
    // after the nodes' own neighbor discovery (observed and judged above) make sure both caches
    // are filled, so that data packets are emitted and judged even if that exchange failed
    w.a.dev.rx.push_back(na_frame(&PEER_LL, &ba, &MY_LL, &aa));
    w.b.dev.rx.push_back(na_frame(&MY_LL, &aa, &PEER_LL, &ba));
    w.settle(&caps);
    while w.b.sockets.get_mut::<icmp::Socket>(w.b.icmp).recv().is_ok() {}
    while w.a.sockets.get_mut::<icmp::Socket>(w.a.icmp).recv().is_ok() {}
    let mut tcp_up = false;
    if s.kind == "tcp" {
        let r = {
            let so = w.b.sockets.get_mut::<tcp::Socket>(w.b.tcp);
            so.connect(w.b.iface.context(), IpEndpoint::new(ipaddr(a_addr), TCP_LISTEN), 50000)
        };
        if let Err(e) = r {
            w.st.errors.push(format!("6lowpan tcp connect: {:?}", e));
        }
        w.settle(&caps);
        tcp_up = w.b.sockets.get::<tcp::Socket>(w.b.tcp).state() == tcp::State::Established;
        if !tcp_up {
            // a consequence of whatever made the handshake frames unacceptable to the peer (their
            // checksums are judged by the monitor): counted; vacuity is guarded in run()
            w.st.inc("tcp: handshake NOT completed".into());
        }
    }
    for (k, &size) in s.sizes.iter().enumerate() {
        w.cur_size = size;
        w.st.sends += 1;
        let data = pat(size, k as u8);
        match s.kind.as_str() {
            "echo" => {
                let e = build_echo(b_addr, a_addr, true, ICMP_IDENT, k as u16, &data);
                match w.b.sockets.get_mut::<icmp::Socket>(w.b.icmp).send_slice(&e, ipaddr(a_addr)) {
                    Ok(()) => {}
                    Err(e) => w.st.inc(format!("echo send refused ({:?})", e)),
                }
                w.settle(&caps);
                let mut n = 0;
                while let Ok((p, _)) = w.b.sockets.get_mut::<icmp::Socket>(w.b.icmp).recv() {
                    if p.len() == 8 + size && p[0] == 129 && p[8..] == data[..] {
                        n += 1;
                    }
                }
                while w.a.sockets.get_mut::<icmp::Socket>(w.a.icmp).recv().is_ok() {}
                w.st.inc(format!("echo: reply {}", if n > 0 { "delivered to requester" } else { "NOT delivered" }));
            }
            "udp" => {
                for dir in 0..2 {
                    let (src, dst, to) = if dir == 0 { (&mut w.b, 0usize, a_addr) } else { (&mut w.a, 1usize, b_addr) };
                    let _ = dst;
                    if let Err(e) = src.sockets.get_mut::<udp::Socket>(src.udp).send_slice(&data, IpEndpoint::new(ipaddr(to), UDP_PORT)) {
                        w.st.inc(format!("udp send refused ({:?})", e));
                    }
                    w.settle(&caps);
                    let rx = if dir == 0 { &mut w.a } else { &mut w.b };
                    let mut n = 0;
                    while let Ok((p, _)) = rx.sockets.get_mut::<udp::Socket>(rx.udp).recv() {
                        if p == &data[..] {
                            n += 1;
                        }
                    }
                    w.st.inc(format!("udp: datagram {}", if n > 0 { "delivered" } else { "NOT delivered" }));
                }
            }
            "udp-closed" => {
                if let Err(e) = w.b.sockets.get_mut::<udp::Socket>(w.b.udp).send_slice(&data, IpEndpoint::new(ipaddr(a_addr), 9999)) {
                    w.st.inc(format!("udp send refused ({:?})", e));
                }
                w.settle(&caps);
            }
            "tcp" => {
                if !tcp_up {
                    break;
                }
                if size == 0 {
                    continue;
                }
                let n = w.b.sockets.get_mut::<tcp::Socket>(w.b.tcp).send_slice(&data).unwrap_or(0);
                let mut echoed = 0usize;
                for _ in 0..8 {
                    w.settle(&caps);
                    let mut buf = vec![0u8; 4096];
                    let so = w.a.sockets.get_mut::<tcp::Socket>(w.a.tcp);
                    if so.can_recv() {
                        if let Ok(m) = so.recv_slice(&mut buf) {
                            let _ = so.send_slice(&buf[..m]);
                        }
                    }
                    w.settle(&caps);
                    let so = w.b.sockets.get_mut::<tcp::Socket>(w.b.tcp);
                    if so.can_recv() {
                        if let Ok(m) = so.recv_slice(&mut buf) {
                            echoed += m;
                        }
                    }
                    if echoed >= n {
                        break;
                    }
                }
                w.st.inc(format!("tcp: {}", if echoed == n && n == size { "bytes echoed back completely" } else { "echo INCOMPLETE" }));
            }
            k => {
                w.st.errors.push(format!("unknown 6lowpan scenario kind {}", k));
                break;
            }
        }
    }
    if s.kind == "tcp" && tcp_up {
        w.b.sockets.get_mut::<tcp::Socket>(w.b.tcp).close();
        w.settle(&caps);
        w.a.sockets.get_mut::<tcp::Socket>(w.a.tcp).close();
        w.settle(&caps);
    }
    let pend = w.mon[0].pending() + w.mon[1].pending();
    if pend > 0 {
        w.st.inc(format!("incomplete fragment sets left at end: {}", pend));
    }
    w.st
}

pub fn size_sequence(max_dense: usize, big: &[usize]) -> Vec<usize> {
    let mut up: Vec<usize> = (0..=max_dense).collect();
    up.extend_from_slice(big);
    let mut v = up.clone();
    up.reverse();
    v.extend(up);
    v
}

pub fn run(rep: &mut Report, tier: Tier) {
    let thorough = tier == Tier::Thorough;
    let dense = if thorough { 420 } else { 330 };
    let mut list = vec![];
    for addr in 0..=4u8 {
        for kind in ["echo", "udp", "udp-closed", "tcp"] {
            let big: &[usize] = match kind {
                "tcp" => &[500, 999, 1000, 1219, 1220, 1221, 2000],
                _ => &[500, 777, 1000, 1001, 1200, 1231, 1232],
            };
            // the link-local-looking pairs outside fe80::/64 get a shorter (still 1..4+ fragments) sequence
            let d = if addr <= 1 { dense } else if thorough { 260 } else { 130 };
            list.push(LScn { kind: kind.into(), addr, sizes: size_sequence(d, big), caps: Caps::DEFAULT, burst: 0 });
            if kind == "tcp" && addr <= 1 {
                for burst in [1usize, 4] {
                    list.push(LScn { kind: kind.into(), addr, sizes: size_sequence(if thorough { 200 } else { 120 }, &[500, 1219, 1220]), caps: Caps::DEFAULT, burst });
                }
            }
            if thorough {
                // tx-only capabilities: emitted checksums must still verify
                list.push(LScn { kind: kind.into(), addr, sizes: size_sequence(200, big), caps: Caps([2; 5]), burst: 0 });
            }
        }
    }
    let st = list
        .par_iter()
        .map(|s| match std::panic::catch_unwind(std::panic::AssertUnwindSafe(|| run_scn(s, false))) {
            Ok(st) => st,
            Err(e) => {
                let mut st = LStats::default();
                st.errors.push(format!("6lowpan scenario {:?} panicked: {} at {}", s.to_json(), panic_msg(e), last_panic_loc()));
                st
            }
        })
        .collect::<Vec<_>>()
        .into_iter()
        .fold(LStats::default(), |a, b| a.merge(b));
    for (sig, det, r) in &st.viols {
        rep.violation(sig.clone(), det.clone(), r.clone());
    }
    for e in &st.errors {
        rep.machinery_errors.push(format!("(b/6lowpan) {}", e));
    }
    // vacuity guard: without any violation every scenario must have delivered its traffic
    if st.viols.is_empty() {
        for (k, v) in &st.counts {
            if k.contains("NOT") || k.contains("INCOMPLETE") {
                rep.machinery_errors.push(format!("(b/6lowpan) {} x{} although no emitted datagram was judged invalid", k, v));
            }
        }
    }
    if st.datagrams == 0 {
        rep.machinery_errors.push("(b/6lowpan) no datagram observed".into());
    }
    rep.add_count("states", st.sends);
    rep.add_count("transitions", st.polls);
    rep.cov(
        "b_emitted_6lowpan",
        json!({
            "method": "two real Medium::Ieee802154 interfaces; oracle = independent 802.15.4/FRAG1/FRAGN/IPHC/UDP-NHC decoder + independent checksum verifier on every reassembled datagram emitted by either interface (the peer interface is only a stimulus generator)",
            "scenarios": list.len(), "max_burst_size": "tcp scenarios also with max_burst_size 1 and 4 and 16 KiB receive buffers (the 6LoWPAN emit path does not apply the window clamp; recorded for completeness)", "kinds": "echo (request + auto reply), udp both directions, udp to closed port (ICMPv6 port unreachable), tcp (SYN, SYN-ACK, data both ways, ACK, FIN)",
            "addressing": "5 source/destination address pairs: fe80::/64 (elided in IPHC), fd00::/64 (in-line), and link-local-looking addresses with a non-zero bit among bits 10..63 (fe80:0:0:1::1, fe80:1::1234, febf::1; IID derived / not derived from the hardware address) whose transport checksum is verified after the harness's own RFC 6282 decompression of what is on the air",
            "payload_sizes": format!("0..={} ascending, a few large sizes up to the reassembly limit, then all descending, in ONE world per scenario (stale fragmentation buffer content)", dense),
            "sends": st.sends, "polls": st.polls, "frames_decoded": st.frames, "datagrams_verified": st.datagrams, "per_class": st.counts,
        }),
    );
}

pub fn replay(r: &Value) -> i32 {
    let s = LScn {
        kind: r["kind"].as_str().unwrap_or("echo").to_string(),
        addr: r["addr"].as_u64().unwrap_or(0) as u8,
        sizes: r["sizes"].as_array().map(|a| a.iter().map(|x| x.as_u64().unwrap_or(0) as usize).collect()).unwrap_or_default(),
        caps: Caps::from_json(&r["caps"]),
        burst: r["max_burst_size"].as_u64().unwrap_or(0) as usize,
    };
    let st = run_scn(&s, true);
    for (k, v) in &st.counts {
        println!("{}: {}", k, v);
    }
    for e in &st.errors {
        println!("machinery: {}", e);
    }
    for v in &st.viols {
        println!("violation: {} :: {}", v.0, &v.1[..v.1.len().min(400)]);
    }
    if st.viols.is_empty() {
        println!("no violation on replay");
        0
    } else {
        1
    }
}
