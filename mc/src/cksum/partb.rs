//! Part (b): every frame emitted by a real Interface in the scenario suite verifies under the
//! independent verifier, for every ChecksumCapabilities setting (checked for protocols with tx on).

use super::wirex::*;
use super::world::*;
use crate::core::*;
use rayon::prelude::*;
use serde_json::{json, Value};
use smoltcp::phy::Medium;
use smoltcp::socket::{icmp, tcp, udp};
use smoltcp::wire::IpEndpoint;
use std::collections::BTreeMap;

#[derive(Clone, Debug)]
pub struct Scn {
    pub kind: String,
    pub ver: Ver,
    pub size: usize,
    /// 0 zeros, 1 0xFF, 2 counting, 3 crafted so that the UDP checksum computes to 0x0000
    pub pattern: u8,
    pub medium: Medium,
    pub caps: Caps,
    pub ip_mtu: usize,
    /// DeviceCapabilities::max_burst_size (0 = None)
    pub burst: usize,
    /// receive buffer of the TCP sockets
    pub tcp_rx: usize,
}
impl Scn {
    fn to_json(&self) -> Value {
        json!({"part":"b","kind":self.kind,"ver":self.ver.n(),"size":self.size,"pattern":self.pattern,
               "medium":medium_name(self.medium),"caps":self.caps.to_json(),"caps_name":self.caps.name(),"ip_mtu":self.ip_mtu,"max_burst_size":self.burst,"tcp_rx_buffer":self.tcp_rx})
    }
    fn from_json(r: &Value) -> Scn {
        Scn {
            kind: r["kind"].as_str().unwrap_or("echo").to_string(),
            ver: Ver::from_n(r["ver"].as_u64().unwrap_or(4)),
            size: r["size"].as_u64().unwrap_or(0) as usize,
            pattern: r["pattern"].as_u64().unwrap_or(2) as u8,
            medium: medium_from(r["medium"].as_str().unwrap_or("ip")),
            caps: Caps::from_json(&r["caps"]),
            ip_mtu: r["ip_mtu"].as_u64().unwrap_or(1500) as usize,
            burst: r["max_burst_size"].as_u64().unwrap_or(0) as usize,
            tcp_rx: r["tcp_rx_buffer"].as_u64().unwrap_or(BUF as u64) as usize,
        }
    }
}

fn payload(pattern: u8, size: usize) -> Vec<u8> {
    match pattern {
        0 => vec![0u8; size],
        1 => vec![0xffu8; size],
        _ => (0..size).map(|i| (i as u8).wrapping_mul(7).wrapping_add(1)).collect(),
    }
}

const BUF: usize = 4096;
const CLIENT_PORT: u16 = 50000;

/// run one scenario on a fresh world; returns emitted raw frames and number of polls
pub fn run_scn(s: &Scn) -> Result<(Vec<Vec<u8>>, u64), String> {
    let mut w = World::new_ext(s.medium, s.caps, s.ip_mtu, BUF, if s.burst == 0 { None } else { Some(s.burst) }, s.tcp_rx);
    let mut frames = std::mem::take(&mut w.boot_frames);
    let mut polls = 2u64;
    let (me, peer) = (s.ver.my(), s.ver.peer());
    let v4 = s.ver == Ver::V4;
    let mut data = payload(s.pattern, s.size);
    let mss = (s.ip_mtu - s.ver.iphdr() - 20) as u16;
    let mss_opt = [2u8, 4, (mss >> 8) as u8, mss as u8];
    macro_rules! dl {
        ($ip:expr) => {{
            let f = w.deliver(&$ip);
            polls += 1;
            frames.extend(f.clone());
            f
        }};
    }
    macro_rules! pl {
        () => {{
            w.poll();
            polls += 1;
            let f = w.drain();
            frames.extend(f.clone());
            f
        }};
    }
    macro_rules! adv {
        ($ms:expr) => {{
            w.advance($ms);
            polls += 1;
            let f = w.drain();
            frames.extend(f.clone());
            f
        }};
    }
    let find_tcp = |medium: Medium, fs: &[Vec<u8>], mask: u8| -> Option<(u32, u32)> {
        for f in fs {
            if let Some(ip) = ip_of(medium, f) {
                let i = classify(ip);
                if i.proto == 6 && i.l4_end >= i.l4_off + 20 && ip[i.l4_off + 13] & mask == mask {
                    return Some((get32(&ip[i.l4_off + 4..]), get32(&ip[i.l4_off + 8..])));
                }
            }
        }
        None
    };
    match s.kind.as_str() {
        "boot" => {}
        "echo" => {
            let e = build_echo(peer, me, true, 0x2222, 7, &data);
            dl!(build_ip(peer, me, icmp_proto(v4), &e));
        }
        "echo-sock" => {
            // ident matches the bound icmp socket as well (socket rx + auto reply)
            let e = build_echo(peer, me, true, ICMP_IDENT, 7, &data);
            dl!(build_ip(peer, me, icmp_proto(v4), &e));
        }
        "udp-closed" => {
            let u = build_udp(peer, me, PEER_PORT, 9999, &data);
            dl!(build_ip(peer, me, 17, &u));
        }
        "proto-unk" => {
            dl!(build_ip(peer, me, 253, &data));
        }
        "udp-send" | "udp-frag" | "udp-send-unresolved" => {
            let dst = if s.kind == "udp-send-unresolved" { s.ver.other() } else { peer };
            if s.pattern == 3 && s.size >= 2 {
                // choose the first payload word so that the RFC 768 checksum computes to 0x0000
                data = payload(2, s.size);
                data[0] = 0;
                data[1] = 0;
                let seg = {
                    let mut x = vec![0u8; 8 + s.size];
                    x[0..2].copy_from_slice(&UDP_PORT.to_be_bytes());
                    x[2..4].copy_from_slice(&9u16.to_be_bytes());
                    x[4..6].copy_from_slice(&((8 + s.size) as u16).to_be_bytes());
                    x[8..].copy_from_slice(&data);
                    x
                };
                let sum = fold(pseudo_words(me, dst, 17, seg.len() as u32) + words(&seg));
                let wv = !sum; // sum + !sum = 0xffff -> complement 0x0000
                data[0] = (wv >> 8) as u8;
                data[1] = wv as u8;
            }
            let so = w.sockets.get_mut::<udp::Socket>(w.udp);
            so.send_slice(&data, IpEndpoint::new(ipaddr(dst), 9)).map_err(|e| format!("udp send: {:?}", e))?;
            pl!();
            pl!();
            adv!(1);
        }
        "icmp-send" => {
            let e = build_echo(me, peer, true, ICMP_IDENT, 1, &data);
            let so = w.sockets.get_mut::<icmp::Socket>(w.icmp);
            so.send_slice(&e, ipaddr(peer)).map_err(|e| format!("icmp send: {:?}", e))?;
            pl!();
        }
        "mcast-join" => {
            let g: &[u8] = if v4 { &[224, 0, 0, 99] } else { &[0xff, 2, 0, 0, 0, 0, 0, 0, 0, 0, 0, 0, 0, 0, 0, 0x99] };
            w.iface.join_multicast_group(ipaddr(g)).map_err(|e| format!("join: {:?}", e))?;
            pl!();
            w.iface.leave_multicast_group(ipaddr(g)).map_err(|e| format!("leave: {:?}", e))?;
            pl!();
        }
        "tcp-closed" => {
            let syn = build_tcp(peer, me, PEER_PORT, 99, PEER_ISN, 0, SYN, 1024, &mss_opt, &[]);
            dl!(build_ip(peer, me, 6, &syn));
            let d = &data[..data.len().min(mss as usize)];
            let seg = build_tcp(peer, me, PEER_PORT, 99, PEER_ISN, 0x5555_0000, ACK | PSH, 1024, &[], d);
            dl!(build_ip(peer, me, 6, &seg));
        }
        "tcp-client" => {
            {
                let so = w.sockets.get_mut::<tcp::Socket>(w.tcp_x);
                so.connect(w.iface.context(), IpEndpoint::new(ipaddr(peer), PEER_PORT), CLIENT_PORT).map_err(|e| format!("connect: {:?}", e))?;
            }
            let f = pl!();
            let (isn, _) = find_tcp(s.medium, &f, SYN).ok_or("no SYN emitted")?;
            let sa = build_tcp(peer, me, PEER_PORT, CLIENT_PORT, PEER_ISN, isn.wrapping_add(1), SYN | ACK, 65535, &mss_opt, &[]);
            dl!(build_ip(peer, me, 6, &sa));
            let n = w.sockets.get_mut::<tcp::Socket>(w.tcp_x).send_slice(&data).map_err(|e| format!("tcp send: {:?}", e))?;
            if n != data.len() {
                return Err(format!("tcp send accepted {} of {}", n, data.len()));
            }
            pl!();
            adv!(1);
            let acked = isn.wrapping_add(1).wrapping_add(n as u32);
            let a = build_tcp(peer, me, PEER_PORT, CLIENT_PORT, PEER_ISN.wrapping_add(1), acked, ACK, 65535, &[], &[]);
            dl!(build_ip(peer, me, 6, &a));
            if s.size % 2 == 0 {
                w.sockets.get_mut::<tcp::Socket>(w.tcp_x).close();
                pl!();
                let fa = build_tcp(peer, me, PEER_PORT, CLIENT_PORT, PEER_ISN.wrapping_add(1), acked.wrapping_add(1), FIN | ACK, 65535, &[], &[]);
                dl!(build_ip(peer, me, 6, &fa));
            } else {
                w.sockets.get_mut::<tcp::Socket>(w.tcp_x).abort();
                pl!();
            }
        }
        "tcp-server" => {
            let syn = build_tcp(peer, me, PEER_PORT, TCP_LISTEN, PEER_ISN, 0, SYN, 65535, &mss_opt, &[]);
            let f = dl!(build_ip(peer, me, 6, &syn));
            let (isn, _) = find_tcp(s.medium, &f, SYN | ACK).ok_or("no SYN-ACK emitted")?;
            let mut seq = PEER_ISN.wrapping_add(1);
            let a = build_tcp(peer, me, PEER_PORT, TCP_LISTEN, seq, isn.wrapping_add(1), ACK, 65535, &[], &[]);
            dl!(build_ip(peer, me, 6, &a));
            for chunk in data.chunks(mss as usize) {
                let d = build_tcp(peer, me, PEER_PORT, TCP_LISTEN, seq, isn.wrapping_add(1), ACK | PSH, 65535, &[], chunk);
                dl!(build_ip(peer, me, 6, &d));
                seq = seq.wrapping_add(chunk.len() as u32);
            }
            adv!(20);
            // echo the received bytes back
            let mut got = vec![0u8; BUF.max(s.tcp_rx)];
            let n = {
                let so = w.sockets.get_mut::<tcp::Socket>(w.tcp_l);
                if so.can_recv() {
                    so.recv_slice(&mut got).map_err(|e| format!("recv: {:?}", e))?
                } else {
                    0
                }
            };
            if n != data.len() {
                return Err(format!("server socket received {} of {} bytes", n, data.len()));
            }
            if n > 0 {
                w.sockets.get_mut::<tcp::Socket>(w.tcp_l).send_slice(&got[..n]).map_err(|e| format!("send: {:?}", e))?;
            }
            pl!();
            adv!(1);
            let acked = isn.wrapping_add(1).wrapping_add(n as u32);
            let fa = build_tcp(peer, me, PEER_PORT, TCP_LISTEN, seq, acked, FIN | ACK, 65535, &[], &[]);
            dl!(build_ip(peer, me, 6, &fa));
            adv!(20);
            w.sockets.get_mut::<tcp::Socket>(w.tcp_l).close();
            pl!();
            let la = build_tcp(peer, me, PEER_PORT, TCP_LISTEN, seq.wrapping_add(1), acked.wrapping_add(1), ACK, 65535, &[], &[]);
            dl!(build_ip(peer, me, 6, &la));
        }
        k => return Err(format!("unknown scenario kind {}", k)),
    }
    if s.ip_mtu < 1500 {
        // IPv4 fragments leave one per egress pass: flush the fragmenter
        for _ in 0..6 {
            pl!();
        }
    }
    Ok((frames, polls))
}

#[derive(Default, Clone)]
pub struct BStats {
    pub counts: BTreeMap<String, u64>,
    pub viols: Vec<(String, String, Value)>,
    pub errors: Vec<String>,
    pub scenarios: u64,
    pub polls: u64,
    pub frames: u64,
}
impl BStats {
    fn inc(&mut self, k: &str) {
        *self.counts.entry(k.to_string()).or_insert(0) += 1;
    }
    fn merge(mut self, o: BStats) -> BStats {
        for (k, v) in o.counts {
            *self.counts.entry(k).or_insert(0) += v;
        }
        for v in o.viols {
            if !self.viols.iter().any(|x| x.0 == v.0) {
                self.viols.push(v);
            }
        }
        for e in o.errors {
            if self.errors.len() < 20 {
                self.errors.push(e);
            }
        }
        self.scenarios += o.scenarios;
        self.polls += o.polls;
        self.frames += o.frames;
        self
    }
}

/// verify every frame of one scenario
pub fn check_frames(s: &Scn, frames: &[Vec<u8>], st: &mut BStats, verbose: bool) {
    let mut frags: Vec<Vec<u8>> = vec![];
    for (idx, f) in frames.iter().enumerate() {
        st.frames += 1;
        let Some(ip) = ip_of(s.medium, f) else {
            st.inc("non-ip (arp)");
            continue;
        };
        let info = classify(ip);
        if verbose {
            println!("frame {:2}: {} bytes, v{} proto {} {} hdr={:?} l4={:?} {}", idx, f.len(), info.ver, info.proto, info.subtype(ip), info.ip4_hdr, info.l4, info.note);
        }
        if info.ver == 0 || (info.ver == 4 && info.l4_end == info.l4_off && info.note.contains("delimitable")) {
            st.errors.push(format!("emitted frame cannot be delimited ({}): {} in {:?}", info.note, hex(f), s.to_json()));
            continue;
        }
        let bad = |proto: &str, sub: String, what: &str, st: &mut BStats| {
            let sig = format!("C08/emitted-invalid/{}/{}", proto, sub);
            if !st.viols.iter().any(|v| v.0 == sig) {
                let mut r = s.to_json();
                r["frame_index"] = json!(idx);
                r["frame"] = json!(hex(f));
                st.viols.push((sig, format!("{}: emitted {} frame fails independent verification ({}); scenario {} v{} size {} pattern {} medium {} caps {}", what, proto, hex(f), s.kind, s.ver.n(), s.size, s.pattern, medium_name(s.medium), s.caps.name()), r));
            }
        };
        if info.ver == 4 {
            let key = if s.caps.tx(IPV4) { "ipv4-header" } else { "txoff ipv4-header" };
            match info.ip4_hdr {
                Ck::Valid => st.inc(&format!("{}: valid", key)),
                _ => {
                    st.inc(&format!("{}: invalid", key));
                    if s.caps.tx(IPV4) {
                        bad("ipv4-header", if info.frag { "frag".into() } else { "nofrag".into() }, "IPv4 header checksum", st);
                    }
                }
            }
        }
        if info.frag {
            st.inc("ipv4 fragment (payload verified after reassembly)");
            frags.push(ip.to_vec());
            continue;
        }
        let name = info.proto_name();
        let sub = info.subtype(ip);
        if s.burst > 0 && info.proto == 6 && info.l4_end >= info.l4_off + 20 {
            // non-vacuity of the max_burst_size dimension: is the advertised window the clamp value?
            let thl = ((ip[info.l4_off + 12] >> 4) as usize) * 4;
            // smoltcp computes the clamp from the DEVICE mtu (on Ethernet that includes the 14-byte link header)
            let dev_mtu = if s.medium == Medium::Ethernet { s.ip_mtu + 14 } else { s.ip_mtu };
            let clamp = s.burst * (dev_mtu - s.ver.iphdr() - thl);
            let win = get16(&ip[info.l4_off + 14..]) as usize;
            if ip[info.l4_off + 13] & RST == 0 {
                st.inc(if win == clamp { "max_burst_size: tcp segment advertises exactly the clamped window" } else if win < clamp { "max_burst_size: tcp segment window below the clamp (clamp inactive)" } else { "max_burst_size: tcp segment window ABOVE the clamp" });
            }
        }
        let capi = Caps::index_for(info.ver, info.proto);
        let tx_on = capi.map(|i| s.caps.tx(i)).unwrap_or(false);
        let pre = if name == "igmp" || name == "other" {
            "unasserted "
        } else if tx_on {
            ""
        } else {
            "txoff "
        };
        match info.l4 {
            Ck::Valid => {
                st.inc(&format!("{}{} {}: valid", pre, name, sub));
                if info.proto == 17 && get16(&ip[info.l4_off + 6..]) == 0xffff {
                    st.inc(&format!("{}{} checksum field 0xffff (computed 0x0000 transmitted as all-ones)", pre, name));
                }
            }
            Ck::UdpZero4 => {
                // legal "no checksum" over IPv4: accepted by every receiver; counted
                st.inc(&format!("{}{} zero-checksum-field", pre, name));
            }
            Ck::UdpZero6 => {
                st.inc(&format!("{}{} zero-checksum-field", pre, name));
                if tx_on {
                    bad("udp6", "zero".into(), "UDP over IPv6 with checksum field 0", st);
                }
            }
            Ck::Wrong => {
                st.inc(&format!("{}{} {}: invalid", pre, name, sub));
                if tx_on && pre.is_empty() {
                    bad(name, sub, "upper-layer checksum", st);
                }
            }
            Ck::NA => {
                st.inc(&format!("{}{}: not checkable ({})", pre, name, info.note));
                if tx_on && pre.is_empty() {
                    st.errors.push(format!("emitted {} frame not checkable ({}): {}", name, info.note, hex(f)));
                }
            }
        }
    }
    if !frags.is_empty() {
        // in-order reassembly by offset (all fragments of one scenario belong to one datagram)
        frags.sort_by_key(|p| get16(&p[6..8]) & 0x1fff);
        let ihl = (frags[0][0] & 0xf) as usize * 4;
        let mut whole = frags[0][..ihl].to_vec();
        let mut ok = true;
        let mut expect = 0usize;
        for (i, p) in frags.iter().enumerate() {
            let off = ((get16(&p[6..8]) & 0x1fff) as usize) * 8;
            let tl = get16(&p[2..4]) as usize;
            let mf = get16(&p[6..8]) & 0x2000 != 0;
            if off != expect || mf != (i + 1 < frags.len()) || get16(&p[4..6]) != get16(&frags[0][4..6]) {
                ok = false;
            }
            whole.extend_from_slice(&p[ihl..tl]);
            expect += tl - ihl;
        }
        if !ok || whole.len() > 65535 {
            st.errors.push(format!("fragment set not contiguous in scenario {:?}", s.to_json()));
        } else {
            let l = whole.len() as u16;
            whole[2..4].copy_from_slice(&l.to_be_bytes());
            whole[6] = 0;
            whole[7] = 0;
            fix_ip4_hdr(&mut whole);
            let info = classify(&whole);
            let tx_on = Caps::index_for(4, info.proto).map(|i| s.caps.tx(i)).unwrap_or(false);
            let pre = if tx_on { "" } else { "txoff " };
            match info.l4 {
                Ck::Valid => st.inc(&format!("{}reassembled {}: valid", pre, info.proto_name())),
                _ => {
                    st.inc(&format!("{}reassembled {}: invalid", pre, info.proto_name()));
                    if tx_on {
                        let sig = format!("C08/emitted-invalid/{}/fragmented", info.proto_name());
                        st.viols.push((sig, format!("reassembled datagram fails upper-layer checksum: {}", hex(&whole)), s.to_json()));
                    }
                }
            }
        }
    }
}

fn run_list(list: &[Scn]) -> BStats {
    list.par_iter()
        .map(|s| {
            let mut st = BStats::default();
            st.scenarios = 1;
            let r = std::panic::catch_unwind(std::panic::AssertUnwindSafe(|| run_scn(s)));
            match r {
                Ok(Ok((frames, polls))) => {
                    st.polls = polls;
                    st.inc(&format!("scenario {} v{}: frames {}", s.kind, s.ver.n(), if frames.is_empty() { "none" } else { "some" }));
                    check_frames(s, &frames, &mut st, false);
                }
                Ok(Err(e)) => st.errors.push(format!("scenario {:?}: {}", s.to_json(), e)),
                Err(e) => st.errors.push(format!("scenario {:?} panicked: {} at {}", s.to_json(), panic_msg(e), last_panic_loc())),
            }
            st
        })
        .collect::<Vec<_>>()
        .into_iter()
        .fold(BStats::default(), |a, b| a.merge(b))
}

fn boundary_sizes(max: usize) -> Vec<usize> {
    let mut s = std::collections::BTreeSet::new();
    for x in 0..=9 {
        s.insert(x);
    }
    for k in 4..=10 {
        let p = 1usize << k;
        for d in [p - 1, p, p + 1] {
            s.insert(d);
        }
    }
    for d in 0..4 {
        s.insert(max.saturating_sub(d));
    }
    s.into_iter().filter(|&x| x <= max).collect()
}

pub fn run(rep: &mut Report, tier: Tier) {
    let thorough = tier == Tier::Thorough;
    let mut list: Vec<Scn> = vec![];
    let mtu = 1500usize;
    for medium in [Medium::Ip, Medium::Ethernet] {
        for ver in [Ver::V4, Ver::V6] {
            let mk = |kind: &str, size: usize, pattern: u8| Scn { kind: kind.into(), ver, size, pattern, medium, caps: Caps::DEFAULT, ip_mtu: mtu, burst: 0, tcp_rx: BUF };
            let max_dgram = mtu - ver.iphdr() - 8;
            let mss = mtu - ver.iphdr() - 20;
            list.push(mk("boot", 0, 0));
            list.push(mk("mcast-join", 0, 0));
            for kind in ["echo", "echo-sock", "udp-closed", "udp-send", "icmp-send"] {
                let step = if thorough || kind != "echo-sock" { 1 } else { 7 };
                for size in (0..=max_dgram).step_by(step) {
                    list.push(mk(kind, size, 2));
                }
                let other: Vec<usize> = if thorough { (0..=max_dgram).collect() } else { boundary_sizes(max_dgram) };
                for &size in &other {
                    list.push(mk(kind, size, 0));
                    list.push(mk(kind, size, 1));
                }
            }
            for &size in &boundary_sizes(max_dgram) {
                for p in 0..3 {
                    // proto-unk payload is the whole IP payload (8 more bytes available)
                    list.push(mk("proto-unk", size, p));
                }
                if size >= 2 {
                    list.push(mk("udp-send", size, 3));
                }
            }
            if medium == Medium::Ethernet {
                list.push(mk("udp-send-unresolved", 5, 2));
            }
            let mut tsz: Vec<usize> = (0..=80).collect();
            tsz.extend(boundary_sizes(mss));
            tsz.extend([mss + 1, mss + 2, 2 * mss - 1, 2 * mss, 2 * mss + 1]);
            if thorough {
                tsz.extend(81..=mss);
            }
            tsz.sort();
            tsz.dedup();
            for &size in &tsz {
                for kind in ["tcp-client", "tcp-server", "tcp-closed"] {
                    list.push(mk(kind, size, 2));
                    if size <= 80 {
                        list.push(mk(kind, size, 1));
                    }
                }
            }
        }
        // IPv4 fragmentation on a 576-byte link
        for size in [549usize, 550, 551, 552, 553, 1000, 1103, 1104, 1105, 1400, 1471, 1472] {
            list.push(Scn { kind: "udp-frag".into(), ver: Ver::V4, size, pattern: 2, medium, caps: Caps::DEFAULT, ip_mtu: 576, burst: 0, tcp_rx: BUF });
        }
    }
    // IPv4 datagrams that need 2 and 3+ fragments: UDP, echo reply and echo request from an icmp socket
    for medium in [Medium::Ip, Medium::Ethernet] {
        for kind in ["udp-frag", "echo", "icmp-send"] {
            for size in [549usize, 600, 1000, 1104, 1105, 1400, 1464] {
                for pattern in [1u8, 2] {
                    list.push(Scn { kind: kind.into(), ver: Ver::V4, size, pattern, medium, caps: Caps::DEFAULT, ip_mtu: 576, burst: 0, tcp_rx: BUF });
                }
            }
        }
    }
    // DeviceCapabilities::max_burst_size dimension (the TCP window clamp in Packet::emit_payload):
    // {Some(1), Some(4)} x receive buffer {4096, 16384} x MTU {1500, 576}; None is the suite above.
    // With burst*(mtu-hdrs) below the free receive buffer the clamp is active, otherwise not; both occur.
    for medium in [Medium::Ip, Medium::Ethernet] {
        for ver in [Ver::V4, Ver::V6] {
            for burst in [1usize, 4] {
                for tcp_rx in [4096usize, 16384] {
                    for bmtu in [1500usize, 576] {
                        let mss = bmtu - ver.iphdr() - 20;
                        let mut tsz: Vec<usize> = (0..=40).collect();
                        tsz.extend(boundary_sizes(mss));
                        if thorough {
                            tsz.extend((41..=mss).step_by(7));
                        }
                        tsz.sort();
                        tsz.dedup();
                        for &size in tsz.iter().filter(|&&x| x <= mss) {
                            for kind in ["tcp-client", "tcp-server", "tcp-closed"] {
                                list.push(Scn { kind: kind.into(), ver, size, pattern: 2, medium, caps: Caps::DEFAULT, ip_mtu: bmtu, burst, tcp_rx });
                            }
                        }
                    }
                }
            }
        }
    }
    let st_default = run_list(&list);

    // every ChecksumCapabilities setting (4^5), reduced scenario set; only protocols with tx on are asserted
    let mut caps_list: Vec<Scn> = vec![];
    let mut n_caps = 0;
    for c in 0..1024u32 {
        let caps = Caps([(c & 3) as u8, ((c >> 2) & 3) as u8, ((c >> 4) & 3) as u8, ((c >> 6) & 3) as u8, ((c >> 8) & 3) as u8]);
        if caps == Caps::DEFAULT {
            continue;
        }
        n_caps += 1;
        for ver in [Ver::V4, Ver::V6] {
            for kind in ["echo", "udp-closed", "proto-unk", "udp-send", "icmp-send", "tcp-client", "tcp-server", "tcp-closed", "mcast-join"] {
                let sizes: &[usize] = if thorough { &[0, 1, 2, 3, 64, 65, 511, 1024, 1025, 1452] } else { &[0, 1, 2, 3] };
                for &size in sizes {
                    caps_list.push(Scn { kind: kind.into(), ver, size, pattern: 2, medium: Medium::Ip, caps, ip_mtu: mtu, burst: 0, tcp_rx: BUF });
                    if kind == "mcast-join" {
                        break;
                    }
                }
            }
        }
    }
    // fragmentation under EVERY capability setting (including the default one): the header of every
    // fragment must verify whenever OUR table says ipv4 tx checksumming is on; the reassembled
    // upper-layer checksum whenever the transport's tx checksumming is on
    for c in 0..1024u32 {
        let caps = Caps([(c & 3) as u8, ((c >> 2) & 3) as u8, ((c >> 4) & 3) as u8, ((c >> 6) & 3) as u8, ((c >> 8) & 3) as u8]);
        // udp and icmpv4 capabilities matter here; tcp/icmpv6 are irrelevant for these kinds: keep
        // the full ipv4 x udp x icmpv4 product and only the Both value of the other two, plus all-equal settings
        let others_default = caps.0[TCP] == 0 && caps.0[ICMPV6] == 0;
        let all_equal = caps.0.iter().all(|&x| x == caps.0[0]);
        if !(others_default || all_equal) {
            continue;
        }
        for kind in ["udp-frag", "echo", "icmp-send"] {
            for size in [600usize, 1400] {
                caps_list.push(Scn { kind: kind.into(), ver: Ver::V4, size, pattern: 2, medium: Medium::Ip, caps, ip_mtu: 576, burst: 0, tcp_rx: BUF });
            }
        }
    }
    let st_caps = run_list(&caps_list);

    for st in [&st_default, &st_caps] {
        for (sig, det, r) in &st.viols {
            rep.violation(sig.clone(), det.clone(), r.clone());
        }
        for e in &st.errors {
            rep.machinery_errors.push(format!("(b) {}", e));
        }
    }
    rep.add_count("states", st_default.scenarios + st_caps.scenarios);
    rep.add_count("transitions", st_default.polls + st_caps.polls);
    rep.cov(
        "b_emitted",
        json!({
            "default_caps": {"scenarios": st_default.scenarios, "polls": st_default.polls, "frames_verified": st_default.frames, "per_class": st_default.counts,
                "domain": "media {ip, ethernet} x {v4, v6} x kinds {boot, mcast-join, echo, echo-sock, udp-closed, proto-unk, udp-send(+crafted zero-sum), udp-send-unresolved(eth), icmp-send, tcp-client, tcp-server, tcp-closed, udp-frag(mtu 576)}; tcp kinds additionally with DeviceCapabilities::max_burst_size in {1,4} x tcp rx buffer {4096,16384} x ip mtu {1500,576} (window clamp active and inactive); datagram kinds: every payload size 0..=MTU-hdr (counting) + boundary sizes (zeros, 0xFF; thorough: every size); tcp: sizes 0..=80, boundaries, MSS±, 2*MSS± (thorough: every size up to MSS)"},
            "all_caps_settings": {"settings": n_caps, "scenarios": st_caps.scenarios, "polls": st_caps.polls, "frames_verified": st_caps.frames, "per_class": st_caps.counts,
                "note": "4^5-1 non-default ChecksumCapabilities settings on medium ip; plus IPv4 fragmentation (udp, echo reply, icmp-socket echo request; 600 and 1400 payload octets on ip mtu 576 = 2 and 3 fragments) under every ipv4 x udp x icmpv4 capability value (4^3 settings + the all-equal ones), every fragment header asserted when ipv4 tx is on per the harness's own table; frames of protocols whose tx checksumming is off are counted under 'txoff', never asserted"},
        }),
    );
    // samples: one emitted frame of a few kinds
    for (kind, ver, size) in [("echo", Ver::V4, 3usize), ("udp-send", Ver::V6, 5), ("tcp-server", Ver::V4, 1)] {
        let s = Scn { kind: kind.into(), ver, size, pattern: 2, medium: Medium::Ip, caps: Caps::DEFAULT, ip_mtu: mtu, burst: 0, tcp_rx: BUF };
        if let Ok((frames, _)) = run_scn(&s) {
            if let Some(f) = frames.last() {
                let i = classify(f);
                rep.samples.push(json!({"part":"b","scenario":format!("{} v{} size {}", kind, ver.n(), size),"last_frame":hex(f),"ipv4_header":format!("{:?}", i.ip4_hdr),"upper":format!("{} {:?}", i.proto_name(), i.l4)}));
            }
        }
    }
}

pub fn replay(r: &Value) -> i32 {
    let s = Scn::from_json(r);
    println!("scenario {:?}", s);
    match run_scn(&s) {
        Err(e) => {
            eprintln!("MACHINERY ERROR: {}", e);
            2
        }
        Ok((frames, _)) => {
            let mut st = BStats::default();
            check_frames(&s, &frames, &mut st, true);
            for (k, v) in &st.counts {
                println!("{}: {}", k, v);
            }
            for v in &st.viols {
                println!("violation: {} :: {}", v.0, v.1);
            }
            if st.viols.is_empty() {
                println!("no violation on replay");
                0
            } else {
                1
            }
        }
    }
}
