//! Part (c), Medium::Ieee802154 ingress: hand-built 802.15.4 + IPHC + LOWPAN_NHC UDP frames
//! (byte-wise, no smoltcp::wire) delivered to a real interface with bound UDP sockets.
//!
//! * C = 0 (checksum in line): the intact frame must be delivered (non-vacuity); every bit flip
//!   after which the independently decompressed datagram has a wrong UDP checksum must have no
//!   effect.
//! * C = 1 (checksum elided by the sender): the datagram carries NO checksum. Over IPv6 only a
//!   verifying, non-zero checksum is acceptable ("only UDP over IPv4 may carry the 'no checksum'
//!   value zero"), so neither the intact frame nor any mutant that still decodes to an elided
//!   checksum may have an effect. (RFC 6282 §4.3.2 lets a decompressor recompute the checksum
//!   only when an upper layer authorised the elision; smoltcp has no such authorisation, and a
//!   receiver-computed checksum verifies whatever bytes arrived.)
//! All four NHC port forms, unfragmented, plus a FRAG1/FRAGN variant.

use super::lowpan::{Reasm, MY_LL, PEER_LL};
use super::partc::Verdict;
use super::wirex::*;
use super::world::*;
use crate::core::*;
use rayon::prelude::*;
use serde_json::{json, Value};
use smoltcp::iface::{Config, Interface, SocketSet};
use smoltcp::phy::Medium;
use smoltcp::socket::udp;
use smoltcp::time::Instant;
use smoltcp::wire::{HardwareAddress, Ieee802154Address, Ieee802154Pan, IpCidr};
use std::collections::{BTreeMap, VecDeque};

const PORT_8BIT: u16 = 0xf012;
const PORT_4BIT: u16 = 0xf0b5;

struct RxWorld {
    dev: Dev,
    iface: Interface,
    sockets: SocketSet<'static>,
}
impl RxWorld {
    fn new(caps: Caps) -> RxWorld {
        let mut dev = Dev { rx: VecDeque::new(), tx: vec![], medium: Medium::Ieee802154, mtu: 1500, caps: caps.mk(), burst: None };
        let mut config = Config::new(HardwareAddress::Ieee802154(Ieee802154Address::Extended(MY_LL)));
        config.random_seed = 1;
        config.pan_id = Some(Ieee802154Pan(0xbeef));
        let mut iface = Interface::new(config, &mut dev, Instant::from_millis(1000));
        iface.update_ip_addrs(|a| a.push(IpCidr::new(ipaddr(&MY6), 64)).unwrap());
        let mut sockets = SocketSet::new(vec![]);
        for port in [UDP_PORT, PORT_8BIT, PORT_4BIT] {
            let mut u = udp::Socket::new(
                udp::PacketBuffer::new(vec![udp::PacketMetadata::EMPTY; 2], vec![0u8; 256]),
                udp::PacketBuffer::new(vec![udp::PacketMetadata::EMPTY; 2], vec![0u8; 64]),
            );
            u.bind(port).unwrap();
            sockets.add(u);
        }
        let mut w = RxWorld { dev, iface, sockets };
        w.iface.poll(Instant::from_millis(1000), &mut w.dev, &mut w.sockets);
        w.dev.tx.clear();
        w
    }
    /// deliver the frames in order; returns (socket image changed, emitted frames)
    fn deliver(&mut self, frames: &[Vec<u8>]) -> (bool, Vec<Vec<u8>>) {
        let before = format!("{:?}", self.sockets);
        for f in frames {
            self.dev.rx.push_back(f.clone());
        }
        self.iface.poll(Instant::from_millis(1000), &mut self.dev, &mut self.sockets);
        let after = format!("{:?}", self.sockets);
        (before != after, std::mem::take(&mut self.dev.tx))
    }
}

/// 802.15.4 data frame, 2003, PAN id compression, extended addresses, from the peer to us
fn frame154(seq: u8, payload: &[u8]) -> Vec<u8> {
    let mut f = vec![0x41, 0xcc, seq, 0xef, 0xbe];
    let mut d = MY_LL;
    d.reverse();
    f.extend_from_slice(&d);
    let mut s = PEER_LL;
    s.reverse();
    f.extend_from_slice(&s);
    f.extend_from_slice(payload);
    f
}
const L2: usize = 21;

fn ports(form: u8) -> (u16, u16) {
    match form {
        0 => (PEER_PORT, UDP_PORT),
        1 => (PEER_PORT, PORT_8BIT),
        2 => (0xf034, UDP_PORT),
        _ => (0xf0b3, PORT_4BIT),
    }
}

/// IPHC (TF elided, NH compressed, hop limit 64, both addresses elided from the link-layer
/// addresses) + LOWPAN_NHC UDP header; returns the compressed headers (without payload)
fn compressed_headers(form: u8, elide: bool, data: &[u8]) -> Vec<u8> {
    let (sp, dp) = ports(form);
    let mut p = vec![0x7e, 0x33, 0xf0 | if elide { 4 } else { 0 } | form];
    match form {
        0 => {
            p.extend_from_slice(&sp.to_be_bytes());
            p.extend_from_slice(&dp.to_be_bytes());
        }
        1 => {
            p.extend_from_slice(&sp.to_be_bytes());
            p.push(dp as u8);
        }
        2 => {
            p.push(sp as u8);
            p.extend_from_slice(&dp.to_be_bytes());
        }
        _ => p.push((((sp & 0xf) as u8) << 4) | (dp & 0xf) as u8),
    }
    if !elide {
        let seg = build_udp(&PEER6, &MY6, sp, dp, data);
        p.extend_from_slice(&seg[6..8]);
    }
    p
}

#[derive(Clone)]
struct Case {
    name: String,
    elide: bool,
    frames: Vec<Vec<u8>>,
}

fn cases() -> Vec<Case> {
    let mut v = vec![];
    let data: Vec<u8> = (0..13u8).map(|i| 0x61 + i).collect();
    for form in 0..4u8 {
        for elide in [false, true] {
            let mut p = compressed_headers(form, elide, &data);
            p.extend_from_slice(&data);
            v.push(Case { name: format!("nhc-udp-ports-form-{:02b}-{}", form, if elide { "C1-elided" } else { "C0-inline" }), elide, frames: vec![frame154(7, &p)] });
        }
    }
    // FRAG1/FRAGN: 104 payload bytes -> datagram_size 40 + 8 + 104 = 152; FRAG1 carries the headers
    // and 40 payload bytes (uncompressed 88 = 11 * 8), FRAGN the remaining 64 at offset 11
    let big: Vec<u8> = (0..104u8).map(|i| i.wrapping_mul(3).wrapping_add(5)).collect();
    for elide in [false, true] {
        let size = 152u16;
        let hdr = compressed_headers(0, elide, &big);
        let mut f1 = vec![0xc0 | (size >> 8) as u8, size as u8, 0x12, 0x34];
        f1.extend_from_slice(&hdr);
        f1.extend_from_slice(&big[..40]);
        let mut fn_ = vec![0xe0 | (size >> 8) as u8, size as u8, 0x12, 0x34, 11];
        fn_.extend_from_slice(&big[40..]);
        v.push(Case { name: format!("frag1-fragn-nhc-udp-{}", if elide { "C1-elided" } else { "C0-inline" }), elide, frames: vec![frame154(8, &f1), frame154(9, &fn_)] });
    }
    v
}

/// independent verdict on a frame sequence
fn lverdict(frames: &[Vec<u8>], caps: &Caps) -> Verdict {
    let mut r = Reasm::default();
    let mut out = vec![];
    for f in frames {
        match r.feed(f) {
            Err(e) => return Verdict::NA(format!("independent decoder: {}", e)),
            Ok(Some(d)) => out.push(d),
            Ok(None) => {}
        }
    }
    if out.len() != 1 {
        return Verdict::NA(format!("{} complete datagrams", out.len()));
    }
    let d = &out[0];
    let info = classify(&d.bytes);
    if info.ver != 6 {
        return Verdict::NA("not ipv6".into());
    }
    if info.proto == 17 && d.udp_ck_elided {
        return if caps.rx(UDP) { Verdict::MustDrop("udp6-nhc-elided".into()) } else { Verdict::RxOff("udp6-nhc-elided".into()) };
    }
    match info.l4 {
        Ck::Wrong | Ck::UdpZero6 => match Caps::index_for(6, info.proto) {
            Some(ci) if caps.rx(ci) => Verdict::MustDrop(format!("{}-6lowpan", info.proto_name())),
            Some(_) => Verdict::RxOff(info.proto_name().into()),
            None => Verdict::NA("protocol outside the property".into()),
        },
        Ck::Valid => Verdict::StillValid,
        _ => Verdict::NA(info.note.to_string()),
    }
}

#[derive(Default, Clone)]
struct RStats {
    counts: BTreeMap<String, u64>,
    viols: Vec<(String, String, Value)>,
    viol_counts: BTreeMap<String, u64>,
    delivered: u64,
    panics: Vec<String>,
}
impl RStats {
    fn merge(mut self, o: RStats) -> RStats {
        for (k, v) in o.counts {
            *self.counts.entry(k).or_insert(0) += v;
        }
        for (k, v) in o.viol_counts {
            *self.viol_counts.entry(k).or_insert(0) += v;
        }
        for v in o.viols {
            if !self.viols.iter().any(|x| x.0 == v.0) {
                self.viols.push(v);
            }
        }
        for p in o.panics {
            if self.panics.len() < 5 {
                self.panics.push(p);
            }
        }
        self.delivered += o.delivered;
        self
    }
}

fn effect_name(changed: bool, frames: usize) -> &'static str {
    match (changed, frames > 0) {
        (false, false) => "no-effect",
        (true, false) => "socket-changed",
        (false, true) => "reply-emitted",
        (true, true) => "socket-changed+reply-emitted",
    }
}

fn eval(caps: Caps, case: &Case, flips: &[(usize, usize)], st: &mut RStats) {
    let mut frames = case.frames.clone();
    for &(fi, bit) in flips {
        frames[fi][bit / 8] ^= 0x80 >> (bit % 8);
    }
    let v = lverdict(&frames, &caps);
    let r = std::panic::catch_unwind(std::panic::AssertUnwindSafe(|| {
        let mut w = RxWorld::new(caps);
        w.deliver(&frames)
    }));
    st.delivered += 1;
    let eff = match r {
        Ok((ch, out)) => effect_name(ch, out.len()),
        Err(e) => {
            st.panics.push(format!("{} flips {:?}: {} at {}", case.name, flips, panic_msg(e), last_panic_loc()));
            "panic"
        }
    };
    let class = match &v {
        Verdict::MustDrop(w) => format!("checksum-wrong({})", w),
        Verdict::StillValid => "still-valid".into(),
        Verdict::UdpZero4 => "udp4-zero".into(),
        Verdict::RxOff(w) => format!("rx-verification-off({})", w),
        Verdict::NA(_) => "not-assertable".into(),
    };
    *st.counts.entry(format!("{}|{}|{}", case.name, class, eff)).or_insert(0) += 1;
    if let Verdict::MustDrop(which) = &v {
        if eff != "no-effect" {
            let sig = if which == "udp6-nhc-elided" { format!("C08/udp6-nhc-elided-checksum-accepted/{}", eff) } else { format!("C08/bad-checksum-accepted/{}/{}", which, eff) };
            *st.viol_counts.entry(sig.clone()).or_insert(0) += 1;
            if !st.viols.iter().any(|x| x.0 == sig) {
                st.viols.push((
                    sig,
                    format!("Medium::Ieee802154, caps {}: case {} with bits {:?} (frame index, bit) flipped: independent decoder says {}, but delivery to a fresh interface with bound UDP sockets had effect '{}'; frames {:?}", caps.name(), case.name, flips, which, eff, frames.iter().map(|f| hex(f)).collect::<Vec<_>>()),
                    json!({"part":"c6","caps":caps.to_json(),"case":case.name,"flips":flips.iter().map(|&(a,b)| json!([a,b])).collect::<Vec<_>>(),"frames":frames.iter().map(|f| hex(f)).collect::<Vec<_>>()}),
                ));
            }
        }
    }
}

pub fn run(rep: &mut Report, tier: Tier) {
    let thorough = tier == Tier::Thorough;
    let mut total = RStats::default();
    let mut base_table = BTreeMap::new();
    let mut bases = 0u64;
    for caps in [Caps::DEFAULT, Caps([1; 5]), Caps([0, 2, 0, 0, 0])] {
        // control: nothing delivered -> nothing happens
        let (ch, out) = RxWorld::new(caps).deliver(&[]);
        if ch || !out.is_empty() {
            rep.machinery_errors.push("(c/6lowpan) empty poll has an effect".into());
        }
        for case in cases() {
            // intact frames: C=0 must be delivered (non-vacuity); C=1 is itself an asserted input
            let (ch, out) = RxWorld::new(caps).deliver(&case.frames);
            let eff = effect_name(ch, out.len());
            bases += 1;
            base_table.insert(format!("{}|{}", caps.name(), case.name), eff.to_string());
            let v = lverdict(&case.frames, &caps);
            if !case.elide {
                if v != Verdict::StillValid {
                    rep.machinery_errors.push(format!("(c/6lowpan) base {} not valid under the independent decoder: {:?}", case.name, v));
                }
                if eff == "no-effect" {
                    rep.machinery_errors.push(format!("(c/6lowpan) intact frame {} with in-line checksum was not delivered (test would be vacuous)", case.name));
                }
            } else if !matches!(v, Verdict::MustDrop(_) | Verdict::RxOff(_)) {
                rep.machinery_errors.push(format!("(c/6lowpan) base {} not classified as elided: {:?}", case.name, v));
            }
            let mut st = RStats::default();
            eval(caps, &case, &[], &mut st);
            total = total.merge(st);
            // every bit of the 6LoWPAN payload (fragment header, IPHC, NHC, UDP payload) of every frame
            let mut bits: Vec<(usize, usize)> = vec![];
            for (fi, f) in case.frames.iter().enumerate() {
                for b in L2 * 8..f.len() * 8 {
                    bits.push((fi, b));
                }
            }
            let double = thorough && caps == Caps::DEFAULT;
            let st = (0..bits.len())
                .into_par_iter()
                .map(|i| {
                    let mut st = RStats::default();
                    eval(caps, &case, &[bits[i]], &mut st);
                    if double {
                        for j in i + 1..bits.len() {
                            eval(caps, &case, &[bits[i], bits[j]], &mut st);
                        }
                    }
                    st
                })
                .collect::<Vec<_>>()
                .into_iter()
                .fold(RStats::default(), |a, b| a.merge(b));
            total = total.merge(st);
        }
    }
    for (sig, det, r) in &total.viols {
        rep.violation(sig.clone(), det.clone(), r.clone());
    }
    let mut agg: BTreeMap<String, u64> = BTreeMap::new();
    for (k, v) in &total.counts {
        let mut it = k.splitn(3, '|');
        let _ = it.next();
        let class = it.next().unwrap_or("");
        let eff = it.next().unwrap_or("");
        *agg.entry(format!("{} -> {}", class, if eff == "no-effect" { "dropped/no-effect" } else { "accepted/effect" })).or_insert(0) += v;
    }
    rep.add_count("states", total.delivered + bases);
    rep.add_count("transitions", (total.delivered + bases) * 2);
    rep.add_count("traces_validated_against_impl", bases);
    rep.cov(
        "c_enforcement_6lowpan_ingress",
        json!({
            "method": "hand-built 802.15.4 + IPHC + NHC-UDP frames (all four port forms, C=0 and C=1, unfragmented; FRAG1+FRAGN for the 16-bit port form) delivered to a real Medium::Ieee802154 interface with UDP sockets bound to the three destination ports; verdict from the independent decoder of lowpan.rs",
            "flips": "every single bit of the 6LoWPAN payload of every frame; thorough + default capabilities: every pair",
            "capabilities": "default, all-Rx (asserted); udp rx off (recorded)",
            "intact_frame_effects": base_table,
            "mutants_delivered": total.delivered,
            "aggregate": agg,
            "outcomes": total.counts,
            "violating_mutants_per_signature": total.viol_counts,
            "panics": total.panics,
        }),
    );
}

pub fn replay(r: &Value) -> i32 {
    let caps = Caps::from_json(&r["caps"]);
    let frames: Vec<Vec<u8>> = r["frames"].as_array().map(|a| a.iter().map(|x| unhex(x.as_str().unwrap_or(""))).collect()).unwrap_or_default();
    for f in &frames {
        println!("frame {}", hex(f));
    }
    let v = lverdict(&frames, &caps);
    println!("independent verdict: {:?}", v);
    let (ch, out) = RxWorld::new(caps).deliver(&frames);
    println!("effect: {} (socket image changed: {}, frames emitted: {})", effect_name(ch, out.len()), ch, out.len());
    if matches!(v, Verdict::MustDrop(_)) && (ch || !out.is_empty()) {
        println!("violation: datagram without a verifying checksum had an effect");
        1
    } else {
        println!("no violation on replay");
        0
    }
}
