//! In-memory phy::Device and a real smoltcp Interface + SocketSet driven by hand-built packets.

use super::wirex::*;
use smoltcp::iface::{Config, Interface, SocketHandle, SocketSet};
use smoltcp::phy::{self, Checksum, ChecksumCapabilities, Device, DeviceCapabilities, Medium};
use smoltcp::socket::{icmp, tcp, udp};
use smoltcp::time::Instant;
use smoltcp::wire::{EthernetAddress, HardwareAddress, IpAddress, IpCidr};
use std::collections::VecDeque;

pub const MY4: [u8; 4] = [192, 168, 69, 1];
pub const PEER4: [u8; 4] = [192, 168, 69, 2];
pub const OTHER4: [u8; 4] = [192, 168, 69, 77];
pub const MY6: [u8; 16] = [0xfe, 0x80, 0, 0, 0, 0, 0, 0, 0, 0, 0, 0, 0, 0, 0, 1];
pub const PEER6: [u8; 16] = [0xfe, 0x80, 0, 0, 0, 0, 0, 0, 0, 0, 0, 0, 0, 0, 0, 2];
pub const OTHER6: [u8; 16] = [0xfe, 0x80, 0, 0, 0, 0, 0, 0, 0, 0, 0, 0, 0, 0, 0, 0x77];
pub const MY_MAC: [u8; 6] = [2, 0, 0, 0, 0, 1];
pub const PEER_MAC: [u8; 6] = [2, 0, 0, 0, 0, 2];

pub const UDP_PORT: u16 = 7000;
pub const TCP_LISTEN: u16 = 80;
pub const TCP_X: u16 = 81;
pub const ICMP_IDENT: u16 = 0x1234;
pub const PEER_PORT: u16 = 4000;
pub const PEER_ISN: u32 = 0x1000_0000;

#[derive(Clone, Copy, PartialEq, Eq, Debug)]
pub enum Ver {
    V4,
    V6,
}
impl Ver {
    pub fn n(self) -> u8 {
        match self {
            Ver::V4 => 4,
            Ver::V6 => 6,
        }
    }
    pub fn from_n(n: u64) -> Ver {
        if n == 6 {
            Ver::V6
        } else {
            Ver::V4
        }
    }
    pub fn my(self) -> &'static [u8] {
        match self {
            Ver::V4 => &MY4,
            Ver::V6 => &MY6,
        }
    }
    pub fn peer(self) -> &'static [u8] {
        match self {
            Ver::V4 => &PEER4,
            Ver::V6 => &PEER6,
        }
    }
    pub fn other(self) -> &'static [u8] {
        match self {
            Ver::V4 => &OTHER4,
            Ver::V6 => &OTHER6,
        }
    }
    pub fn iphdr(self) -> usize {
        match self {
            Ver::V4 => 20,
            Ver::V6 => 40,
        }
    }
}
pub fn ipaddr(b: &[u8]) -> IpAddress {
    if b.len() == 4 {
        let a: [u8; 4] = b.try_into().unwrap();
        IpAddress::Ipv4(a.into())
    } else {
        let a: [u8; 16] = b.try_into().unwrap();
        IpAddress::Ipv6(a.into())
    }
}

/// Per-protocol checksum setting, order: ipv4, udp, tcp, icmpv4, icmpv6; value 0=Both 1=Rx 2=Tx 3=None
#[derive(Clone, Copy, PartialEq, Eq, Debug, PartialOrd, Ord)]
pub struct Caps(pub [u8; 5]);
pub const IPV4: usize = 0;
pub const UDP: usize = 1;
pub const TCP: usize = 2;
pub const ICMPV4: usize = 3;
pub const ICMPV6: usize = 4;
impl Caps {
    pub const DEFAULT: Caps = Caps([0; 5]);
    pub fn rx(&self, i: usize) -> bool {
        matches!(self.0[i], 0 | 1)
    }
    pub fn tx(&self, i: usize) -> bool {
        matches!(self.0[i], 0 | 2)
    }
    fn one(v: u8) -> Checksum {
        match v {
            0 => Checksum::Both,
            1 => Checksum::Rx,
            2 => Checksum::Tx,
            _ => Checksum::None,
        }
    }
    pub fn mk(&self) -> ChecksumCapabilities {
        let mut c = ChecksumCapabilities::default();
        c.ipv4 = Self::one(self.0[0]);
        c.udp = Self::one(self.0[1]);
        c.tcp = Self::one(self.0[2]);
        c.icmpv4 = Self::one(self.0[3]);
        c.icmpv6 = Self::one(self.0[4]);
        c
    }
    pub fn name(&self) -> String {
        let n = ["Both", "Rx", "Tx", "None"];
        format!("ipv4={},udp={},tcp={},icmpv4={},icmpv6={}", n[self.0[0] as usize], n[self.0[1] as usize], n[self.0[2] as usize], n[self.0[3] as usize], n[self.0[4] as usize])
    }
    pub fn to_json(&self) -> serde_json::Value {
        serde_json::json!(self.0)
    }
    pub fn from_json(v: &serde_json::Value) -> Caps {
        let mut c = [0u8; 5];
        if let Some(a) = v.as_array() {
            for (i, x) in a.iter().enumerate().take(5) {
                c[i] = x.as_u64().unwrap_or(0) as u8;
            }
        }
        Caps(c)
    }
    /// index of the capability that governs the given (ip version, protocol number)
    pub fn index_for(ver: u8, proto: u8) -> Option<usize> {
        match (ver, proto) {
            (4, 1) => Some(ICMPV4),
            (6, 58) => Some(ICMPV6),
            (_, 17) => Some(UDP),
            (_, 6) => Some(TCP),
            _ => None,
        }
    }
}

pub struct Dev {
    pub rx: VecDeque<Vec<u8>>,
    pub tx: Vec<Vec<u8>>,
    pub medium: Medium,
    pub mtu: usize,
    pub caps: ChecksumCapabilities,
    /// DeviceCapabilities::max_burst_size
    pub burst: Option<usize>,
}
pub struct DevRx(Vec<u8>);
pub struct DevTx<'a>(&'a mut Vec<Vec<u8>>);
impl phy::RxToken for DevRx {
    fn consume<R, F: FnOnce(&[u8]) -> R>(self, f: F) -> R {
        f(&self.0)
    }
}
impl<'a> phy::TxToken for DevTx<'a> {
    fn consume<R, F: FnOnce(&mut [u8]) -> R>(self, len: usize, f: F) -> R {
        let mut b = vec![0u8; len];
        let r = f(&mut b);
        self.0.push(b);
        r
    }
}
impl Device for Dev {
    type RxToken<'a> = DevRx;
    type TxToken<'a> = DevTx<'a>;
    fn receive(&mut self, _t: Instant) -> Option<(DevRx, DevTx<'_>)> {
        let b = self.rx.pop_front()?;
        Some((DevRx(b), DevTx(&mut self.tx)))
    }
    fn transmit(&mut self, _t: Instant) -> Option<DevTx<'_>> {
        Some(DevTx(&mut self.tx))
    }
    fn capabilities(&self) -> DeviceCapabilities {
        let mut c = DeviceCapabilities::default();
        c.medium = self.medium;
        c.max_transmission_unit = self.mtu;
        c.checksum = self.caps.clone();
        c.max_burst_size = self.burst;
        c
    }
}

pub fn medium_name(m: Medium) -> &'static str {
    match m {
        Medium::Ethernet => "ethernet",
        Medium::Ip => "ip",
        _ => "other",
    }
}
pub fn medium_from(s: &str) -> Medium {
    if s == "ethernet" {
        Medium::Ethernet
    } else {
        Medium::Ip
    }
}

pub struct World {
    pub dev: Dev,
    pub iface: Interface,
    pub sockets: SocketSet<'static>,
    pub now_ms: i64,
    pub medium: Medium,
    pub udp: SocketHandle,
    pub icmp: SocketHandle,
    pub tcp_l: SocketHandle,
    pub tcp_x: SocketHandle,
    /// frames emitted while booting (MLD reports, ARP reply, NA)
    pub boot_frames: Vec<Vec<u8>>,
}

impl World {
    /// `ip_mtu`: IP MTU (the Ethernet device gets +14). `buf`: socket buffer payload size.
    pub fn new(medium: Medium, caps: Caps, ip_mtu: usize, buf: usize) -> World {
        World::new_ext(medium, caps, ip_mtu, buf, None, buf)
    }
    /// `burst`: DeviceCapabilities::max_burst_size; `tcp_rx`: receive buffer size of the TCP sockets
    pub fn new_ext(medium: Medium, caps: Caps, ip_mtu: usize, buf: usize, burst: Option<usize>, tcp_rx: usize) -> World {
        let mtu = if medium == Medium::Ethernet { ip_mtu + 14 } else { ip_mtu };
        let mut dev = Dev { rx: VecDeque::new(), tx: vec![], medium, mtu, caps: caps.mk(), burst };
        let hw = match medium {
            Medium::Ethernet => HardwareAddress::Ethernet(EthernetAddress(MY_MAC)),
            _ => HardwareAddress::Ip,
        };
        let mut config = Config::new(hw);
        config.random_seed = 0;
        let mut iface = Interface::new(config, &mut dev, Instant::from_millis(1000));
        iface.update_ip_addrs(|a| {
            a.push(IpCidr::new(ipaddr(&MY4), 24)).unwrap();
            a.push(IpCidr::new(ipaddr(&MY6), 64)).unwrap();
        });
        let mut sockets = SocketSet::new(vec![]);
        let mut u = udp::Socket::new(
            udp::PacketBuffer::new(vec![udp::PacketMetadata::EMPTY; 2], vec![0u8; buf]),
            udp::PacketBuffer::new(vec![udp::PacketMetadata::EMPTY; 2], vec![0u8; buf]),
        );
        u.bind(UDP_PORT).unwrap();
        let udp = sockets.add(u);
        let mut ic = icmp::Socket::new(
            icmp::PacketBuffer::new(vec![icmp::PacketMetadata::EMPTY; 2], vec![0u8; buf + 8]),
            icmp::PacketBuffer::new(vec![icmp::PacketMetadata::EMPTY; 2], vec![0u8; buf + 8]),
        );
        ic.bind(icmp::Endpoint::Ident(ICMP_IDENT)).unwrap();
        let icmp = sockets.add(ic);
        let mut tl = tcp::Socket::new(tcp::SocketBuffer::new(vec![0u8; tcp_rx]), tcp::SocketBuffer::new(vec![0u8; buf]));
        tl.listen(TCP_LISTEN).unwrap();
        let tcp_l = sockets.add(tl);
        let tx = tcp::Socket::new(tcp::SocketBuffer::new(vec![0u8; tcp_rx]), tcp::SocketBuffer::new(vec![0u8; buf]));
        let tcp_x = sockets.add(tx);
        let mut w = World { dev, iface, sockets, now_ms: 1000, medium, udp, icmp, tcp_l, tcp_x, boot_frames: vec![] };
        w.poll();
        if medium == Medium::Ethernet {
            // teach the neighbor cache both peer addresses the way a real peer would
            let arp = build_arp_request(&PEER_MAC, &PEER4, &MY4);
            w.dev.rx.push_back(eth_wrap(&[0xff; 6], &PEER_MAC, 0x0806, &arp));
            let mut sol = [0xffu8, 2, 0, 0, 0, 0, 0, 0, 0, 0, 0, 1, 0xff, 0, 0, 0];
            sol[13..16].copy_from_slice(&MY6[13..16]);
            let ns = build_ns(&PEER6, &sol, &MY6, &PEER_MAC);
            let mut ip = build_ip(&PEER6, &sol, 58, &ns);
            set_hop_limit(&mut ip, 255);
            w.dev.rx.push_back(eth_wrap(&[0x33, 0x33, sol[12], sol[13], sol[14], sol[15]], &PEER_MAC, 0x86dd, &ip));
            w.poll();
        }
        w.boot_frames = w.drain();
        w
    }
    pub fn now(&self) -> Instant {
        Instant::from_millis(self.now_ms)
    }
    pub fn poll(&mut self) {
        let t = self.now();
        self.iface.poll(t, &mut self.dev, &mut self.sockets);
    }
    pub fn advance(&mut self, ms: i64) {
        self.now_ms += ms;
        self.poll();
    }
    /// queue an IP packet from the peer (adds the Ethernet header when needed)
    pub fn inject_ip(&mut self, ip: &[u8]) {
        let f = match self.medium {
            Medium::Ethernet => {
                let et = if !ip.is_empty() && ip[0] >> 4 == 6 { 0x86dd } else { 0x0800 };
                eth_wrap(&MY_MAC, &PEER_MAC, et, ip)
            }
            _ => ip.to_vec(),
        };
        self.dev.rx.push_back(f);
    }
    /// inject + poll + return emitted raw frames
    pub fn deliver(&mut self, ip: &[u8]) -> Vec<Vec<u8>> {
        self.inject_ip(ip);
        self.poll();
        self.drain()
    }
    pub fn drain(&mut self) -> Vec<Vec<u8>> {
        std::mem::take(&mut self.dev.tx)
    }
    pub fn debug(&self) -> String {
        format!("{:?}", self.sockets)
    }
    /// server-side handshake on tcp_x (port TCP_X) with the peer; returns the stack's ISN
    pub fn establish_x(&mut self, ver: Ver) -> Result<u32, String> {
        self.sockets.get_mut::<tcp::Socket>(self.tcp_x).listen(TCP_X).map_err(|e| format!("listen: {:?}", e))?;
        let (me, peer) = (ver.my(), ver.peer());
        let syn = build_tcp(peer, me, PEER_PORT, TCP_X, PEER_ISN, 0, SYN, 1024, &[2, 4, 0x02, 0x00], &[]);
        let out = self.deliver(&build_ip(peer, me, 6, &syn));
        let mut isn = None;
        for f in &out {
            if let Some(ip) = ip_of(self.medium, f) {
                let i = classify(ip);
                if i.proto == 6 && i.l4_end >= i.l4_off + 20 && ip[i.l4_off + 13] & (SYN | ACK) == (SYN | ACK) {
                    isn = Some(get32(&ip[i.l4_off + 4..i.l4_off + 8]));
                }
            }
        }
        let isn = isn.ok_or_else(|| format!("no SYN-ACK emitted ({} frames)", out.len()))?;
        let ack = build_tcp(peer, me, PEER_PORT, TCP_X, PEER_ISN.wrapping_add(1), isn.wrapping_add(1), ACK, 1024, &[], &[]);
        let out2 = self.deliver(&build_ip(peer, me, 6, &ack));
        let st = self.sockets.get::<tcp::Socket>(self.tcp_x).state();
        if st != tcp::State::Established {
            return Err(format!("socket state {:?} after handshake", st));
        }
        if !out2.is_empty() {
            return Err("unexpected frames after handshake ACK".into());
        }
        Ok(isn)
    }
}

/// IP packet inside a raw frame (None: ARP or not IP)
pub fn ip_of(medium: Medium, frame: &[u8]) -> Option<&[u8]> {
    match medium {
        Medium::Ethernet => {
            if frame.len() < 14 {
                return None;
            }
            match get16(&frame[12..14]) {
                0x0800 | 0x86dd => Some(&frame[14..]),
                _ => None,
            }
        }
        _ => Some(frame),
    }
}
