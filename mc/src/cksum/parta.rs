//! Part (a): smoltcp::wire::checksum::{data, combine, pseudo_header*} against the independent
//! RFC 1071 reference, bounded-exhaustive.

use super::wirex::*;
use crate::core::*;
use rayon::prelude::*;
use serde_json::{json, Value};
use smoltcp::wire::checksum as sck;
use smoltcp::wire::{IpAddress, IpProtocol};
use std::net::{Ipv4Addr, Ipv6Addr};
use std::sync::atomic::{AtomicU64, Ordering::Relaxed};
use std::sync::Mutex;

#[derive(PartialEq)]
enum Cmp {
    Exact,
    /// 0x0000 vs 0xffff: the two representations of zero in one's-complement arithmetic.
    /// Lenient reading: "equals the one's-complement sum" is equality of one's-complement
    /// numbers, so this is counted, not reported.
    ZeroRep,
    Mismatch,
}
fn cmp(got: u16, want: u16) -> Cmp {
    if got == want {
        Cmp::Exact
    } else if (got == 0 || got == 0xffff) && (want == 0 || want == 0xffff) {
        Cmp::ZeroRep
    } else {
        Cmp::Mismatch
    }
}

pub fn content(kind: &str, len: usize, pos: usize, val: u8) -> Vec<u8> {
    let mut v = vec![0u8; len];
    match kind {
        "zeros" => {}
        "ff" => v.iter_mut().for_each(|b| *b = 0xff),
        "counting" => v.iter_mut().enumerate().for_each(|(i, b)| *b = i as u8),
        "onehot" => v[pos] = val,
        _ => panic!("content kind"),
    }
    v
}

/// Evaluate smoltcp `checksum::data` on a slice that starts at address ≡ `align` (mod 8).
pub fn eval_data_aligned(bytes: &[u8], align: usize) -> u16 {
    let mut back = vec![0u8; bytes.len() + 16];
    let pad = (8 - (back.as_ptr() as usize) % 8) % 8 + align;
    back[pad..pad + bytes.len()].copy_from_slice(bytes);
    sck::data(&back[pad..pad + bytes.len()])
}

struct Acc {
    states: AtomicU64,
    evals: AtomicU64,
    zero_rep: AtomicU64,
    mism: Mutex<Vec<(String, String, Value)>>,
}
impl Acc {
    fn bad(&self, len: usize, align: usize, kind: &str, pos: usize, val: u8, got: u16, want: u16) {
        let cls = if len > 4096 { "len>4096" } else { "len<=4096" };
        let sig = format!("C08/data-mismatch/len-mod4-{}/{}/{}", len % 4, kind, cls);
        let mut m = self.mism.lock().unwrap();
        if m.len() < 10_000 {
            m.push((
                sig,
                format!("checksum::data(len={}, align={}, content={} pos={} val={:#x}) = {:#06x}, RFC 1071 reference = {:#06x}", len, align, kind, pos, val, got, want),
                json!({"part":"a-data","len":len,"align":align,"kind":kind,"pos":pos,"val":val}),
            ));
        }
    }
}

fn check_len(len: usize, onehot: Option<(usize, usize)>, patterns: &[&str], aligns: &[usize], acc: &Acc) {
    let mut back = vec![0u8; len + 16];
    let base = (8 - (back.as_ptr() as usize) % 8) % 8;
    let mut st = 0u64;
    let mut ev = 0u64;
    for &a in aligns {
        let lo = base + a;
        for &kind in patterns {
            let c = content(kind, len, 0, 0);
            back[lo..lo + len].copy_from_slice(&c);
            let got = sck::data(&back[lo..lo + len]);
            let want = ref_sum(&c);
            st += 1;
            ev += 1;
            match cmp(got, want) {
                Cmp::Exact => {}
                Cmp::ZeroRep => {
                    acc.zero_rep.fetch_add(1, Relaxed);
                }
                Cmp::Mismatch => acc.bad(len, a, kind, 0, 0, got, want),
            }
        }
        if let Some((plo, phi)) = onehot {
            back[lo..lo + len].iter_mut().for_each(|b| *b = 0);
            for pos in plo..phi.min(len) {
                for val in [1u8, 0x80, 0xff] {
                    back[lo + pos] = val;
                    let got = sck::data(&back[lo..lo + len]);
                    // closed form of the RFC 1071 sum of a one-hot buffer (cross-checked against
                    // ref_sum below for a subset): high byte of its word if pos is even
                    let want: u16 = if pos % 2 == 0 { (val as u16) << 8 } else { val as u16 };
                    if len <= 64 || pos < 2 || pos + 2 >= len {
                        assert_eq!(want, ref_sum(&back[lo..lo + len]), "closed form disagrees with ref_sum");
                    }
                    st += 1;
                    ev += 1;
                    if cmp(got, want) == Cmp::Mismatch {
                        acc.bad(len, a, "onehot", pos, val, got, want);
                    }
                }
                back[lo + pos] = 0;
            }
        }
    }
    acc.states.fetch_add(st, Relaxed);
    acc.evals.fetch_add(ev, Relaxed);
}

fn ref_combine(v: &[u16]) -> u16 {
    fold(v.iter().map(|&x| x as u64).sum())
}

pub fn boundary_u16_4096() -> Vec<u16> {
    let mut v: Vec<u16> = vec![];
    v.extend(0u16..1024);
    v.extend(0x7c00u16..0x8400);
    v.extend(0xfc00u16..=0xffff);
    v
}

pub fn run(rep: &mut Report, tier: Tier) {
    let thorough = tier == Tier::Thorough;
    let acc = Acc { states: AtomicU64::new(0), evals: AtomicU64::new(0), zero_rep: AtomicU64::new(0), mism: Mutex::new(vec![]) };
    let aligns: Vec<usize> = (0..8).collect();
    let max_small = if thorough { 4096 } else { 1024 };
    // longest first for load balance
    let lens: Vec<usize> = (0..=max_small).rev().collect();
    lens.par_iter().for_each(|&l| check_len(l, Some((0, l)), &["zeros", "ff", "counting"], &aligns, &acc));
    let small_states = acc.states.load(Relaxed);
    // long lengths: all-0xFF (carry saturation) and counting
    let long: Vec<usize> = if thorough {
        (max_small + 1..=65535).collect()
    } else {
        let mut s = std::collections::BTreeSet::new();
        for k in 10..=16u32 {
            let p = 1usize << k;
            for d in -3i64..=3 {
                let x = p as i64 + d;
                if x > max_small as i64 && x <= 65535 {
                    s.insert(x as usize);
                }
            }
        }
        for m in (max_small + 1..=65535).step_by(4093) {
            for d in 0..4 {
                if m + d <= 65535 {
                    s.insert(m + d);
                }
            }
        }
        for x in 65528..=65535 {
            s.insert(x);
        }
        s.into_iter().collect()
    };
    long.par_iter().for_each(|&l| check_len(l, None, &["ff", "counting", "zeros"], &aligns, &acc));
    // one-hot at the top of the length range (thorough): every position x {1,0x80,0xff}
    let top: Vec<usize> = if thorough { vec![65532, 65533, 65534, 65535] } else { vec![] };
    let top_tasks: Vec<(usize, usize)> = top.iter().flat_map(|&l| (0..l).step_by(1024).map(move |p| (l, p))).collect();
    top_tasks.par_iter().for_each(|&(l, p)| check_len(l, Some((p, p + 1024)), &[], &[0], &acc));
    let data_states = acc.states.load(Relaxed);
    rep.cov(
        "a_data",
        json!({
            "lengths_full_onehot": format!("0..={}", max_small),
            "alignments": 8,
            "contents": "zeros, 0xFF, counting, one-hot at every position x {0x01,0x80,0xFF}",
            "inputs_len_small": small_states,
            "long_lengths": long.len(), "long_range": format!("{}..=65535{}", max_small + 1, if thorough {" (all)"} else {" (boundary subset: 2^k±3, stride 4093 +0..3, 65528..=65535)"}),
            "long_contents": "0xFF, counting, zeros x 8 alignments",
            "onehot_top_lengths": top,
            "inputs_total": data_states,
            "zero_representation_only_differences": acc.zero_rep.load(Relaxed),
        }),
    );

    // ---- combine
    let comb_evals = AtomicU64::new(0);
    let comb_bad: Mutex<Vec<Vec<u16>>> = Mutex::new(vec![]);
    let chk = |v: &[u16]| {
        let got = sck::combine(v);
        let want = ref_combine(v);
        if cmp(got, want) == Cmp::Mismatch {
            let mut b = comb_bad.lock().unwrap();
            if b.len() < 100 {
                b.push(v.to_vec());
            }
        }
    };
    let pair_domain;
    if thorough {
        (0u32..65536).into_par_iter().for_each(|a| {
            for b in 0u32..65536 {
                chk(&[a as u16, b as u16]);
            }
            comb_evals.fetch_add(65536, Relaxed);
        });
        pair_domain = "all 2^32 ordered pairs".to_string();
    } else {
        let set = boundary_u16_4096();
        set.par_iter().for_each(|&a| {
            for &b in &set {
                chk(&[a, b]);
            }
            comb_evals.fetch_add(set.len() as u64, Relaxed);
        });
        pair_domain = format!("{}^2 ordered pairs over 0..1024 ∪ 0x7c00..0x8400 ∪ 0xfc00..=0xffff", set.len());
    }
    let pairs = comb_evals.load(Relaxed);
    let tset: Vec<u16> = {
        let mut s = std::collections::BTreeSet::new();
        for k in 0..16 {
            let p = 1u32 << k;
            for d in [-1i32, 0, 1] {
                let x = p as i32 + d;
                if (0..=0xffff).contains(&x) {
                    s.insert(x as u16);
                }
            }
        }
        for x in [0xfffeu16, 0xffff, 0x7fff, 0x8000, 0xff00, 0x00ff, 0xaaaa, 0x5555, 0x1234] {
            s.insert(x);
        }
        s.into_iter().collect()
    };
    tset.par_iter().for_each(|&a| {
        for &b in &tset {
            for &c in &tset {
                chk(&[a, b, c]);
            }
        }
        comb_evals.fetch_add((tset.len() * tset.len()) as u64, Relaxed);
    });
    // slices of length 0..=8 of boundary values (all equal, and a ramp)
    let mut misc = 0u64;
    for n in 0..=8usize {
        for &x in &tset {
            chk(&vec![x; n]);
            let ramp: Vec<u16> = (0..n).map(|i| x.wrapping_add((i as u16).wrapping_mul(0x1111))).collect();
            chk(&ramp);
            misc += 2;
        }
    }
    comb_evals.fetch_add(misc, Relaxed);
    for v in comb_bad.lock().unwrap().iter() {
        rep.violation(
            format!("C08/combine-mismatch/n{}", v.len()),
            format!("checksum::combine({:x?}) = {:#06x}, reference = {:#06x}", v, sck::combine(v), ref_combine(v)),
            json!({"part":"a-combine","values":v}),
        );
    }
    rep.cov("a_combine", json!({"pairs": pair_domain, "pair_evals": pairs, "triple_set_size": tset.len(), "triples": tset.len().pow(3), "slices_len_0_to_8": misc}));

    // ---- pseudo headers
    let a4: Vec<[u8; 4]> = vec![[0, 0, 0, 0], [255, 255, 255, 255], [0, 0, 0, 1], [128, 0, 0, 0], [127, 255, 255, 255], [192, 168, 1, 1], [1, 2, 3, 4], [255, 255, 0, 0], [0, 0, 255, 255], [0xff, 0, 0xff, 0]];
    let mut a6: Vec<[u8; 16]> = vec![[0; 16], [0xff; 16]];
    for i in 0..16 {
        let mut x = [0u8; 16];
        x[i] = 0xff;
        a6.push(x);
        let mut y = [0xffu8; 16];
        y[i] = 0;
        a6.push(y);
    }
    a6.push([0xfe, 0x80, 0, 0, 0, 0, 0, 0, 0, 0, 0, 0, 0, 0, 0, 1]);
    a6.push([0x20, 1, 0x0d, 0xb8, 1, 2, 3, 4, 5, 6, 7, 8, 9, 10, 11, 12]);
    let protos: [u8; 8] = [0, 1, 6, 17, 58, 0x80, 0xfe, 0xff];
    let plens: Vec<u32> = vec![0, 1, 2, 7, 8, 20, 255, 256, 257, 1480, 32767, 32768, 65534, 65535];
    let mut pevals = 0u64;
    let mut precorded = 0u64;
    for s in &a4 {
        for d in &a4 {
            for &p in &protos {
                for &l in &plens {
                    let sa = Ipv4Addr::from(*s);
                    let da = Ipv4Addr::from(*d);
                    let got = sck::pseudo_header_v4(&sa, &da, IpProtocol::from(p), l);
                    let got2 = sck::pseudo_header(&IpAddress::Ipv4(sa), &IpAddress::Ipv4(da), IpProtocol::from(p), l);
                    let want = fold(pseudo_words(s, d, p, l));
                    pevals += 2;
                    if cmp(got, want) == Cmp::Mismatch || got2 != got {
                        rep.violation(
                            "C08/pseudo-header-mismatch/v4",
                            format!("pseudo_header_v4({:?},{:?},{},{}) = {:#06x}/{:#06x}, reference {:#06x}", s, d, p, l, got, got2, want),
                            json!({"part":"a-pseudo","v":4,"src":s,"dst":d,"proto":p,"len":l}),
                        );
                    }
                }
            }
        }
    }
    for s in &a6 {
        for d in &a6 {
            for &p in &protos {
                for &l in &plens {
                    let sa = Ipv6Addr::from(*s);
                    let da = Ipv6Addr::from(*d);
                    let got = sck::pseudo_header_v6(&sa, &da, IpProtocol::from(p), l);
                    let got2 = sck::pseudo_header(&IpAddress::Ipv6(sa), &IpAddress::Ipv6(da), IpProtocol::from(p), l);
                    let want = fold(pseudo_words(s, d, p, l));
                    pevals += 2;
                    if cmp(got, want) == Cmp::Mismatch || got2 != got {
                        rep.violation(
                            "C08/pseudo-header-mismatch/v6",
                            format!("pseudo_header_v6({:x?},{:x?},{},{}) = {:#06x}/{:#06x}, reference {:#06x}", s, d, p, l, got, got2, want),
                            json!({"part":"a-pseudo","v":6,"src":s,"dst":d,"proto":p,"len":l}),
                        );
                    }
                }
            }
        }
    }
    // lengths above 65535 (IPv6 jumbograms, which smoltcp does not support): recorded only — the
    // property bounds lengths by 65535
    let mut jumbo_differs = 0u64;
    for &l in &[65536u32, 65537, 0x1_0001, 0xffff_ffff] {
        let s = a6[34];
        let d = a6[35];
        let got = sck::pseudo_header_v6(&Ipv6Addr::from(s), &Ipv6Addr::from(d), IpProtocol::from(17), l);
        precorded += 1;
        if got != fold(pseudo_words(&s, &d, 17, l)) {
            jumbo_differs += 1;
        }
    }
    rep.cov(
        "a_pseudo",
        json!({"v4_addrs": a4.len(), "v6_addrs": a6.len(), "protocols": protos, "lengths": plens, "evals": pevals,
               "recorded_only_len_gt_65535": {"cases": precorded, "differ_from_rfc8200_32bit_length": jumbo_differs}}),
    );

    let mism = std::mem::take(&mut *acc.mism.lock().unwrap());
    let mut mism = mism;
    mism.sort_by(|a, b| (a.0.clone(), a.2["len"].as_u64(), a.2["align"].as_u64(), a.2["pos"].as_u64(), a.2["val"].as_u64()).cmp(&(b.0.clone(), b.2["len"].as_u64(), b.2["align"].as_u64(), b.2["pos"].as_u64(), b.2["val"].as_u64())));
    for (sig, det, r) in mism {
        rep.violation(sig, det, r);
    }
    let total_inputs = data_states + comb_evals.load(Relaxed) + pevals / 2;
    let total_evals = acc.evals.load(Relaxed) + comb_evals.load(Relaxed) + pevals + precorded;
    rep.add_count("states", total_inputs);
    rep.add_count("transitions", total_evals);
    rep.add_count("evaluations", total_evals);
    rep.cov("a_counts", json!({"inputs": total_inputs, "evaluations_of_smoltcp_checksum_code": total_evals}));
    rep.samples.push(json!({"part":"a","case":"data(len=5, align=3, counting 00 01 02 03 04)","smoltcp": format!("{:#06x}", eval_data_aligned(&[0,1,2,3,4], 3)), "reference": format!("{:#06x}", ref_sum(&[0,1,2,3,4]))}));
    let big = vec![0xffu8; 65535];
    rep.samples.push(json!({"part":"a","case":"data(len=65535, all 0xFF)","smoltcp": format!("{:#06x}", sck::data(&big)), "reference": format!("{:#06x}", ref_sum(&big))}));
    rep.samples.push(json!({"part":"a","case":"combine([0xffff,0xffff,0xffff])","smoltcp": format!("{:#06x}", sck::combine(&[0xffff,0xffff,0xffff])), "reference": format!("{:#06x}", ref_combine(&[0xffff,0xffff,0xffff]))}));
}

pub fn replay(r: &Value) -> i32 {
    match r["part"].as_str().unwrap_or("") {
        "a-data" => {
            let len = r["len"].as_u64().unwrap_or(0) as usize;
            let align = r["align"].as_u64().unwrap_or(0) as usize;
            let kind = r["kind"].as_str().unwrap_or("zeros");
            let pos = r["pos"].as_u64().unwrap_or(0) as usize;
            let val = r["val"].as_u64().unwrap_or(0) as u8;
            let c = content(kind, len, pos, val);
            let got = eval_data_aligned(&c, align);
            let want = ref_sum(&c);
            println!("checksum::data(len={}, align={}, {}) = {:#06x}; reference {:#06x}", len, align, kind, got, want);
            (cmp(got, want) == Cmp::Mismatch) as i32
        }
        "a-combine" => {
            let v: Vec<u16> = r["values"].as_array().map(|a| a.iter().map(|x| x.as_u64().unwrap_or(0) as u16).collect()).unwrap_or_default();
            let got = sck::combine(&v);
            let want = ref_combine(&v);
            println!("combine({:x?}) = {:#06x}; reference {:#06x}", v, got, want);
            (cmp(got, want) == Cmp::Mismatch) as i32
        }
        "a-pseudo" => {
            let bytes = |k: &str| -> Vec<u8> { r[k].as_array().map(|a| a.iter().map(|x| x.as_u64().unwrap_or(0) as u8).collect()).unwrap_or_default() };
            let (s, d) = (bytes("src"), bytes("dst"));
            let p = r["proto"].as_u64().unwrap_or(0) as u8;
            let l = r["len"].as_u64().unwrap_or(0) as u32;
            let got = if s.len() == 4 {
                let sa: [u8; 4] = s.clone().try_into().unwrap();
                let da: [u8; 4] = d.clone().try_into().unwrap();
                sck::pseudo_header_v4(&sa.into(), &da.into(), IpProtocol::from(p), l)
            } else {
                let sa: [u8; 16] = s.clone().try_into().unwrap();
                let da: [u8; 16] = d.clone().try_into().unwrap();
                sck::pseudo_header_v6(&sa.into(), &da.into(), IpProtocol::from(p), l)
            };
            let want = fold(pseudo_words(&s, &d, p, l));
            println!("pseudo_header = {:#06x}; reference {:#06x}", got, want);
            (cmp(got, want) == Cmp::Mismatch) as i32
        }
        _ => 2,
    }
}
