//! Part (c): enforcement. Valid packets that provably have an effect are corrupted by every
//! single-bit (and, thorough, every double-bit) flip; whenever the independent verifier says a
//! checksum that the configuration verifies on rx is now wrong, a fresh identically prepared
//! interface must show no effect (SocketSet Debug image unchanged, no frame emitted).

use super::wirex::*;
use super::world::*;
use crate::core::*;
use rayon::prelude::*;
use serde_json::{json, Value};
use smoltcp::phy::Medium;
use std::collections::BTreeMap;

#[derive(Clone, Copy, Debug)]
pub struct Cfg {
    pub medium: Medium,
    pub caps: Caps,
    pub ver: Ver,
    /// 0: standard world; 1: dhcpv4 client waiting for an OFFER; 2: waiting for the ACK of its REQUEST
    pub dhcp: u8,
}
impl Cfg {
    fn name(&self) -> String {
        format!("{}/v{}/{}{}", medium_name(self.medium), self.ver.n(), self.caps.name(), match self.dhcp { 1 => "/dhcp-discovering", 2 => "/dhcp-requesting", _ => "" })
    }
}

const CBUF: usize = 64;

pub const DHCP_SERVER: [u8; 4] = PEER4;
pub const DHCP_OFFERED: [u8; 4] = [192, 168, 69, 50];

fn dhcp_reply(msg_type: u8, xid: u32) -> Vec<u8> {
    let d = build_dhcp_reply(msg_type, xid, &MY_MAC, &DHCP_OFFERED, &DHCP_SERVER);
    let u = build_udp(&DHCP_SERVER, &[255, 255, 255, 255], 67, 68, &d);
    build_ip(&DHCP_SERVER, &[255, 255, 255, 255], 17, &u)
}

/// returns the world, the stack's TCP ISN on the established socket and (dhcp) the client's xid
fn make_world(cfg: &Cfg) -> Result<(World, u32, u32), String> {
    let mut w = World::new(cfg.medium, cfg.caps, 1500, CBUF);
    let isn = w.establish_x(cfg.ver)?;
    let mut xid = 0;
    if cfg.dhcp > 0 {
        if cfg.medium != Medium::Ethernet {
            return Err("dhcp needs Medium::Ethernet".into());
        }
        w.sockets.add(smoltcp::socket::dhcpv4::Socket::new());
        w.poll();
        let out = w.drain();
        let mut found = false;
        for f in &out {
            // Ethernet + IPv4 + UDP(68->67) + BOOTP: xid at BOOTP offset 4
            if f.len() >= 14 + 20 + 8 + 8 && get16(&f[12..14]) == 0x0800 && f[14 + 9] == 17 && get16(&f[14 + 20 + 2..]) == 67 {
                xid = get32(&f[14 + 20 + 8 + 4..]);
                found = true;
            }
        }
        if !found {
            return Err(format!("no DHCPDISCOVER emitted ({} frames)", out.len()));
        }
        if cfg.dhcp == 2 {
            let out = w.deliver(&dhcp_reply(2, xid));
            let req = out.iter().any(|f| f.len() >= 14 + 20 + 8 + 8 && get16(&f[12..14]) == 0x0800 && f[14 + 9] == 17 && get16(&f[14 + 20 + 2..]) == 67);
            if !req {
                return Err("no DHCPREQUEST emitted after the OFFER".into());
            }
        }
    }
    Ok((w, isn, xid))
}

pub fn base_cases(cfg: &Cfg, isn: u32, xid: u32) -> Vec<(&'static str, Vec<u8>)> {
    if cfg.dhcp == 1 {
        return vec![("dhcp-offer-to-discovering-client", dhcp_reply(2, xid))];
    }
    if cfg.dhcp == 2 {
        return vec![("dhcp-ack-to-requesting-client", dhcp_reply(5, xid))];
    }
    let ver = cfg.ver;
    let (me, peer) = (ver.my(), ver.peer());
    let v4 = ver == Ver::V4;
    let icmp = icmp_proto(v4);
    let d8: Vec<u8> = (1..=8u8).collect();
    let d9: Vec<u8> = (0..9u8).map(|i| 0xa0 + i).collect();
    let d11: Vec<u8> = (0..11u8).map(|i| 0x41 + i).collect();
    let mut v = vec![];
    v.push(("icmp-echo-request", build_ip(peer, me, icmp, &build_echo(peer, me, true, 0x2222, 3, &d8))));
    v.push(("icmp-echo-reply-to-socket", build_ip(peer, me, icmp, &build_echo(peer, me, false, ICMP_IDENT, 3, &d8))));
    v.push(("udp-to-socket", build_ip(peer, me, 17, &build_udp(peer, me, PEER_PORT, UDP_PORT, &d9))));
    // UDP datagram whose (valid) checksum field has exactly one bit set, so that the single-bit
    // sweep itself reaches the value 0x0000
    {
        let mut pl: Vec<u8> = (0..10u8).map(|i| 0x30 + i).collect();
        pl[8] = 0;
        pl[9] = 0;
        let mut seg = build_udp(peer, me, PEER_PORT, UDP_PORT, &pl);
        seg[6] = 0;
        seg[7] = 0;
        let s = fold(pseudo_words(peer, me, 17, seg.len() as u32) + words(&seg));
        let w = !fold(s as u64 + 0x0100);
        seg[16] = (w >> 8) as u8;
        seg[17] = w as u8;
        seg[6] = 0x01;
        seg[7] = 0x00;
        v.push(("udp-to-socket-cksum-one-bit", build_ip(peer, me, 17, &seg)));
    }
    v.push(("udp-to-closed-port", build_ip(peer, me, 17, &build_udp(peer, me, PEER_PORT, 9999, &d9))));
    v.push(("tcp-syn-to-listener", build_ip(peer, me, 6, &build_tcp(peer, me, PEER_PORT + 1, TCP_LISTEN, 0x2000_0000, 0, SYN, 512, &[2, 4, 2, 0], &[]))));
    v.push(("tcp-syn-to-closed-port", build_ip(peer, me, 6, &build_tcp(peer, me, PEER_PORT + 2, 99, 0x3000_0000, 0, SYN, 512, &[], &[]))));
    v.push(("tcp-data-to-established", build_ip(peer, me, 6, &build_tcp(peer, me, PEER_PORT, TCP_X, PEER_ISN.wrapping_add(1), isn.wrapping_add(1), ACK | PSH, 1024, &[], &d11))));
    // Boundary values of the checksum field itself. For TCP 0x0000 is an ordinary value (the
    // one's-complement sum of everything else is 0xffff); a payload word is tuned so that the
    // CORRECT checksum is exactly 0x0000. The same segment with 0xffff in the field also verifies
    // arithmetically (0xffff is the other representation of zero). Every corruption outside the
    // field leaves the field at 0x0000 / 0xffff and must be dropped.
    {
        let mut pl: Vec<u8> = (0..12u8).map(|i| 0x51 + i).collect();
        pl[4] = 0;
        pl[5] = 0;
        let mut seg = build_tcp(peer, me, PEER_PORT, TCP_X, PEER_ISN.wrapping_add(1), isn.wrapping_add(1), ACK | PSH, 1024, &[], &pl);
        seg[16] = 0;
        seg[17] = 0;
        let s = fold(pseudo_words(peer, me, 6, seg.len() as u32) + words(&seg));
        let w = !s;
        seg[24] = (w >> 8) as u8;
        seg[25] = w as u8;
        v.push(("tcp-data-true-checksum-0000", build_ip(peer, me, 6, &seg)));
        seg[16] = 0xff;
        seg[17] = 0xff;
        v.push(("tcp-data-checksum-field-ffff", build_ip(peer, me, 6, &seg)));
        // SYN to the listener whose correct checksum is 0x0000 (low half of the sequence number tuned)
        let mut syn = build_tcp(peer, me, PEER_PORT + 3, TCP_LISTEN, 0x2000_0000, 0, SYN, 512, &[2, 4, 2, 0], &[]);
        syn[16] = 0;
        syn[17] = 0;
        syn[6] = 0;
        syn[7] = 0;
        let s = fold(pseudo_words(peer, me, 6, syn.len() as u32) + words(&syn));
        let w = !s;
        syn[6] = (w >> 8) as u8;
        syn[7] = w as u8;
        v.push(("tcp-syn-true-checksum-0000", build_ip(peer, me, 6, &syn)));
        // UDP datagram whose computed checksum is 0x0000 and which is therefore sent as 0xffff
        let mut upl: Vec<u8> = (0..10u8).map(|i| 0x71 + i).collect();
        upl[0] = 0;
        upl[1] = 0;
        let mut useg = build_udp(peer, me, PEER_PORT, UDP_PORT, &upl);
        useg[6] = 0;
        useg[7] = 0;
        let s = fold(pseudo_words(peer, me, 17, useg.len() as u32) + words(&useg));
        let w = !s;
        useg[8] = (w >> 8) as u8;
        useg[9] = w as u8;
        useg[6] = 0xff;
        useg[7] = 0xff;
        v.push(("udp-computed-checksum-0000-sent-as-ffff", build_ip(peer, me, 17, &useg)));
    }
    // IPv4 headers with options (IHL > 5): the header checksum covers IHL x 4 octets, so a flip in
    // the option area must be detected; the intact packets must keep their normal effect.
    if v4 {
        let mut big = vec![0x94u8, 4, 0, 0];
        big.extend(std::iter::repeat(1u8).take(32));
        big.extend([0u8, 0, 0, 0]);
        let optsets: [(&'static [&'static str; 4], Vec<u8>); 4] = [
            (&["ipv4-options-ihl6-eol-udp-to-socket", "ipv4-options-ihl6-eol-udp-to-closed-port", "ipv4-options-ihl6-eol-icmp-echo-request", "ipv4-options-ihl6-eol-tcp-syn-to-listener"], vec![0, 0, 0, 0]),
            (&["ipv4-options-ihl6-nop-udp-to-socket", "ipv4-options-ihl6-nop-udp-to-closed-port", "ipv4-options-ihl6-nop-icmp-echo-request", "ipv4-options-ihl6-nop-tcp-syn-to-listener"], vec![1, 1, 1, 0]),
            (&["ipv4-options-ihl7-router-alert-udp-to-socket", "ipv4-options-ihl7-router-alert-udp-to-closed-port", "ipv4-options-ihl7-router-alert-icmp-echo-request", "ipv4-options-ihl7-router-alert-tcp-syn-to-listener"], vec![0x94, 4, 0, 0, 0, 0, 0, 0]),
            (&["ipv4-options-ihl15-udp-to-socket", "ipv4-options-ihl15-udp-to-closed-port", "ipv4-options-ihl15-icmp-echo-request", "ipv4-options-ihl15-tcp-syn-to-listener"], big),
        ];
        let d4 = [0xc1u8, 0xc2, 0xc3, 0xc4];
        for (names, opts) in optsets.iter() {
            v.push((names[0], build_ip4_opts(peer, me, 17, opts, &build_udp(peer, me, PEER_PORT, UDP_PORT, &d4))));
            v.push((names[1], build_ip4_opts(peer, me, 17, opts, &build_udp(peer, me, PEER_PORT, 9999, &d4))));
            v.push((names[2], build_ip4_opts(peer, me, 1, opts, &build_echo(peer, me, true, 0x2222, 5, &d4))));
            v.push((names[3], build_ip4_opts(peer, me, 6, opts, &build_tcp(peer, me, PEER_PORT + 4, TCP_LISTEN, 0x4000_0000, 0, SYN, 512, &[], &[]))));
        }
    }
    v.push(("ip-unknown-protocol", build_ip(peer, me, 253, &d8)));
    v
}

#[derive(Clone, Debug, PartialEq)]
pub enum Verdict {
    MustDrop(String),
    StillValid,
    UdpZero4,
    RxOff(String),
    NA(String),
}

pub fn verdict(pkt: &[u8], caps: &Caps) -> Verdict {
    let i = classify(pkt);
    if i.ver == 0 {
        return Verdict::NA(i.note.to_string());
    }
    let mut rxoff: Option<String> = None;
    if i.ver == 4 {
        if i.ip4_hdr == Ck::Wrong {
            if caps.rx(IPV4) {
                return Verdict::MustDrop("ipv4-header".into());
            }
            rxoff = Some("ipv4-header".into());
        }
        if i.note.contains("not delimitable") {
            return match rxoff {
                Some(r) => Verdict::RxOff(r),
                None => Verdict::NA(i.note.to_string()),
            };
        }
    }
    let capi = Caps::index_for(i.ver, i.proto);
    match i.l4 {
        Ck::Wrong | Ck::UdpZero6 => {
            let which = if i.l4 == Ck::UdpZero6 { "udp6-zero".to_string() } else { i.proto_name().to_string() };
            match capi {
                Some(ci) if caps.rx(ci) => Verdict::MustDrop(which),
                Some(_) => Verdict::RxOff(rxoff.map(|r| format!("{}+{}", r, which)).unwrap_or(which)),
                None => Verdict::NA("wrong checksum of a protocol outside the property".into()),
            }
        }
        Ck::Valid => match rxoff {
            Some(r) => Verdict::RxOff(r),
            None => Verdict::StillValid,
        },
        Ck::UdpZero4 => match rxoff {
            Some(r) => Verdict::RxOff(r),
            None => Verdict::UdpZero4,
        },
        Ck::NA => match rxoff {
            Some(r) => Verdict::RxOff(r),
            None => Verdict::NA(if i.frag { "fragment".into() } else { i.note.to_string() }),
        },
    }
}

#[derive(Clone, Debug, Default)]
pub struct Outcome {
    pub sock_changed: bool,
    pub frames: Vec<Vec<u8>>,
    pub panicked: Option<String>,
}
impl Outcome {
    pub fn effect(&self) -> &'static str {
        match (self.sock_changed, !self.frames.is_empty(), self.panicked.is_some()) {
            (_, _, true) => "panic",
            (false, false, _) => "no-effect",
            (true, false, _) => "socket-changed",
            (false, true, _) => "reply-emitted",
            (true, true, _) => "socket-changed+reply-emitted",
        }
    }
}

pub fn deliver_fresh(cfg: &Cfg, pkt: Option<&[u8]>) -> Result<Outcome, String> {
    let (mut w, _, _) = make_world(cfg)?;
    let before = w.debug();
    let r = std::panic::catch_unwind(std::panic::AssertUnwindSafe(|| match pkt {
        Some(p) => w.deliver(p),
        None => {
            w.poll();
            w.drain()
        }
    }));
    match r {
        Ok(frames) => {
            let after = w.debug();
            Ok(Outcome { sock_changed: before != after, frames, panicked: None })
        }
        Err(e) => Ok(Outcome { sock_changed: false, frames: vec![], panicked: Some(format!("{} at {}", panic_msg(e), last_panic_loc())) }),
    }
}

#[derive(Default, Clone)]
pub struct CStats {
    pub counts: BTreeMap<String, u64>,
    pub viols: Vec<(String, String, Value)>,
    pub viol_counts: BTreeMap<String, u64>,
    pub errors: Vec<String>,
    pub delivered: u64,
    pub polls: u64,
    pub panics: Vec<String>,
}
impl CStats {
    fn inc(&mut self, k: String) {
        *self.counts.entry(k).or_insert(0) += 1;
    }
    fn merge(mut self, o: CStats) -> CStats {
        for (k, v) in o.counts {
            *self.counts.entry(k).or_insert(0) += v;
        }
        for (k, v) in o.viol_counts {
            *self.viol_counts.entry(k).or_insert(0) += v;
        }
        for v in o.viols {
            if !self.viols.iter().any(|x| x.0 == v.0) {
                self.viols.push(v);
            }
        }
        for e in o.errors {
            if self.errors.len() < 20 {
                self.errors.push(e);
            }
        }
        for e in o.panics {
            if self.panics.len() < 5 {
                self.panics.push(e);
            }
        }
        self.delivered += o.delivered;
        self.polls += o.polls;
        self
    }
}

fn flip(p: &mut [u8], bit: usize) {
    p[bit / 8] ^= 0x80 >> (bit % 8);
}

fn replay_json(cfg: &Cfg, case: &str, flips: &[usize], fix: bool, pkt: &[u8]) -> Value {
    json!({"part":"c","medium":medium_name(cfg.medium),"caps":cfg.caps.to_json(),"caps_name":cfg.caps.name(),"ver":cfg.ver.n(),"dhcp":cfg.dhcp,
           "case":case,"flipped_bits":flips,"ipv4_header_checksum_recomputed":fix,"packet":hex(pkt)})
}

/// evaluate one mutant
fn eval(cfg: &Cfg, case: &str, base: &[u8], flips: &[usize], fix: bool, st: &mut CStats) {
    let mut m = base.to_vec();
    for &b in flips {
        flip(&mut m, b);
    }
    if fix && !fix_ip4_hdr(&mut m) {
        st.inc(format!("{}|fix-not-possible", case));
        return;
    }
    let v = verdict(&m, &cfg.caps);
    let o = match deliver_fresh(cfg, Some(&m)) {
        Ok(o) => o,
        Err(e) => {
            st.errors.push(format!("{} {}: {}", cfg.name(), case, e));
            return;
        }
    };
    st.delivered += 1;
    st.polls += 3;
    if let Some(p) = &o.panicked {
        st.panics.push(format!("{} flips {:?} packet {}: {}", case, flips, hex(&m), p));
    }
    let class = match &v {
        Verdict::MustDrop(w) => format!("checksum-wrong({})", w),
        Verdict::StillValid => "still-valid".to_string(),
        Verdict::UdpZero4 => "udp4-zero-valid-by-definition".to_string(),
        Verdict::RxOff(w) => format!("rx-verification-off({})", w),
        Verdict::NA(_) => "not-assertable".to_string(),
    };
    st.inc(format!("{}|{}|{}", case, class, o.effect()));
    if let Verdict::MustDrop(which) = &v {
        if o.effect() != "no-effect" {
            let sig = if which == "udp6-zero" { "C08/udp6-zero-checksum-accepted".to_string() } else { format!("C08/bad-checksum-accepted/{}/{}", which, o.effect()) };
            *st.viol_counts.entry(sig.clone()).or_insert(0) += 1;
            if !st.viols.iter().any(|x| x.0 == sig) {
                st.viols.push((
                    sig,
                    format!("{}: case {} with bits {:?} flipped{} has a wrong {} checksum under the independent verifier but had effect '{}' (frames: {:?}); packet {}", cfg.name(), case, flips, if fix { " (IPv4 header checksum recomputed)" } else { "" }, which, o.effect(), o.frames.iter().map(|f| hex(f)).collect::<Vec<_>>(), hex(&m)),
                    replay_json(cfg, case, flips, fix, &m),
                ));
            }
        }
    }
}

/// sweep all flips of all base cases under one configuration
fn sweep(cfg: &Cfg, double: bool, double_opts: bool, fix: bool, only_cases: Option<&[&str]>) -> CStats {
    let (_, isn, xid) = match make_world(cfg) {
        Ok(x) => x,
        Err(e) => {
            let mut st = CStats::default();
            st.errors.push(format!("{}: world preparation failed: {}", cfg.name(), e));
            return st;
        }
    };
    let mut total = CStats::default();
    for (case, base) in base_cases(cfg, isn, xid) {
        if let Some(oc) = only_cases {
            if !oc.contains(&case) {
                continue;
            }
        }
        if fix && cfg.ver != Ver::V4 {
            continue;
        }
        let nbits = base.len() * 8;
        let in_ck = |b: usize| (80..96).contains(&b);
        // DHCP replies: double flips are enumerated over all bit pairs outside the 192 all-zero
        // bytes of the BOOTP sname/file fields (IP 20 + UDP 8 + BOOTP offset 44..236); single
        // flips cover every bit
        let in_skip = |b: usize| cfg.dhcp > 0 && (72 * 8..264 * 8).contains(&b);
        let hdr_bits = if cfg.ver == Ver::V4 { ((base[0] & 0x0f) as usize) * 32 } else { 0 };
        let firsts: Vec<usize> = (0..nbits).filter(|&b| !fix || (b < hdr_bits && !in_ck(b))).collect();
        let st = firsts
            .par_iter()
            .map(|&i| {
                let mut st = CStats::default();
                eval(cfg, case, &base, &[i], fix, &mut st);
                if double && !in_skip(i) && (double_opts || !case.starts_with("ipv4-options")) {
                    for j in i + 1..nbits {
                        if (fix && in_ck(j)) || in_skip(j) {
                            continue;
                        }
                        eval(cfg, case, &base, &[i, j], fix, &mut st);
                    }
                }
                st
            })
            .collect::<Vec<_>>()
            .into_iter()
            .fold(CStats::default(), |a, b| a.merge(b));
        total = total.merge(st);
    }
    total
}

/// base packets must have an effect, an empty poll must have none
fn confirm_bases(cfg: &Cfg, rep: &mut Report, table: &mut BTreeMap<String, String>) -> u64 {
    let mut n = 0;
    match deliver_fresh(cfg, None) {
        Ok(o) if o.effect() == "no-effect" => {}
        Ok(o) => rep.machinery_errors.push(format!("(c) {}: poll without packet has effect {}", cfg.name(), o.effect())),
        Err(e) => {
            rep.machinery_errors.push(format!("(c) {}: {}", cfg.name(), e));
            return 0;
        }
    }
    let Ok((_, isn, xid)) = make_world(cfg) else { return 0 };
    for (case, base) in base_cases(cfg, isn, xid) {
        let v = verdict(&base, &Caps::DEFAULT);
        let exp_valid = v == Verdict::StillValid || (case == "ip-unknown-protocol" && matches!(v, Verdict::NA(_)));
        if !exp_valid {
            rep.machinery_errors.push(format!("(c) base packet {} is not valid under the independent verifier: {:?}", case, v));
        }
        match deliver_fresh(cfg, Some(&base)) {
            Ok(o) => {
                n += 1;
                table.insert(format!("{}|{}", cfg.name(), case), o.effect().to_string());
                if o.effect() == "no-effect" && exp_valid {
                    // An independently valid packet is ignored. If it is accepted as soon as rx
                    // verification of exactly one protocol's checksum is switched off, the stack's
                    // verification rejects a checksum that verifies: the checksum is not
                    // "computed correctly" on the receive side. Otherwise the harness is vacuous.
                    let names = ["ipv4-header", "udp", "tcp", "icmpv4", "icmpv6"];
                    let mut culprit = None;
                    for i in 0..5 {
                        if !cfg.caps.rx(i) {
                            continue;
                        }
                        let mut c2 = cfg.caps.0;
                        c2[i] = if cfg.caps.tx(i) { 2 } else { 3 };
                        let cfg2 = Cfg { caps: Caps(c2), ..*cfg };
                        if let Ok(o2) = deliver_fresh(&cfg2, Some(&base)) {
                            if o2.effect() != "no-effect" && o2.effect() != "panic" {
                                culprit = Some((names[i], o2.effect(), cfg2));
                                break;
                            }
                        }
                    }
                    match culprit {
                        Some((which, eff, cfg2)) => rep.violation(
                            format!("C08/valid-checksum-rejected/{}", which),
                            format!("{}: packet {} verifies under the independent implementation but is ignored; with rx verification of the {} checksum switched off ({}) it has its normal effect '{}': the stack's verification rejects a valid checksum; packet {}", cfg.name(), case, which, cfg2.name(), eff, hex(&base)),
                            {
                                let mut r = replay_json(cfg, case, &[], false, &base);
                                r["expect_effect"] = json!(true);
                                r
                            },
                        ),
                        None => rep.machinery_errors.push(format!("(c) {}: unmodified packet {} has no effect (test would be vacuous)", cfg.name(), case)),
                    }
                } else if o.effect() == "no-effect" || o.effect() == "panic" {
                    rep.machinery_errors.push(format!("(c) {}: unmodified packet {} has effect '{}' (test would be vacuous)", cfg.name(), case, o.effect()));
                }
            }
            Err(e) => rep.machinery_errors.push(format!("(c) {}: {}", cfg.name(), e)),
        }
    }
    n
}

fn zero_tests(rep: &mut Report, st: &mut CStats) -> Value {
    let mut out = serde_json::Map::new();
    for medium in [Medium::Ip, Medium::Ethernet] {
        for ver in [Ver::V4, Ver::V6] {
            let cfg = Cfg { medium, caps: Caps::DEFAULT, ver, dhcp: 0 };
            let (me, peer) = (ver.my(), ver.peer());
            let pl: Vec<u8> = (0..12u8).map(|i| 0x61 + i).collect();
            // 1: checksum field forced to zero, arithmetic does not verify
            let mut seg = build_udp(peer, me, PEER_PORT, UDP_PORT, &pl);
            seg[6] = 0;
            seg[7] = 0;
            // 2: payload crafted so that the true checksum is 0x0000 (sender must transmit 0xffff)
            let mut pl2 = pl.clone();
            pl2[0] = 0;
            pl2[1] = 0;
            let mut seg2 = build_udp(peer, me, PEER_PORT, UDP_PORT, &pl2);
            seg2[6] = 0;
            seg2[7] = 0;
            let s = fold(pseudo_words(peer, me, 17, seg2.len() as u32) + words(&seg2));
            let wv = !s;
            seg2[8] = (wv >> 8) as u8;
            seg2[9] = wv as u8;
            let mut seg2f = seg2.clone();
            seg2f[6] = 0xff;
            seg2f[7] = 0xff;
            // 3: zero checksum to a closed port (reply expected only if accepted)
            let mut seg3 = build_udp(peer, me, PEER_PORT, 9999, &pl);
            seg3[6] = 0;
            seg3[7] = 0;
            for (name, sg) in [("zero-field-arith-wrong", &seg), ("zero-field-true-checksum-is-zero", &seg2), ("ffff-field-true-checksum-is-zero", &seg2f), ("zero-field-to-closed-port", &seg3)] {
                let ip = build_ip(peer, me, 17, sg);
                let v = verdict(&ip, &cfg.caps);
                match deliver_fresh(&cfg, Some(&ip)) {
                    Ok(o) => {
                        st.delivered += 1;
                        st.polls += 3;
                        out.insert(format!("{}/v{}/{}", medium_name(medium), ver.n(), name), json!(format!("{:?} -> {}", v, o.effect())));
                        if name == "ffff-field-true-checksum-is-zero" && o.effect() == "no-effect" {
                            // recorded only: a valid datagram that is refused is not a C08 matter
                            st.inc("explicit|valid-0xffff-datagram-refused".into());
                        }
                        if let Verdict::MustDrop(w) = &v {
                            if o.effect() != "no-effect" {
                                let sig = if w == "udp6-zero" { "C08/udp6-zero-checksum-accepted".to_string() } else { format!("C08/bad-checksum-accepted/{}/{}", w, o.effect()) };
                                *st.viol_counts.entry(sig.clone()).or_insert(0) += 1;
                                rep.violation(
                                    sig,
                                    format!("{}: UDP datagram over IPv{} with checksum field 0x0000 ({}) had effect '{}'; RFC 8200 §8.1: IPv6 receivers must discard UDP packets containing a zero checksum; packet {}", cfg.name(), ver.n(), name, o.effect(), hex(&ip)),
                                    replay_json(&cfg, name, &[], false, &ip),
                                );
                            }
                        }
                    }
                    Err(e) => rep.machinery_errors.push(format!("(c) zero test: {}", e)),
                }
            }
        }
    }
    Value::Object(out)
}

pub fn run(rep: &mut Report, tier: Tier) {
    let thorough = tier == Tier::Thorough;
    let mut total = CStats::default();
    let mut parts: Vec<Value> = vec![];
    let mut base_table = BTreeMap::new();
    let mut bases = 0u64;
    let mut do_sweep = |label: &str, cfg: Cfg, double: bool, fix: bool, rep: &mut Report, total: &mut CStats, bases: &mut u64| {
        if !fix {
            *bases += confirm_bases(&cfg, rep, &mut base_table);
        }
        // the 16 IPv4-option base packets get double flips under the default configuration only
        let double_opts = double && cfg.medium == Medium::Ip && cfg.caps == Caps::DEFAULT;
        let st = sweep(&cfg, double, double_opts, fix, None);
        // compact per-case outcome table
        parts.push(json!({"sweep": label, "config": cfg.name(), "flips": if double && cfg.dhcp > 0 {"all single bit flips; all double bit flips with both bits outside the all-zero BOOTP sname/file bytes"} else if double {"all single and all double bit flips"} else {"all single bit flips"},
            "ipv4_header_checksum_recomputed_after_flip": fix, "mutants_delivered": st.delivered, "outcomes": st.counts, "violating_mutants": st.viol_counts}));
        let t = std::mem::take(total);
        *total = t.merge(st);
    };
    let all_rx = Caps([1; 5]);
    for ver in [Ver::V4, Ver::V6] {
        let d = Cfg { medium: Medium::Ip, caps: Caps::DEFAULT, ver, dhcp: 0 };
        do_sweep("default", d, thorough, false, rep, &mut total, &mut bases);
        if ver == Ver::V4 {
            do_sweep("default+hdrfix", d, thorough, true, rep, &mut total, &mut bases);
        }
        do_sweep("ethernet", Cfg { medium: Medium::Ethernet, caps: Caps::DEFAULT, ver, dhcp: 0 }, thorough, false, rep, &mut total, &mut bases);
        do_sweep("all-Rx", Cfg { medium: Medium::Ip, caps: all_rx, ver, dhcp: 0 }, thorough, false, rep, &mut total, &mut bases);
        if ver == Ver::V4 {
            do_sweep("all-Rx+hdrfix", Cfg { medium: Medium::Ip, caps: all_rx, ver, dhcp: 0 }, thorough, true, rep, &mut total, &mut bases);
        }
        // rx verification off for one protocol at a time (recording), and for all
        for p in 0..5 {
            let mut c = [0u8; 5];
            c[p] = 2; // Tx only
            do_sweep("one-protocol-rx-off", Cfg { medium: Medium::Ip, caps: Caps(c), ver, dhcp: 0 }, false, false, rep, &mut total, &mut bases);
            if ver == Ver::V4 && p != IPV4 {
                do_sweep("one-protocol-rx-off+hdrfix", Cfg { medium: Medium::Ip, caps: Caps(c), ver, dhcp: 0 }, false, true, rep, &mut total, &mut bases);
            }
        }
        do_sweep("all-None", Cfg { medium: Medium::Ip, caps: Caps([3; 5]), ver, dhcp: 0 }, false, false, rep, &mut total, &mut bases);
    }
    for stage in [1u8, 2] {
        let d = Cfg { medium: Medium::Ethernet, caps: Caps::DEFAULT, ver: Ver::V4, dhcp: stage };
        do_sweep("dhcp", d, thorough, false, rep, &mut total, &mut bases);
        do_sweep("dhcp+hdrfix", d, thorough, true, rep, &mut total, &mut bases);
        do_sweep("dhcp all-Rx", Cfg { caps: all_rx, ..d }, false, false, rep, &mut total, &mut bases);
        do_sweep("dhcp udp-rx-off", Cfg { caps: Caps([0, 2, 0, 0, 0]), ..d }, false, false, rep, &mut total, &mut bases);
    }
    let zero = zero_tests(rep, &mut total);
    for (sig, det, r) in &total.viols {
        rep.violation(sig.clone(), det.clone(), r.clone());
    }
    for e in &total.errors {
        rep.machinery_errors.push(format!("(c) {}", e));
    }
    // aggregate accepted/dropped per verdict class so vacuity is visible
    let mut agg: BTreeMap<String, u64> = BTreeMap::new();
    for (k, v) in &total.counts {
        let mut it = k.splitn(3, '|');
        let _case = it.next();
        let class = it.next().unwrap_or("");
        let eff = it.next().unwrap_or("");
        let class = class.split('(').next().unwrap_or(class);
        *agg.entry(format!("{} -> {}", class, if eff == "no-effect" { "dropped/no-effect" } else if eff.is_empty() { "-" } else { "accepted/effect" })).or_insert(0) += v;
    }
    rep.add_count("states", total.delivered + bases);
    rep.add_count("transitions", total.polls + bases * 3);
    rep.add_count("traces_validated_against_impl", bases);
    rep.cov(
        "c_enforcement",
        json!({
            "base_packet_effects": base_table,
            "base_packets_confirmed_effective": bases,
            "mutants_delivered": total.delivered,
            "aggregate": agg,
            "violating_mutants_per_signature": total.viol_counts,
            "sweeps": parts,
            "udp_zero_checksum_explicit": zero,
            "panics_inside_smoltcp_on_mutants": total.panics,
            "ipv4_options": "16 base packets with IPv4 options (IHL 6 EOL x4, IHL 6 NOP NOP NOP EOL, IHL 7 Router Alert + padding, IHL 15) x {udp to socket, udp to closed port, echo request, tcp syn}: intact packets must have their normal effect; every flip of the whole header including the option area is asserted (double flips for these under the default ip configuration and its header-recomputed variant)", "flip_region": "every bit of the whole IP packet (IP header incl. options + upper-layer segment); for IPv4 additionally every flip touching the header with the header checksum recomputed, so that pseudo-header fields are corrupted with a valid header checksum",
        }),
    );
    // a few mutants written out
    for (ver, case, bits) in [(Ver::V4, "udp-to-socket", vec![20 * 8 + 8 * 8 + 7]), (Ver::V6, "tcp-data-to-established", vec![8 * 8 + 3]), (Ver::V4, "icmp-echo-request", vec![28 * 8 + 6, 30 * 8 + 6])] {
        let cfg = Cfg { medium: Medium::Ip, caps: Caps::DEFAULT, ver, dhcp: 0 };
        if let Ok((_, isn, xid)) = make_world(&cfg) {
            if let Some((_, base)) = base_cases(&cfg, isn, xid).into_iter().find(|(n, _)| *n == case) {
                let mut m = base.clone();
                for &b in &bits {
                    flip(&mut m, b);
                }
                let v = verdict(&m, &cfg.caps);
                if let (Ok(o0), Ok(o1)) = (deliver_fresh(&cfg, Some(&base)), deliver_fresh(&cfg, Some(&m))) {
                    rep.samples.push(json!({"part":"c","config":cfg.name(),"case":case,"base":hex(&base),"base_effect":o0.effect(),"flipped_bits":bits,"mutant":hex(&m),"independent_verdict":format!("{:?}", v),"mutant_effect":o1.effect()}));
                }
            }
        }
    }
    rep.samples.push(json!({"part":"c","udp_zero_checksum_explicit": rep.coverage.get("c_enforcement").map(|c| c["udp_zero_checksum_explicit"].clone())}));
}

pub fn replay(r: &Value) -> i32 {
    let cfg = Cfg { medium: medium_from(r["medium"].as_str().unwrap_or("ip")), caps: Caps::from_json(&r["caps"]), ver: Ver::from_n(r["ver"].as_u64().unwrap_or(4)), dhcp: r["dhcp"].as_u64().unwrap_or(0) as u8 };
    let pkt = unhex(r["packet"].as_str().unwrap_or(""));
    let info = classify(&pkt);
    println!("config {}", cfg.name());
    println!("packet {}", hex(&pkt));
    println!("independent verifier: v{} proto {} ({}) ipv4-header={:?} upper-layer={:?} {}", info.ver, info.proto, info.proto_name(), info.ip4_hdr, info.l4, info.note);
    let v = verdict(&pkt, &cfg.caps);
    println!("verdict: {:?}", v);
    match deliver_fresh(&cfg, Some(&pkt)) {
        Err(e) => {
            eprintln!("MACHINERY ERROR: {}", e);
            2
        }
        Ok(o) => {
            println!("effect on a fresh prepared interface: {} (socket set changed: {}, frames emitted: {})", o.effect(), o.sock_changed, o.frames.len());
            for f in &o.frames {
                println!("  emitted {}", hex(f));
            }
            if r["expect_effect"].as_bool().unwrap_or(false) {
                if o.effect() == "no-effect" && matches!(v, Verdict::StillValid) {
                    println!("violation: packet verifies independently but is ignored");
                    return 1;
                }
                println!("no violation on replay");
                return 0;
            }
            if matches!(v, Verdict::MustDrop(_)) && o.effect() != "no-effect" {
                println!("violation: checksum wrong but packet had an effect");
                1
            } else {
                println!("no violation on replay");
                0
            }
        }
    }
}
