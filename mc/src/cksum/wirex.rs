//! Independent (no smoltcp::wire) RFC 1071 reference, packet builders and a minimal
//! offsets-only IPv4/IPv6/UDP/TCP/ICMP field extractor + checksum classifier.

/// Unfolded sum of big-endian 16-bit words, odd trailing byte padded with zero (RFC 1071 §4.1).
pub fn words(data: &[u8]) -> u64 {
    let mut acc: u64 = 0;
    let mut i = 0;
    while i + 1 < data.len() {
        acc += ((data[i] as u64) << 8) | (data[i + 1] as u64);
        i += 2;
    }
    if i < data.len() {
        acc += (data[i] as u64) << 8;
    }
    acc
}
/// End-around-carry fold to 16 bits.
pub fn fold(mut s: u64) -> u16 {
    while s >> 16 != 0 {
        s = (s & 0xffff) + (s >> 16);
    }
    s as u16
}
/// RFC 1071 one's-complement sum (not complemented).
pub fn ref_sum(data: &[u8]) -> u16 {
    fold(words(data))
}
/// Pseudo-header sum. 4-byte addresses: RFC 768/793 (16-bit length); 16-byte: RFC 8200 §8.1 (32-bit length).
pub fn pseudo_words(src: &[u8], dst: &[u8], proto: u8, len: u32) -> u64 {
    if src.len() == 4 {
        words(src) + words(dst) + proto as u64 + (len & 0xffff) as u64
    } else {
        words(src) + words(dst) + (len >> 16) as u64 + (len & 0xffff) as u64 + proto as u64
    }
}
pub fn l4_cksum(src: &[u8], dst: &[u8], proto: u8, seg: &[u8]) -> u16 {
    !fold(pseudo_words(src, dst, proto, seg.len() as u32) + words(seg))
}

pub fn hex(b: &[u8]) -> String {
    let mut s = String::with_capacity(b.len() * 2);
    for x in b {
        s.push_str(&format!("{:02x}", x));
    }
    s
}
pub fn unhex(s: &str) -> Vec<u8> {
    let s: Vec<u8> = s.bytes().filter(|c| c.is_ascii_hexdigit()).collect();
    s.chunks(2)
        .filter(|c| c.len() == 2)
        .map(|c| u8::from_str_radix(std::str::from_utf8(c).unwrap(), 16).unwrap())
        .collect()
}

// ------------------------------------------------------------------ builders

fn put16(b: &mut [u8], v: u16) {
    b[0] = (v >> 8) as u8;
    b[1] = v as u8;
}
fn put32(b: &mut [u8], v: u32) {
    b[0] = (v >> 24) as u8;
    b[1] = (v >> 16) as u8;
    b[2] = (v >> 8) as u8;
    b[3] = v as u8;
}
pub fn get16(b: &[u8]) -> u16 {
    ((b[0] as u16) << 8) | b[1] as u16
}
pub fn get32(b: &[u8]) -> u32 {
    ((b[0] as u32) << 24) | ((b[1] as u32) << 16) | ((b[2] as u32) << 8) | b[3] as u32
}

/// IPv4 (src.len()==4) or IPv6 packet around `payload`. `proto` is the wire value.
pub fn build_ip(src: &[u8], dst: &[u8], proto: u8, payload: &[u8]) -> Vec<u8> {
    if src.len() == 4 {
        let tl = 20 + payload.len();
        let mut p = vec![0u8; tl];
        p[0] = 0x45;
        put16(&mut p[2..4], tl as u16);
        put16(&mut p[4..6], 0x1c46);
        p[6] = 0x40; // DF
        p[8] = 64;
        p[9] = proto;
        p[12..16].copy_from_slice(src);
        p[16..20].copy_from_slice(dst);
        let c = !ref_sum(&p[..20]);
        put16(&mut p[10..12], c);
        p[20..].copy_from_slice(payload);
        p
    } else {
        let mut p = vec![0u8; 40 + payload.len()];
        p[0] = 0x60;
        put16(&mut p[4..6], payload.len() as u16);
        p[6] = proto;
        p[7] = 64;
        p[8..24].copy_from_slice(src);
        p[24..40].copy_from_slice(dst);
        p[40..].copy_from_slice(payload);
        p
    }
}
/// IPv4 packet with `opts` (length a multiple of 4, at most 40) in the header
pub fn build_ip4_opts(src: &[u8], dst: &[u8], proto: u8, opts: &[u8], payload: &[u8]) -> Vec<u8> {
    assert!(src.len() == 4 && opts.len() % 4 == 0 && opts.len() <= 40);
    let hl = 20 + opts.len();
    let tl = hl + payload.len();
    let mut p = vec![0u8; tl];
    p[0] = 0x40 | (hl / 4) as u8;
    put16(&mut p[2..4], tl as u16);
    put16(&mut p[4..6], 0x1c46);
    p[6] = 0x40;
    p[8] = 64;
    p[9] = proto;
    p[12..16].copy_from_slice(src);
    p[16..20].copy_from_slice(dst);
    p[20..hl].copy_from_slice(opts);
    let c = !ref_sum(&p[..hl]);
    put16(&mut p[10..12], c);
    p[hl..].copy_from_slice(payload);
    p
}
pub fn set_hop_limit(ip: &mut [u8], h: u8) {
    if ip[0] >> 4 == 4 {
        ip[8] = h;
        fix_ip4_hdr(ip);
    } else {
        ip[7] = h;
    }
}
/// Recompute the IPv4 header checksum in place (uses the IHL found in the packet). false if the
/// header is not delimitable.
pub fn fix_ip4_hdr(ip: &mut [u8]) -> bool {
    if ip.len() < 20 {
        return false;
    }
    let ihl = (ip[0] & 0x0f) as usize * 4;
    if ihl < 20 || ihl > ip.len() {
        return false;
    }
    ip[10] = 0;
    ip[11] = 0;
    let c = !ref_sum(&ip[..ihl]);
    put16(&mut ip[10..12], c);
    true
}
pub fn build_udp(src: &[u8], dst: &[u8], sport: u16, dport: u16, payload: &[u8]) -> Vec<u8> {
    let mut s = vec![0u8; 8 + payload.len()];
    put16(&mut s[0..2], sport);
    put16(&mut s[2..4], dport);
    put16(&mut s[4..6], (8 + payload.len()) as u16);
    s[8..].copy_from_slice(payload);
    let c = l4_cksum(src, dst, 17, &s);
    put16(&mut s[6..8], if c == 0 { 0xffff } else { c });
    s
}
pub const FIN: u8 = 1;
pub const SYN: u8 = 2;
pub const RST: u8 = 4;
pub const PSH: u8 = 8;
pub const ACK: u8 = 16;
#[allow(clippy::too_many_arguments)]
pub fn build_tcp(src: &[u8], dst: &[u8], sport: u16, dport: u16, seq: u32, ack: u32, flags: u8, win: u16, opts: &[u8], payload: &[u8]) -> Vec<u8> {
    assert!(opts.len() % 4 == 0);
    let hl = 20 + opts.len();
    let mut s = vec![0u8; hl + payload.len()];
    put16(&mut s[0..2], sport);
    put16(&mut s[2..4], dport);
    put32(&mut s[4..8], seq);
    put32(&mut s[8..12], ack);
    s[12] = ((hl / 4) as u8) << 4;
    s[13] = flags;
    put16(&mut s[14..16], win);
    s[20..hl].copy_from_slice(opts);
    s[hl..].copy_from_slice(payload);
    let c = l4_cksum(src, dst, 6, &s);
    put16(&mut s[16..18], c);
    s
}
/// ICMP echo request/reply for the family given by the address length.
pub fn build_echo(src: &[u8], dst: &[u8], request: bool, ident: u16, seq: u16, data: &[u8]) -> Vec<u8> {
    let v4 = src.len() == 4;
    let mut s = vec![0u8; 8 + data.len()];
    s[0] = match (v4, request) {
        (true, true) => 8,
        (true, false) => 0,
        (false, true) => 128,
        (false, false) => 129,
    };
    put16(&mut s[4..6], ident);
    put16(&mut s[6..8], seq);
    s[8..].copy_from_slice(data);
    let c = if v4 { !ref_sum(&s) } else { l4_cksum(src, dst, 58, &s) };
    put16(&mut s[2..4], c);
    s
}
pub fn icmp_proto(v4: bool) -> u8 {
    if v4 {
        1
    } else {
        58
    }
}
pub fn build_arp_request(sha: &[u8; 6], spa: &[u8], tpa: &[u8]) -> Vec<u8> {
    let mut a = vec![0u8; 28];
    put16(&mut a[0..2], 1);
    put16(&mut a[2..4], 0x0800);
    a[4] = 6;
    a[5] = 4;
    put16(&mut a[6..8], 1);
    a[8..14].copy_from_slice(sha);
    a[14..18].copy_from_slice(spa);
    a[24..28].copy_from_slice(tpa);
    a
}
/// Neighbor solicitation with source link-layer address option.
pub fn build_ns(src: &[u8], dst: &[u8], target: &[u8], sll: &[u8; 6]) -> Vec<u8> {
    let mut s = vec![0u8; 32];
    s[0] = 135;
    s[8..24].copy_from_slice(target);
    s[24] = 1;
    s[25] = 1;
    s[26..32].copy_from_slice(sll);
    let c = l4_cksum(src, dst, 58, &s);
    put16(&mut s[2..4], c);
    s
}
/// BOOTP/DHCP server reply (op 2) with message type, server identifier, lease time, subnet mask,
/// router and one DNS server
pub fn build_dhcp_reply(msg_type: u8, xid: u32, chaddr: &[u8; 6], yiaddr: &[u8; 4], server: &[u8; 4]) -> Vec<u8> {
    let mut d = vec![0u8; 240];
    d[0] = 2;
    d[1] = 1;
    d[2] = 6;
    put32(&mut d[4..8], xid);
    d[16..20].copy_from_slice(yiaddr);
    d[20..24].copy_from_slice(server);
    d[28..34].copy_from_slice(chaddr);
    d[236..240].copy_from_slice(&[0x63, 0x82, 0x53, 0x63]);
    d.extend_from_slice(&[53, 1, msg_type]);
    d.extend_from_slice(&[54, 4, server[0], server[1], server[2], server[3]]);
    d.extend_from_slice(&[51, 4, 0, 0, 0x0e, 0x10]);
    d.extend_from_slice(&[1, 4, 255, 255, 255, 0]);
    d.extend_from_slice(&[3, 4, server[0], server[1], server[2], server[3]]);
    d.extend_from_slice(&[6, 4, server[0], server[1], server[2], 9]);
    d.push(255);
    d
}
pub fn eth_wrap(dst: &[u8; 6], src: &[u8; 6], ethertype: u16, payload: &[u8]) -> Vec<u8> {
    let mut f = vec![0u8; 14 + payload.len()];
    f[0..6].copy_from_slice(dst);
    f[6..12].copy_from_slice(src);
    put16(&mut f[12..14], ethertype);
    f[14..].copy_from_slice(payload);
    f
}

// ------------------------------------------------------------------ classifier

#[derive(Clone, Copy, PartialEq, Eq, Debug)]
pub enum Ck {
    Valid,
    Wrong,
    /// UDP checksum field is 0x0000 over IPv4: legal "no checksum" (RFC 768)
    UdpZero4,
    /// UDP checksum field is 0x0000 over IPv6: illegal (RFC 8200 §8.1)
    UdpZero6,
    /// no checksum applies / cannot be delimited / ambiguous
    NA,
}

#[derive(Clone, Debug)]
pub struct Info {
    /// 4, 6 or 0 (not an IP packet we can delimit)
    pub ver: u8,
    pub ip4_hdr: Ck,
    /// final upper-layer protocol number
    pub proto: u8,
    pub l4: Ck,
    pub l4_off: usize,
    pub l4_end: usize,
    pub frag: bool,
    pub note: &'static str,
}
impl Info {
    fn na(note: &'static str) -> Info {
        Info { ver: 0, ip4_hdr: Ck::NA, proto: 0, l4: Ck::NA, l4_off: 0, l4_end: 0, frag: false, note }
    }
    pub fn proto_name(&self) -> &'static str {
        match (self.ver, self.proto) {
            (4, 1) => "icmpv4",
            (6, 58) => "icmpv6",
            (4, 17) => "udp4",
            (6, 17) => "udp6",
            (4, 6) => "tcp4",
            (6, 6) => "tcp6",
            (4, 2) => "igmp",
            _ => "other",
        }
    }
    /// a short stable sub-type for signatures
    pub fn subtype(&self, pkt: &[u8]) -> String {
        let s = &pkt[self.l4_off.min(pkt.len())..self.l4_end.min(pkt.len())];
        match self.proto_name() {
            "icmpv4" | "icmpv6" if !s.is_empty() => format!("type{}", s[0]),
            "tcp4" | "tcp6" if s.len() >= 14 => {
                let f = s[13];
                let mut v = vec![];
                for (m, n) in [(SYN, "SYN"), (FIN, "FIN"), (RST, "RST"), (ACK, "ACK")] {
                    if f & m != 0 {
                        v.push(n);
                    }
                }
                let mut o = v.join("+");
                if s.len() > ((s[12] >> 4) as usize) * 4 {
                    o.push_str("+data");
                }
                o
            }
            _ => "-".into(),
        }
    }
}

fn l4_check(ver: u8, src: &[u8], dst: &[u8], proto: u8, seg: &[u8]) -> (Ck, &'static str) {
    match (ver, proto) {
        (4, 1) | (4, 2) => {
            if seg.len() < 4 {
                return (Ck::NA, "icmp/igmp too short");
            }
            let s = ref_sum(seg);
            // a sum of 0x0000 (only for an all-zero message) is "negative zero" vs 0xffff: ambiguous, lenient
            if s == 0xffff {
                (Ck::Valid, "")
            } else if s == 0 {
                (Ck::NA, "all-zero message")
            } else {
                (Ck::Wrong, "")
            }
        }
        (6, 58) => {
            if seg.len() < 4 {
                return (Ck::NA, "icmpv6 too short");
            }
            if fold(pseudo_words(src, dst, 58, seg.len() as u32) + words(seg)) == 0xffff {
                (Ck::Valid, "")
            } else {
                (Ck::Wrong, "")
            }
        }
        (_, 6) => {
            if seg.len() < 20 {
                return (Ck::NA, "tcp too short");
            }
            if fold(pseudo_words(src, dst, 6, seg.len() as u32) + words(seg)) == 0xffff {
                (Ck::Valid, "")
            } else {
                (Ck::Wrong, "")
            }
        }
        (_, 17) => {
            if seg.len() < 8 {
                return (Ck::NA, "udp too short");
            }
            if get16(&seg[6..8]) == 0 {
                return (if ver == 4 { Ck::UdpZero4 } else { Ck::UdpZero6 }, "");
            }
            let ulen = get16(&seg[4..6]) as usize;
            // Interpretation B: coverage and pseudo-header length from the IP layer.
            let valid_b = fold(pseudo_words(src, dst, 17, seg.len() as u32) + words(seg)) == 0xffff;
            if ulen >= 8 && ulen <= seg.len() {
                // Interpretation A (RFC 768): coverage and pseudo-header length = UDP length field.
                let valid_a = fold(pseudo_words(src, dst, 17, ulen as u32) + words(&seg[..ulen])) == 0xffff;
                if valid_a {
                    (Ck::Valid, "")
                } else if !valid_b {
                    (Ck::Wrong, "")
                } else {
                    (Ck::NA, "udp length interpretations disagree")
                }
            } else if !valid_b {
                (Ck::Wrong, "udp length field infeasible")
            } else {
                (Ck::NA, "udp length field infeasible but ip-length interpretation verifies")
            }
        }
        _ => (Ck::NA, "protocol without checksum rule"),
    }
}

/// Classify an IP packet (no link header).
pub fn classify(p: &[u8]) -> Info {
    if p.is_empty() {
        return Info::na("empty");
    }
    match p[0] >> 4 {
        4 => {
            if p.len() < 20 {
                return Info::na("ipv4 truncated");
            }
            let ihl = (p[0] & 0x0f) as usize * 4;
            let tl = get16(&p[2..4]) as usize;
            if ihl < 20 || ihl > p.len() {
                return Info::na("ipv4 ihl not delimitable");
            }
            let hs = ref_sum(&p[..ihl]);
            let hdr = if hs == 0xffff { Ck::Valid } else { Ck::Wrong };
            let mut info = Info { ver: 4, ip4_hdr: hdr, proto: p[9], l4: Ck::NA, l4_off: ihl, l4_end: ihl, frag: false, note: "" };
            if tl < ihl || tl > p.len() {
                info.note = "ipv4 total length not delimitable";
                // the header checksum itself is still well defined (covers ihl bytes)
                return info;
            }
            info.l4_end = tl;
            let fo = get16(&p[6..8]);
            if fo & 0x2000 != 0 || fo & 0x1fff != 0 {
                info.frag = true;
                info.note = "fragment";
                return info;
            }
            let (c, n) = l4_check(4, &p[12..16], &p[16..20], p[9], &p[ihl..tl]);
            info.l4 = c;
            info.note = n;
            info
        }
        6 => {
            if p.len() < 40 {
                return Info::na("ipv6 truncated");
            }
            let pl = get16(&p[4..6]) as usize;
            if 40 + pl > p.len() {
                return Info::na("ipv6 payload length not delimitable");
            }
            let end = 40 + pl;
            let mut nh = p[6];
            let mut off = 40;
            let mut info = Info { ver: 6, ip4_hdr: Ck::NA, proto: nh, l4: Ck::NA, l4_off: off, l4_end: end, frag: false, note: "" };
            loop {
                match nh {
                    0 | 43 | 60 => {
                        if off + 8 > end {
                            info.note = "ipv6 extension header truncated";
                            return info;
                        }
                        let l = (p[off + 1] as usize + 1) * 8;
                        if off + l > end {
                            info.note = "ipv6 extension header truncated";
                            return info;
                        }
                        nh = p[off];
                        off += l;
                    }
                    44 => {
                        info.frag = true;
                        info.note = "fragment";
                        return info;
                    }
                    _ => break,
                }
            }
            info.proto = nh;
            info.l4_off = off;
            let (c, n) = l4_check(6, &p[8..24], &p[24..40], nh, &p[off..end]);
            info.l4 = c;
            info.note = n;
            info
        }
        _ => Info::na("not ipv4/ipv6"),
    }
}
