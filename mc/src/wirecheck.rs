//! wirecheck: an INDEPENDENT parser/validator for the frames smoltcp emits. Written from the
//! RFCs (791, 8200, 9293, 768, 792, 4443, 826, 1071); shares no code with `smoltcp::wire`.
//! Used as oracle (C05, C08b, C10, ...) and as pretty printer for replays.

use std::fmt;

pub fn rfc1071_sum(parts: &[&[u8]]) -> u16 {
    // one's complement sum of 16-bit big-endian words over the concatenation of parts;
    // each part except the last must have even length (true for pseudo headers)
    let mut acc: u64 = 0;
    for p in parts {
        let mut i = 0;
        while i + 1 < p.len() {
            acc += ((p[i] as u64) << 8) | p[i + 1] as u64;
            i += 2;
        }
        if i < p.len() {
            acc += (p[i] as u64) << 8;
        }
    }
    while acc >> 16 != 0 {
        acc = (acc & 0xffff) + (acc >> 16);
    }
    acc as u16
}
/// true if the data (which includes its checksum field) verifies
pub fn rfc1071_ok(parts: &[&[u8]]) -> bool {
    rfc1071_sum(parts) == 0xffff
}

#[derive(Clone, Debug, PartialEq, Eq, Hash, PartialOrd, Ord)]
pub enum Addr {
    V4([u8; 4]),
    V6([u8; 16]),
}
impl fmt::Display for Addr {
    fn fmt(&self, f: &mut fmt::Formatter) -> fmt::Result {
        match self {
            Addr::V4(a) => write!(f, "{}.{}.{}.{}", a[0], a[1], a[2], a[3]),
            Addr::V6(a) => {
                for i in 0..8 {
                    if i > 0 {
                        write!(f, ":")?;
                    }
                    write!(f, "{:x}", ((a[2 * i] as u16) << 8) | a[2 * i + 1] as u16)?;
                }
                Ok(())
            }
        }
    }
}
impl Addr {
    pub fn is_multicast(&self) -> bool {
        match self {
            Addr::V4(a) => a[0] >= 224 && a[0] <= 239,
            Addr::V6(a) => a[0] == 0xff,
        }
    }
    pub fn is_unspecified(&self) -> bool {
        match self {
            Addr::V4(a) => a == &[0; 4],
            Addr::V6(a) => a == &[0; 16],
        }
    }
    pub fn is_v4_limited_broadcast(&self) -> bool {
        matches!(self, Addr::V4(a) if a == &[255; 4])
    }
    pub fn bytes(&self) -> &[u8] {
        match self {
            Addr::V4(a) => a,
            Addr::V6(a) => a,
        }
    }
}

#[derive(Clone, Debug)]
pub struct IpInfo {
    pub version: u8,
    pub src: Addr,
    pub dst: Addr,
    /// upper-layer protocol (after IPv6 extension headers that we understand: HBH)
    pub proto: u8,
    pub hop_limit: u8,
    pub header_len: usize,
    /// total length of the IP packet as declared by its length field(s)
    pub total_len: usize,
    pub payload_off: usize,
    pub payload_len: usize,
    // IPv4 only
    pub ident: u16,
    pub dont_frag: bool,
    pub more_frags: bool,
    pub frag_offset: usize,
    pub header_checksum_ok: bool,
}

/// Parse and validate an IP packet that must occupy the WHOLE buffer.
pub fn parse_ip(b: &[u8]) -> Result<IpInfo, String> {
    if b.is_empty() {
        return Err("empty IP packet".into());
    }
    match b[0] >> 4 {
        4 => {
            if b.len() < 20 {
                return Err(format!("IPv4 packet of {} bytes", b.len()));
            }
            let ihl = ((b[0] & 0xf) as usize) * 4;
            if ihl < 20 || ihl > b.len() {
                return Err(format!("IPv4 IHL {} invalid for {} bytes", ihl, b.len()));
            }
            let total = ((b[2] as usize) << 8) | b[3] as usize;
            if total != b.len() {
                return Err(format!("IPv4 total length {} != frame payload {}", total, b.len()));
            }
            if total < ihl {
                return Err("IPv4 total length < header length".into());
            }
            let flags = b[6] >> 5;
            if flags & 0b100 != 0 {
                return Err("IPv4 reserved flag set".into());
            }
            let fo = ((((b[6] & 0x1f) as usize) << 8) | b[7] as usize) * 8;
            Ok(IpInfo {
                version: 4,
                src: Addr::V4([b[12], b[13], b[14], b[15]]),
                dst: Addr::V4([b[16], b[17], b[18], b[19]]),
                proto: b[9],
                hop_limit: b[8],
                header_len: ihl,
                total_len: total,
                payload_off: ihl,
                payload_len: total - ihl,
                ident: ((b[4] as u16) << 8) | b[5] as u16,
                dont_frag: flags & 0b010 != 0,
                more_frags: flags & 0b001 != 0,
                frag_offset: fo,
                header_checksum_ok: rfc1071_ok(&[&b[..ihl]]),
            })
        }
        6 => {
            if b.len() < 40 {
                return Err(format!("IPv6 packet of {} bytes", b.len()));
            }
            let plen = ((b[4] as usize) << 8) | b[5] as usize;
            if plen + 40 != b.len() {
                return Err(format!("IPv6 payload length {} + 40 != frame payload {}", plen, b.len()));
            }
            let mut src = [0u8; 16];
            src.copy_from_slice(&b[8..24]);
            let mut dst = [0u8; 16];
            dst.copy_from_slice(&b[24..40]);
            let mut nh = b[6];
            let mut off = 40;
            // hop-by-hop options header (smoltcp emits it for MLD)
            while nh == 0 {
                if off + 8 > b.len() {
                    return Err("IPv6 HBH header truncated".into());
                }
                let l = (b[off + 1] as usize + 1) * 8;
                if off + l > b.len() {
                    return Err("IPv6 HBH header length exceeds packet".into());
                }
                // validate option TLVs: must exactly fill the header
                let mut o = off + 2;
                while o < off + l {
                    if b[o] == 0 {
                        o += 1; // Pad1
                    } else {
                        if o + 2 > off + l {
                            return Err("IPv6 HBH option truncated".into());
                        }
                        o += 2 + b[o + 1] as usize;
                    }
                }
                if o != off + l {
                    return Err("IPv6 HBH options do not fill the header (bad padding)".into());
                }
                nh = b[off];
                off += l;
            }
            Ok(IpInfo {
                version: 6,
                src: Addr::V6(src),
                dst: Addr::V6(dst),
                proto: nh,
                hop_limit: b[7],
                header_len: off,
                total_len: b.len(),
                payload_off: off,
                payload_len: b.len() - off,
                ident: 0,
                dont_frag: false,
                more_frags: false,
                frag_offset: 0,
                header_checksum_ok: true,
            })
        }
        v => Err(format!("IP version {}", v)),
    }
}

pub fn pseudo_header(ip: &IpInfo, proto: u8, len: usize) -> Vec<u8> {
    let mut v = vec![];
    v.extend_from_slice(ip.src.bytes());
    v.extend_from_slice(ip.dst.bytes());
    match ip.version {
        4 => {
            v.push(0);
            v.push(proto);
            v.push((len >> 8) as u8);
            v.push(len as u8);
        }
        _ => {
            v.extend_from_slice(&(len as u32).to_be_bytes());
            v.extend_from_slice(&[0, 0, 0, proto]);
        }
    }
    v
}

pub const TCP_FIN: u8 = 0x01;
pub const TCP_SYN: u8 = 0x02;
pub const TCP_RST: u8 = 0x04;
pub const TCP_PSH: u8 = 0x08;
pub const TCP_ACK: u8 = 0x10;

#[derive(Clone, Debug)]
pub struct TcpInfo {
    pub sport: u16,
    pub dport: u16,
    pub seq: u32,
    pub ack: u32,
    pub flags: u8,
    pub win: u16,
    pub header_len: usize,
    pub mss: Option<u16>,
    pub wscale: Option<u8>,
    pub sack_permitted: bool,
    pub sack: Vec<(u32, u32)>,
    pub ts: Option<(u32, u32)>,
    pub payload: Vec<u8>,
    pub checksum_ok: bool,
    /// sequence space consumed: payload + SYN + FIN
    pub seg_len: usize,
}
impl TcpInfo {
    pub fn has(&self, f: u8) -> bool {
        self.flags & f != 0
    }
    pub fn flag_str(&self) -> String {
        let mut s = String::new();
        for (f, n) in [(TCP_SYN, "S"), (TCP_FIN, "F"), (TCP_RST, "R"), (TCP_PSH, "P"), (TCP_ACK, ".")] {
            if self.has(f) {
                s.push_str(n);
            }
        }
        s
    }
}

/// Parse and validate a TCP segment carried by `ip` in packet `b` (the whole IP packet).
pub fn parse_tcp(ip: &IpInfo, b: &[u8]) -> Result<TcpInfo, String> {
    let t = &b[ip.payload_off..ip.payload_off + ip.payload_len];
    if t.len() < 20 {
        return Err(format!("TCP segment of {} bytes", t.len()));
    }
    let hl = ((t[12] >> 4) as usize) * 4;
    if hl < 20 || hl > t.len() {
        return Err(format!("TCP data offset {} invalid for segment of {} bytes", hl, t.len()));
    }
    if t[12] & 0x0f != 0 {
        return Err("TCP reserved bits set".into());
    }
    let flags = t[13];
    let mut info = TcpInfo {
        sport: ((t[0] as u16) << 8) | t[1] as u16,
        dport: ((t[2] as u16) << 8) | t[3] as u16,
        seq: u32::from_be_bytes([t[4], t[5], t[6], t[7]]),
        ack: u32::from_be_bytes([t[8], t[9], t[10], t[11]]),
        flags,
        win: ((t[14] as u16) << 8) | t[15] as u16,
        header_len: hl,
        mss: None,
        wscale: None,
        sack_permitted: false,
        sack: vec![],
        ts: None,
        payload: t[hl..].to_vec(),
        checksum_ok: false,
        seg_len: 0,
    };
    // options: each option must lie inside the header; list ends at EOL or header end;
    // after EOL only zero padding is allowed
    let mut o = 20;
    while o < hl {
        match t[o] {
            0 => {
                if t[o..hl].iter().any(|&x| x != 0) {
                    return Err("TCP option padding after End-of-List is not zero".into());
                }
                break;
            }
            1 => o += 1,
            kind => {
                if o + 2 > hl {
                    return Err("TCP option header truncated".into());
                }
                let l = t[o + 1] as usize;
                if l < 2 || o + l > hl {
                    return Err(format!("TCP option kind {} length {} invalid", kind, l));
                }
                let d = &t[o + 2..o + l];
                match kind {
                    2 => {
                        if l != 4 {
                            return Err("TCP MSS option length != 4".into());
                        }
                        info.mss = Some(((d[0] as u16) << 8) | d[1] as u16);
                    }
                    3 => {
                        if l != 3 {
                            return Err("TCP window scale option length != 3".into());
                        }
                        info.wscale = Some(d[0]);
                    }
                    4 => {
                        if l != 2 {
                            return Err("TCP SACK-permitted option length != 2".into());
                        }
                        info.sack_permitted = true;
                    }
                    5 => {
                        if (l - 2) % 8 != 0 || l == 2 {
                            return Err("TCP SACK option length invalid".into());
                        }
                        for c in d.chunks(8) {
                            info.sack.push((
                                u32::from_be_bytes([c[0], c[1], c[2], c[3]]),
                                u32::from_be_bytes([c[4], c[5], c[6], c[7]]),
                            ));
                        }
                    }
                    8 => {
                        if l != 10 {
                            return Err("TCP timestamp option length != 10".into());
                        }
                        info.ts = Some((
                            u32::from_be_bytes([d[0], d[1], d[2], d[3]]),
                            u32::from_be_bytes([d[4], d[5], d[6], d[7]]),
                        ));
                    }
                    _ => {}
                }
                o += l;
            }
        }
    }
    if (info.mss.is_some() || info.wscale.is_some() || info.sack_permitted) && flags & TCP_SYN == 0 {
        return Err("TCP MSS / window-scale / SACK-permitted option on a non-SYN segment".into());
    }
    let ph = pseudo_header(ip, 6, t.len());
    info.checksum_ok = rfc1071_ok(&[&ph, t]);
    info.seg_len = info.payload.len() + (flags & TCP_SYN != 0) as usize + (flags & TCP_FIN != 0) as usize;
    Ok(info)
}

pub fn describe_ip_frame(b: &[u8]) -> String {
    match parse_ip(b) {
        Err(e) => format!("<unparsable IP: {}>", e),
        Ok(ip) => {
            if ip.proto == 6 && ip.frag_offset == 0 && !ip.more_frags {
                match parse_tcp(&ip, b) {
                    Ok(t) => format!(
                        "TCP {}:{}>{}:{} [{}] seq={} ack={} win={} len={}{}{}{}",
                        ip.src,
                        t.sport,
                        ip.dst,
                        t.dport,
                        t.flag_str(),
                        t.seq,
                        t.ack,
                        t.win,
                        t.payload.len(),
                        t.mss.map(|m| format!(" mss={}", m)).unwrap_or_default(),
                        t.wscale.map(|m| format!(" ws={}", m)).unwrap_or_default(),
                        if t.checksum_ok { "" } else { " BADCSUM" }
                    ),
                    Err(e) => format!("<bad TCP: {}>", e),
                }
            } else {
                format!("IPv{} {}>{} proto={} len={}", ip.version, ip.src, ip.dst, ip.proto, ip.total_len)
            }
        }
    }
}

/// modular comparison helpers on 32-bit sequence numbers
pub fn seq_lt(a: u32, b: u32) -> bool {
    (a.wrapping_sub(b) as i32) < 0
}
pub fn seq_le(a: u32, b: u32) -> bool {
    (a.wrapping_sub(b) as i32) <= 0
}
pub fn seq_diff(a: u32, b: u32) -> i64 {
    a.wrapping_sub(b) as i32 as i64
}
