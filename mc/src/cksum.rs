//! C08 — Internet checksums are computed correctly, emitted valid and enforced.
//!
//! (a) `smoltcp::wire::checksum::{data, combine, pseudo_header*}` against an independent RFC 1071
//!     reference, bounded-exhaustive over length x alignment x content classes (`cksum/parta.rs`);
//! (b) every frame a real `Interface` emits verifies under the independent offsets-only
//!     extractor/verifier of `cksum/wirex.rs`:
//!     * `cksum/partb.rs`: Medium::Ip / Ethernet, IPv4 + IPv6, every payload size, every
//!       ChecksumCapabilities setting (asserted per protocol by the harness's OWN tx table),
//!       IPv4 fragmentation (2 and 3+ fragments: every fragment header + the reassembled datagram)
//!       under every ipv4/udp/icmpv4 capability value, DeviceCapabilities::max_burst_size;
//!     * `cksum/lowpan.rs`: Medium::Ieee802154, two real interfaces, oracle = independent
//!       802.15.4 / FRAG1-FRAGN / RFC 6282 IPHC + NHC decoder applied to what is on the air, for
//!       fe80::/64, fd00::/64 and link-local-looking addresses outside fe80::/64;
//! (c) every single-/double-bit corruption of valid packets (including DHCP replies, checksum
//!     field boundary values 0x0000/0xffff, IPv4 headers with options IHL 6/7/15) whose checksum
//!     then fails under the independent verifier must have no effect on sockets or replies (`cksum/partc.rs`); 6LoWPAN ingress with
//!     in-line and elided UDP checksums (`cksum/lowrx.rs`).

mod lowpan;
mod lowrx;
mod parta;
mod partb;
mod partc;
mod wirex;
mod world;

use crate::core::*;
use serde_json::json;

pub fn run(tier: Tier) -> i32 {
    let mut rep = Report::new("C08", tier);
    rep.assumptions.push("reference = u64 accumulation of big-endian 16-bit words, odd byte zero padded, end-around-carry fold (cksum/wirex.rs); trusted".into());
    rep.assumptions.push("0x0000 and 0xffff are the same one's-complement number: a difference only in zero representation is counted, not reported".into());
    rep.assumptions.push("content space of checksum::data is covered by basis patterns (zeros, 0xFF saturation, counting, one-hot at every position), not all 2^(8n) contents: enumeration, not a linearity proof".into());
    rep.assumptions.push("(c): 'effect' = Debug image of the SocketSet differs or a frame is emitted; interface-internal state (neighbor cache, reassembly buffers) is not observed; raw sockets (IP level, see all IP payloads by design) are not part of the socket set".into());
    rep.assumptions.push("(c): a UDP length field that disagrees with the IP length makes the checksum 'wrong' only if it fails under both the RFC 768 (UDP length) and the IP-length interpretation; packets that cannot be delimited are not asserted".into());
    let t = std::time::Instant::now();
    parta::run(&mut rep, tier);
    let ta = t.elapsed().as_secs_f64();
    partb::run(&mut rep, tier);
    lowpan::run(&mut rep, tier);
    let tb = t.elapsed().as_secs_f64();
    partc::run(&mut rep, tier);
    lowrx::run(&mut rep, tier);
    let tc = t.elapsed().as_secs_f64();
    eprintln!("C08 part wall times: (a) {:.1}s (b) {:.1}s (c) {:.1}s", ta, tb - ta, tc - tb);
    rep.cov("rule", json!("states = distinct inputs evaluated: (a) (length, alignment, content) tuples, combine tuples, pseudo-header tuples; (b) scenario instances (medium, capabilities, kind, version, size, pattern); (c) distinct packets (base or mutant) delivered. transitions = evaluations of smoltcp code: checksum calls in (a), Interface::poll calls in (b)/(c)"));
    rep.finish()
}

pub fn replay(art: &serde_json::Value) -> i32 {
    let r = &art["replay"];
    match r["part"].as_str().unwrap_or("") {
        "a-data" | "a-combine" | "a-pseudo" => parta::replay(r),
        "b" => partb::replay(r),
        "b6" => lowpan::replay(r),
        "c" => partc::replay(r),
        "c6" => lowrx::replay(r),
        other => {
            eprintln!("unknown replay part {:?}", other);
            2
        }
    }
}
