//! C20 -- 6LoWPAN compression and fragmentation are lossless.
//!
//! Bounded-exhaustive enumeration (no sampling) of scenarios executed on two REAL smoltcp
//! interfaces on `Medium::Ieee802154` joined by an in-memory network; the same scenario is run on
//! two interfaces on `Medium::Ip` and the receivers' socket-level observations are compared
//! (differential oracle), plus direct clauses (frame size, nothing delivered that was not sent,
//! every accepted in-bounds datagram delivered exactly once for in-order frames). A second part
//! captures the fragments of a datagram and feeds every permutation (+ one duplicate) to fresh and
//! to warmed-up receivers. See `lowpan/scen.rs` for the oracles and `lowpan/world.rs` for the plumbing.
//!
//! Parts (scenario `part`):
//!  * `udp`     one datagram per exchange: address classes x port pairs x hop limits x every length
//!              (up to and past the largest the fragmentation buffer admits), hardware address
//!              kinds, PAN/no PAN, device MTU, transmit-buffer pre-fill patterns;
//!  * `b2b`     two datagrams queued on ONE socket before the same poll;
//!  * `twosock` two sockets of the sending interface (UDP + second UDP socket, or UDP + ICMP
//!              socket) each queue one datagram before the same poll: both must be reproduced;
//!  * `seq`     datagram 1, quiescence, datagram 2 on the same interfaces (stale state);
//!  * `hwchg`   Interface::set_hardware_addr on the sender while fragments are pending;
//!  * `ingress` the sender receives an echo request / UDP to a closed port (from the peer or a third
//!              node) while its own fragments are pending;
//!  * `perm`    every order (+ one duplicate) of the fragments of a datagram, fed to a receiver that
//!              has never reassembled anything / has reassembled a smaller / a larger datagram;
//!              delivery is demanded for every order;
//!  * `icmp`    echo request/reply through ICMP sockets; `tcp` a short connection; `mld` group join.

mod scen;
mod world;

use crate::core::*;
use rayon::prelude::*;
use scen::*;
use serde_json::{json, Value};
use std::collections::BTreeSet;
use world::*;

/// sizes of the compressed headers for a scenario; used ONLY to pick boundary payload lengths in
/// the quick tier (stimulus selection); the thorough tier runs every length.
fn header_sizes(scn: &Scn) -> (usize, usize, usize, usize) {
    hdr_sizes(scn.s_hw, scn.r_hw, scn.src, scn.dst, scn.sport, scn.dport, scn.hl, scn.proto())
}

fn boundary_lens(scn: &Scn) -> Vec<usize> {
    let (mac, ch, uh, extra) = header_sizes(scn);
    let avail = 125usize.saturating_sub(mac);
    let diff = uh - ch.min(uh);
    let frag1 = ((avail.saturating_sub(4) + diff) / 8 * 8).saturating_sub(diff);
    let fragn = avail.saturating_sub(5) / 8 * 8;
    let mut b: Vec<i64> = vec![avail as i64 - ch as i64];
    for k in 0..=3i64 {
        b.push(frag1 as i64 - ch as i64 + k * fragn as i64);
    }
    let mut set: BTreeSet<usize> = [0usize, 1, 2, 1400].into_iter().collect();
    // uncompressed size = initial reassembly buffer size, +-1
    let maxin = max_ipv6_len() - uh - extra;
    set.insert(maxin - 1);
    set.insert(maxin);
    set.insert(maxin + 1);
    // compressed size = fragmentation buffer size - 1, exactly, + 1 (the largest datagram the
    // sender can stage), and well beyond: only the safety clauses apply there
    let cap = cap_len(scn);
    set.insert(cap - 1);
    set.insert(cap);
    set.insert(cap + 1);
    set.insert(cap + 20);
    for x in b {
        for d in [-9i64, -8, -7, -2, -1, 0, 1, 2, 7, 8, 9] {
            let v = x - extra as i64 + d;
            if v >= 0 {
                set.insert(v as usize);
            }
        }
    }
    set.into_iter().collect()
}

/// payload length whose predicted COMPRESSED datagram is exactly FRAGMENTATION_BUFFER_SIZE
fn cap_len(scn: &Scn) -> usize {
    let (_, ch, _, extra) = header_sizes(scn);
    smoltcp::config::FRAGMENTATION_BUFFER_SIZE - ch - extra
}

/// every length up to one past the largest datagram the fragmentation buffer admits, + one far beyond
fn all_lens(scn: &Scn) -> Vec<usize> {
    let cap = cap_len(scn);
    let mut v: Vec<usize> = (0..=cap + 1).collect();
    v.push(cap + 20);
    v
}

struct Plan {
    udp: Vec<(Scn, Vec<usize>, Option<usize>)>,
    b2b: Vec<Scn>,
    seq: Vec<Scn>,
    hwchg: Vec<Scn>,
    ingress: Vec<Scn>,
    twosock: Vec<Scn>,
    perm: Vec<Scn>,
    icmp: Vec<Scn>,
    tcp: Vec<Scn>,
    dims: Value,
}

fn addr_pairs_ext() -> Vec<(AddrClass, AddrClass)> {
    let mut v = vec![];
    for s in UNICAST_CLASSES {
        for d in UNICAST_CLASSES.iter().chain(MCAST_CLASSES.iter()) {
            v.push((s, *d));
        }
    }
    v
}

fn plan(tier: Tier) -> Plan {
    let thorough = tier == Tier::Thorough;
    let mut udp = vec![];
    let mut push_udp = |s_hw: HwKind, r_hw: HwKind, src: AddrClass, dst: AddrClass, pan: bool, mtu: usize, sp: u16, dp: u16, hl: u8, every_len: bool| {
        let mut j = Scn::base("udp");
        j.s_hw = s_hw;
        j.r_hw = r_hw;
        j.src = src;
        j.dst = dst;
        j.pan = pan;
        j.mtu = mtu;
        j.sport = sp;
        j.dport = dp;
        j.hl = hl;
        if !j.feasible() {
            return;
        }
        let mut lens = if thorough && every_len { all_lens(&j) } else { boundary_lens(&j) };
        if !thorough && (sp, dp, hl) == (1234, 1234, 64) && pan && mtu == 1500 {
            // quick tier: the first four fragments exhaustively for every address pair
            let mut set: BTreeSet<usize> = lens.iter().copied().collect();
            set.extend(0..=420usize);
            lens = set.into_iter().collect();
        }
        let (mac, ch, _, _) = header_sizes(&j);
        let pred = 125usize.checked_sub(mac + ch);
        udp.push((j, lens, pred));
    };
    // A: extended hardware addresses on both sides: address classes x port pairs x hop limits.
    // The 4x4 port classes get every length in the thorough tier; the range-boundary ports
    // (9x9 pairs) get the boundary lengths for every address pair, and every length for a few
    // address pairs (the NHC port encoding does not depend on the addresses).
    let every_len_pairs = [
        (AddrClass::LlHw, AddrClass::LlHw),
        (AddrClass::Global, AddrClass::Global),
        (AddrClass::Ll16, AddrClass::Ll64),
        (AddrClass::LlHw, AddrClass::McAllNodes),
        (AddrClass::Ctx, AddrClass::McK(12)),
    ];
    for (s, d) in addr_pairs_ext() {
        for sp in PORTS_EDGE {
            for dp in PORTS_EDGE {
                let core = PORTS.contains(&sp) && PORTS.contains(&dp);
                for hl in HOP_LIMITS {
                    push_udp(HwKind::Ext, HwKind::Ext, s, d, true, 1500, sp, dp, hl, core || every_len_pairs.contains(&(s, d)));
                }
            }
        }
    }
    // B: no PAN id configured / device MTU as a Linux 802.15.4 raw socket reports it
    for (pan, mtu) in [(false, 1500usize), (true, 125)] {
        for s in [AddrClass::LlHw, AddrClass::Global] {
            for d in [AddrClass::LlHw, AddrClass::Global, AddrClass::McAllNodes] {
                for (sp, dp) in [(1234u16, 1234u16), (0xf012, 0xf0b7)] {
                    for hl in [64u8, 7] {
                        push_udp(HwKind::Ext, HwKind::Ext, s, d, pan, mtu, sp, dp, hl, true);
                    }
                }
            }
        }
    }
    // C: short hardware addresses (see Scn::feasible for what can be set up)
    let short_cfgs: [(HwKind, HwKind, &[AddrClass], &[AddrClass]); 3] = [
        (HwKind::Short, HwKind::Ext, &[AddrClass::LlHw, AddrClass::Global], &[AddrClass::LlHw, AddrClass::McAllNodes, AddrClass::McSolicited, AddrClass::Mc32, AddrClass::McK(12)]),
        (HwKind::Ext, HwKind::Short, &[AddrClass::LlHw, AddrClass::Ll16], &[AddrClass::McAllNodes, AddrClass::Mc8]),
        (HwKind::Short, HwKind::Short, &[AddrClass::LlHw], &[AddrClass::McAllNodes, AddrClass::McSolicited]),
    ];
    for (sh, rh, srcs, dsts) in short_cfgs {
        for s in srcs {
            for d in dsts {
                for sp in PORTS {
                    for dp in PORTS {
                        for hl in HOP_LIMITS {
                            push_udp(sh, rh, *s, *d, true, 1500, sp, dp, hl, true);
                        }
                    }
                }
            }
        }
    }

    // D: other pre-fill patterns of the transmit buffers (every header bit sees both polarities)
    for fill in [0x5au8, 0xff, 0x00] {
        for (s, d) in addr_pairs_ext() {
            for (sp, dp) in [(1234u16, 1234u16), (0xf012, 0xf0b7)] {
                for hl in [64u8, 7] {
                    let mut j = Scn::base("udp");
                    j.src = s;
                    j.dst = d;
                    j.sport = sp;
                    j.dport = dp;
                    j.hl = hl;
                    j.fill = fill;
                    let cap = cap_len(&j);
                    let lens = if thorough { (0..=440usize).chain([1400usize, 1452, 1453, cap - 1, cap, cap + 1]).collect() } else { boundary_lens(&j) };
                    let (mac, ch, _, _) = header_sizes(&j);
                    udp.push((j, lens, 125usize.checked_sub(mac + ch)));
                }
            }
        }
    }

    // sequences: datagram 1, poll to quiescence, datagram 2 on the same interfaces (state that
    // survives in the long-lived fragmentation buffer / reassembly slots / header setters)
    let mut seq: Vec<Scn> = vec![];
    {
        let all_dst: Vec<AddrClass> = UNICAST_CLASSES.iter().chain(MCAST_CLASSES.iter()).copied().collect();
        let mut push_seq = |sh: HwKind, f: Dgp, m: Dgp, c1: usize, c2: usize, fill: u8| {
            let mut j = Scn::base("seq");
            j.s_hw = sh;
            j.src = m.src;
            j.dst = m.dst;
            j.sport = m.sport;
            j.dport = m.dport;
            j.hl = m.hl;
            j.fill = fill;
            let mut f = f;
            f.len = size_class_lens(sh, HwKind::Ext, &f)[c1];
            j.lens = vec![size_class_lens(sh, HwKind::Ext, &m)[c2]];
            j.first = Some(f);
            if j.feasible() {
                seq.push(j);
            }
        };
        let dg = |src: AddrClass, dst: AddrClass, sp: u16, dp: u16, hl: u8| Dgp { src, dst, sport: sp, dport: dp, hl, len: 0 };
        // family A: every ordered pair of (destination class, size class)
        let a_srcs: Vec<AddrClass> = if thorough { UNICAST_CLASSES.to_vec() } else { vec![AddrClass::LlHw, AddrClass::Global] };
        let a_ports: Vec<(u16, u16)> = if thorough { vec![(1234, 1234), (0xf012, 0xf0b7)] } else { vec![(1234, 1234)] };
        let a_fills: Vec<u8> = if thorough { vec![0xa5, 0x5a] } else { vec![0xa5] };
        for sh in [HwKind::Ext, HwKind::Short] {
            for src in &a_srcs {
                for d1 in &all_dst {
                    for d2 in &all_dst {
                        for (sp, dp) in &a_ports {
                            for fill in &a_fills {
                                for c1 in 0..3 {
                                    for c2 in 0..3 {
                                        push_seq(sh, dg(*src, *d1, *sp, *dp, 64), dg(*src, *d2, *sp, *dp, 64), c1, c2, *fill);
                                    }
                                }
                            }
                        }
                    }
                }
            }
        }
        // family B: source class, hop limit and port pair change between the two datagrams
        let b_srcs: Vec<AddrClass> = if thorough { UNICAST_CLASSES.to_vec() } else { vec![AddrClass::LlHw, AddrClass::Ll16, AddrClass::Global] };
        let b_hls: Vec<u8> = if thorough { HOP_LIMITS.to_vec() } else { vec![64, 7] };
        let b_ports: Vec<(u16, u16)> = if thorough { vec![(1234, 1234), (0xf012, 1234), (1234, 0xf0b7), (0xf0b7, 0xf0b1)] } else { vec![(1234, 1234), (0xf012, 0xf0b7)] };
        for d1 in [AddrClass::LlHw, AddrClass::McAllNodes] {
            for d2 in [AddrClass::LlHw, AddrClass::McAllNodes] {
                for s1 in &b_srcs {
                    for s2 in &b_srcs {
                        for h1 in &b_hls {
                            for h2 in &b_hls {
                                for p1 in &b_ports {
                                    for p2 in &b_ports {
                                        for c1 in [0usize, 2] {
                                            for c2 in [0usize, 2] {
                                                push_seq(HwKind::Ext, dg(*s1, d1, p1.0, p1.1, *h1), dg(*s2, d2, p2.0, p2.1, *h2), c1, c2, 0xa5);
                                            }
                                        }
                                    }
                                }
                            }
                        }
                    }
                }
            }
        }
    }

    // hardware address change while fragments are pending
    let mut hwchg: Vec<Scn> = vec![];
    for (from, to) in [(HwKind::Ext, HwKind::Ext), (HwKind::Ext, HwKind::Short), (HwKind::Short, HwKind::Ext)] {
        for src in [AddrClass::LlHw, AddrClass::Global] {
            for dst in [AddrClass::LlHw, AddrClass::Global, AddrClass::McAllNodes, AddrClass::McK(12)] {
                for (sp, dp) in [(1234u16, 1234u16), (0xf012, 0xf0b7)] {
                    for per in [false, true] {
                        for after in 1..=(if thorough { 6usize } else { 3 }) {
                            let mut j = Scn::base("hwchg");
                            j.s_hw = from;
                            j.src = src;
                            j.dst = dst;
                            j.sport = sp;
                            j.dport = dp;
                            j.hw_to = Some(to);
                            j.chg_after = after;
                            j.one_per_poll = per;
                            if !j.feasible() {
                                continue;
                            }
                            let c = size_class_lens(from, HwKind::Ext, &j.main_dg(0));
                            let mut sizes = vec![c[2], 600, cap_len(&j)];
                            if thorough {
                                sizes.extend([c[1], 300, 1000]);
                            }
                            for l in sizes {
                                let mut k = j.clone();
                                k.lens = vec![l];
                                hwchg.push(k);
                            }
                        }
                    }
                }
            }
        }
    }

    // ingress-triggered replies while the sender's fragments are pending
    let mut ingress: Vec<Scn> = vec![];
    for (src, dst) in [(AddrClass::LlHw, AddrClass::LlHw), (AddrClass::Global, AddrClass::Global), (AddrClass::LlHw, AddrClass::McAllNodes)] {
        for (sp, dp) in [(1234u16, 1234u16), (0xf012, 0xf0b7)] {
            for per in [true, false] {
                for after in 1..=(if thorough { 5usize } else { 3 }) {
                    for kind in [1u8, 2] {
                        for third in [false, true] {
                            for stim_len in if thorough { vec![60usize, 150, 400, 700, 1000] } else { vec![60usize, 400, 1000] } {
                                let mut j = Scn::base("ingress");
                                j.src = src;
                                j.dst = dst;
                                j.sport = sp;
                                j.dport = dp;
                                j.one_per_poll = per;
                                j.chg_after = after;
                                j.stim_kind = kind;
                                j.stim_third = third;
                                j.stim_len = stim_len;
                                // peer: also with S's device fully blocked until the stimulus has arrived
                                j.block_rounds = 0;
                                let c = size_class_lens(HwKind::Ext, HwKind::Ext, &j.main_dg(0));
                                let mut sizes = vec![c[2], 600, 1200];
                                if thorough {
                                    sizes.extend([300, 900, cap_len(&j)]);
                                }
                                for l in sizes {
                                    for block in [0usize, 16] {
                                        let mut k = j.clone();
                                        k.lens = vec![l];
                                        k.block_rounds = block;
                                        ingress.push(k);
                                    }
                                }
                            }
                        }
                    }
                }
            }
        }
    }

    // two sockets of the sending interface, one datagram each, queued before the same poll
    let mut twosock: Vec<Scn> = vec![];
    {
        let pairs: Vec<(HwKind, AddrClass, AddrClass)> = if thorough {
            let mut v: Vec<_> = addr_pairs_ext().into_iter().map(|(s, d)| (HwKind::Ext, s, d)).collect();
            v.push((HwKind::Short, AddrClass::LlHw, AddrClass::McAllNodes));
            v.push((HwKind::Short, AddrClass::LlHw, AddrClass::LlHw));
            v
        } else {
            vec![
                (HwKind::Ext, AddrClass::LlHw, AddrClass::LlHw),
                (HwKind::Ext, AddrClass::Global, AddrClass::Global),
                (HwKind::Ext, AddrClass::Ll16, AddrClass::Ll64),
                (HwKind::Ext, AddrClass::LlHw, AddrClass::McAllNodes),
                (HwKind::Ext, AddrClass::Ctx, AddrClass::McK(12)),
                (HwKind::Short, AddrClass::LlHw, AddrClass::McAllNodes),
            ]
        };
        for (sh, src, dst) in pairs {
            for (sp, dp) in [(1234u16, 1234u16), (0xf012, 0xf0b7)] {
                for kind in [0u8, 1] {
                    for per in [false, true] {
                        for c1 in 0..3 {
                            for c2 in 0..3 {
                                let mut j = Scn::base("twosock");
                                j.s_hw = sh;
                                j.src = src;
                                j.dst = dst;
                                j.sport = sp;
                                j.dport = dp;
                                j.stim_kind = kind;
                                j.one_per_poll = per;
                                j.lens = vec![size_class_lens(sh, HwKind::Ext, &j.main_dg(0))[c1]];
                                let mut f = Dgp { src, dst, sport: if sp == 1234 { SPORT2 } else { 0xf013 }, dport: dp, hl: 64, len: 0 };
                                f.len = size_class_lens(sh, HwKind::Ext, &f)[c2];
                                j.first = Some(f);
                                if j.feasible() {
                                    twosock.push(j);
                                }
                            }
                        }
                    }
                }
            }
        }
    }

    // back to back
    let b2b_sizes: Vec<usize> = if thorough { vec![0, 8, 60, 100, 150, 200, 300, 600, 1200] } else { vec![8, 100, 200, 600] };
    let b2b_pairs: Vec<(HwKind, AddrClass, AddrClass)> = if thorough {
        let mut v: Vec<_> = addr_pairs_ext().into_iter().map(|(s, d)| (HwKind::Ext, s, d)).collect();
        v.push((HwKind::Short, AddrClass::LlHw, AddrClass::McAllNodes));
        v.push((HwKind::Short, AddrClass::LlHw, AddrClass::LlHw));
        v
    } else {
        vec![
            (HwKind::Ext, AddrClass::LlHw, AddrClass::LlHw),
            (HwKind::Ext, AddrClass::Global, AddrClass::Global),
            (HwKind::Ext, AddrClass::LlHw, AddrClass::McAllNodes),
            (HwKind::Ext, AddrClass::Ll64, AddrClass::Ctx),
            (HwKind::Short, AddrClass::LlHw, AddrClass::McAllNodes),
        ]
    };
    let b2b_ports: Vec<(u16, u16)> = if thorough {
        PORTS.iter().flat_map(|a| PORTS.iter().map(move |b| (*a, *b))).collect()
    } else {
        vec![(1234, 1234), (0xf012, 0xf0b7)]
    };
    let mut b2b = vec![];
    for (sh, s, d) in &b2b_pairs {
        for (sp, dp) in &b2b_ports {
            for a in &b2b_sizes {
                for b in &b2b_sizes {
                    let mut j = Scn::base("b2b");
                    j.s_hw = *sh;
                    j.src = *s;
                    j.dst = *d;
                    j.sport = *sp;
                    j.dport = *dp;
                    j.lens = vec![*a, *b];
                    if j.feasible() {
                        b2b.push(j);
                    }
                }
            }
        }
    }

    // fragment order: datagrams that need 2..=4 fragments
    let perm_pairs: Vec<(HwKind, AddrClass, AddrClass)> = if thorough {
        let mut v: Vec<_> = addr_pairs_ext().into_iter().map(|(s, d)| (HwKind::Ext, s, d)).collect();
        v.push((HwKind::Short, AddrClass::LlHw, AddrClass::McAllNodes));
        v
    } else {
        vec![
            (HwKind::Ext, AddrClass::LlHw, AddrClass::LlHw),
            (HwKind::Ext, AddrClass::Global, AddrClass::Global),
            (HwKind::Ext, AddrClass::Ll16, AddrClass::Ll64),
            (HwKind::Ext, AddrClass::Ctx, AddrClass::McSolicited),
            (HwKind::Ext, AddrClass::LlHw, AddrClass::McAllNodes),
            (HwKind::Short, AddrClass::LlHw, AddrClass::McAllNodes),
        ]
    };
    let perm_ports: Vec<(u16, u16)> = vec![(1234, 1234), (0xf012, 1234), (1234, 0xf0b7), (0xf0b7, 0xf0b1), (0xf0bf, 0xf0b0)];
    let mut perm = vec![];
    for (sh, s, d) in &perm_pairs {
        for (sp, dp) in &perm_ports {
            let mut j = Scn::base("perm");
            j.s_hw = *sh;
            j.src = *s;
            j.dst = *d;
            j.sport = *sp;
            j.dport = *dp;
            if !j.feasible() {
                continue;
            }
            let lens: Vec<usize> = if thorough { (40..=440).collect() } else { boundary_lens(&j).into_iter().filter(|l| *l <= 440).collect() };
            for l in lens {
                // the receiver is (a) fresh: the permuted set is the first reassembly of its life,
                // (b) warmed up by a smaller (2-frame) datagram, (c) warmed up by a larger one
                let c2 = size_class_lens(*sh, HwKind::Ext, &j.main_dg(0))[1];
                for prior in [None, Some(c2), Some(700usize)] {
                    let mut k = j.clone();
                    k.lens = vec![l];
                    k.first = prior.map(|pl| Dgp { len: pl, ..j.main_dg(0) });
                    perm.push(k);
                }
            }
        }
    }

    // ICMPv6 echo: `src` is the class of S's second address (the stack selects the source itself)
    let mut icmp = vec![];
    let icmp_dsts = [AddrClass::LlHw, AddrClass::Ll16, AddrClass::Ll64, AddrClass::Global, AddrClass::Ctx, AddrClass::McAllNodes];
    for s in UNICAST_CLASSES {
        for d in icmp_dsts {
            for hl in HOP_LIMITS {
                let mut j = Scn::base("icmp");
                j.src = s;
                j.dst = d;
                j.hl = hl;
                let lens = if thorough { all_lens(&j) } else { boundary_lens(&j) };
                for l in lens {
                    let mut k = j.clone();
                    k.lens = vec![l];
                    icmp.push(k);
                }
            }
        }
    }

    // TCP: a short connection, N bytes each way
    let tcp_n: Vec<usize> = if thorough { vec![0, 1, 2, 10, 64, 65, 66, 100, 200, 500, 1000, 1439, 1440, 1441, 2000, 3000, 5000] } else { vec![0, 1, 100, 1000, 3000] };
    let tcp_pairs = [
        (AddrClass::LlHw, AddrClass::LlHw),
        (AddrClass::Ll16, AddrClass::Ll16),
        (AddrClass::Ll64, AddrClass::Ll64),
        (AddrClass::Global, AddrClass::Global),
        (AddrClass::Ctx, AddrClass::Ctx),
        (AddrClass::LlHw, AddrClass::Global),
        (AddrClass::Global, AddrClass::LlHw),
        (AddrClass::Ll16, AddrClass::Ll64),
        (AddrClass::Ctx, AddrClass::Global),
    ];
    let tcp_hl: Vec<u8> = if thorough { HOP_LIMITS.to_vec() } else { vec![64, 7] };
    let mut tcp = vec![];
    for (s, d) in tcp_pairs {
        for mtu in [1500usize, 125] {
            for hl in &tcp_hl {
                for n in &tcp_n {
                    let mut j = Scn::base("tcp");
                    j.src = s;
                    j.dst = d;
                    j.mtu = mtu;
                    j.hl = *hl;
                    j.sport = 0xf0b1;
                    j.dport = 0xf0b2;
                    j.lens = vec![*n];
                    tcp.push(j);
                }
            }
        }
    }

    let dims = json!({
        "udp": {
            "jobs (address pair x port pair x hop limit x hw kinds x pan x mtu)": udp.len(),
            "source address classes": UNICAST_CLASSES.iter().map(|c| c.name()).collect::<Vec<_>>(),
            "destination address classes": UNICAST_CLASSES.iter().chain(MCAST_CLASSES.iter()).map(|c| c.name()).collect::<Vec<_>>(),
            "ports (source x destination, 9x9)": PORTS_EDGE.iter().map(|p| format!("{:#06x}", p)).collect::<Vec<_>>(),
            "ports with every length in thorough (4x4; the other pairs: boundary lengths, plus every length for 5 address pairs)": PORTS.iter().map(|p| format!("{:#06x}", p)).collect::<Vec<_>>(),
            "hop limits": HOP_LIMITS,
            "hardware address kinds (S,R)": ["ext-ext", "short-ext", "ext-short", "short-short"],
            "lengths per job": if thorough { json!("every length from 0 to one past the payload whose compressed datagram fills FRAGMENTATION_BUFFER_SIZE exactly (1453..1494 depending on the header class), plus one 20 octets beyond") } else { json!("0,1,2, largest unfragmented +-2 (+-7..9), exact fill of fragments 1..4 +-2 (+-7..9), 1400, max in bounds, uncompressed size = 1500 +-1, compressed size = FRAGMENTATION_BUFFER_SIZE -1/0/+1/+20; for ports 1234x1234, hop limit 64 additionally every length 0..=420") },
            "lengths of the first job": udp.first().map(|(_, l, _)| l.len()),
            "exchanges in total": udp.iter().map(|(_, l, _)| l.len()).sum::<usize>(),
        },
        "seq": {"scenarios": seq.len(), "family A": "ordered pairs of (destination class x size class {1 frame, 2 frames, 3 frames}) for datagram 1 and 2, per source class, sender hw kind {ext, short}", "family B": "source class, hop limit, port pair and size class {1 frame, 3 frames} all change between datagram 1 and 2; destinations {ll-hw, ff02::1}^2",
            "tx buffer pre-fill": "0xa5 (thorough family A also 0x5a)"},
        "udp_prefill_variants": "all ext-ext address pairs x 2 port pairs x 2 hop limits with transmit buffers pre-filled 0x5a, 0xff, 0x00 (everything else 0xa5)",
        "hwchg": {"scenarios": hwchg.len(), "what": "one fragmented datagram; Interface::set_hardware_addr on the sender after 1..k exchange rounds while fragments are pending",
            "transitions": ["ext->ext", "ext->short", "short->ext"], "device": ["unlimited", "one frame per poll"], "sizes": "3 frames, 600, largest the fragmentation buffer admits (thorough: + 2 frames, 300, 1000)"},
        "ingress": {"scenarios": ingress.len(), "what": "S starts a fragmented datagram; after 1..k rounds, while fragments are pending, it receives an echo request / a UDP datagram to a closed port (payload 60..1000) from the peer or from a third node (captured frames incl. its neighbor solicitation); the automatic reply may need fragmentation itself",
            "device": ["one frame per poll", "unlimited", "each also fully blocked for 16 rounds while the stimulus arrives"], "sizes of S's datagram": "3 frames, 600, 1200 (thorough: + 300, 900, largest)"},
        "twosock": {"scenarios": twosock.len(), "what": "two sockets of the sending interface each queue one datagram before the same poll: UDP socket 1 (first in the SocketSet) + a second UDP socket (other local port) or the ICMP socket (echo request); size classes {1 frame, 2 frames, 3 frames}^2; device unlimited / one frame per poll; both must be reproduced at the receiver, in any order"},
        "b2b": {"scenarios": b2b.len(), "sizes (each of two datagrams)": b2b_sizes, "address pairs": b2b_pairs.len(), "port pairs": b2b_ports.len()},
        "perm": {"captures": perm.len(), "address pairs": perm_pairs.len(), "port pairs": perm_ports.len(), "receiver": "fresh (first reassembly of its life) / has reassembled a 2-frame datagram before / has reassembled a larger (700-octet) datagram before; delivery is demanded for EVERY order", "sequences": "n!: 2/6/24 permutations; n<=3: + every permutation with one fragment inserted a second time at any position (6 resp. 36 distinct sequences more)"},
        "icmp": {"scenarios": icmp.len(), "address configs": UNICAST_CLASSES.len() * icmp_dsts.len(), "hop limits": HOP_LIMITS},
        "tcp": {"scenarios": tcp.len(), "bytes each way": tcp_n, "address pairs": tcp_pairs.len(), "device mtu": [1500, 125], "hop limits": tcp_hl},
    });
    Plan { udp, b2b, seq, hwchg, ingress, twosock, perm, icmp, tcp, dims }
}

fn run_one(scn: &Scn, acc: &mut Acc) {
    match scn.part.as_str() {
        "udp" => run_udp_job(scn, &scn.lens.clone(), None, false, acc),
        "b2b" | "seq" => run_b2b(scn, acc),
        "hwchg" => run_hwchg(scn, acc),
        "ingress" => run_ingress(scn, acc),
        "twosock" => run_twosock(scn, acc),
        "icmp" => run_icmp(scn, acc),
        "tcp" => run_tcp(scn, acc),
        "mld" => run_mld(acc),
        "perm" => {
            if scn.order.is_empty() {
                run_perm(scn, acc);
            } else {
                // replay of one order: capture again, then deliver exactly that order
                let mut base = scn.clone();
                base.order = vec![];
                let cap = std::panic::catch_unwind(std::panic::AssertUnwindSafe(|| perm_capture(&base)));
                match cap {
                    Ok((prior, frames, _, _, _)) if scn.order.iter().all(|i| *i < frames.len()) => eval_perm(scn, &prior, &frames, acc),
                    Ok(_) => acc.machinery.push("perm replay: captured fewer fragments than the order refers to".into()),
                    Err(_) => acc.machinery.push("perm replay: capture panicked".into()),
                }
            }
        }
        other => acc.machinery.push(format!("unknown part {}", other)),
    }
}

fn par_run<T: Sync, F: Fn(&T, &mut Acc) + Sync>(items: &[T], chunk: usize, f: F) -> Acc {
    let parts: Vec<Acc> = items
        .par_chunks(chunk.max(1))
        .map(|c| {
            let mut a = Acc::default();
            for it in c {
                f(it, &mut a);
            }
            a
        })
        .collect();
    let mut acc = Acc::default();
    for p in parts {
        acc.merge(p);
    }
    acc
}

/// split a raw signature `C20/<clause>/<proto>/[..]<tag>|<class>` into (prefix, tag)
fn split_raw(sig: &str) -> Option<(String, String)> {
    let bar = sig.find('|')?;
    let head = &sig[..bar];
    let slash = head.rfind('/')?;
    Some((sig[..=slash].to_string(), head[slash + 1..].to_string()))
}

/// does `scn` still violate a clause whose raw signature starts with `prefix`?
fn check(scn: &Scn, prefix: &str) -> Option<(String, bool)> {
    let mut a = Acc::default();
    run_one(scn, &mut a);
    let hit = a.viols.iter().find(|(k, _)| k.starts_with(prefix)).map(|(_, (_, d))| d.clone());
    hit.map(|d| (d, a.interrupted))
}

fn final_sig(prefix: &str, tag: &str, scn: &Scn, interrupted: bool) -> String {
    if tag.starts_with("order=") {
        let n = scn.order.iter().max().map(|m| m + 1).unwrap_or(0);
        format!("{}{},{}", prefix, order_class(&scn.order, n), label_of(scn, interrupted))
    } else {
        format!("{}{}", prefix, label_of(scn, interrupted))
    }
}

fn finalize(sig: &str, scn: &Scn, _detail: &str) -> Result<(String, Scn, String), String> {
    // field / panic signatures carry no scenario class: they keep their name, only the scenario
    // is reduced
    let (prefix, tag, keep_name) = match split_raw(sig) {
        Some((p, t)) => (p, t, false),
        None => (sig.to_string(), String::new(), true),
    };
    let mut cur = scn.clone();
    let Some((mut det, mut flag)) = check(&cur, &prefix) else {
        return Err(format!("replay of {} does not reproduce it", sig));
    };
    // Each step proposes variants of the current scenario with ONE dimension reset to its
    // baseline; the first variant that still fails is adopted. Variants keep the size class
    // (a reset changes the header sizes, hence which lengths fragment): for "seq" the lengths
    // are re-derived from the size classes, for single datagrams a large length is also tried.
    type Step = Box<dyn Fn(&Scn) -> Vec<Scn>>;
    fn class_idx(s_hw: HwKind, r_hw: HwKind, d: &Dgp) -> usize {
        match size_class(s_hw, r_hw, d) {
            "1-frame" => 0,
            "2-frames" => 1,
            _ => 2,
        }
    }
    fn variants(orig: &Scn, t: Scn) -> Vec<Scn> {
        if matches!(orig.part.as_str(), "seq" | "twosock") && t.part == orig.part && orig.lens.len() == 1 {
            let (Some(of), Some(tf)) = (&orig.first, &t.first) else { return vec![t] };
            let c1 = class_idx(orig.s_hw, orig.r_hw, of);
            let c2 = class_idx(orig.s_hw, orig.r_hw, &orig.main_dg(orig.lens[0]));
            let mut out = vec![];
            for (a, b) in [(c1, c2), (2, 2)] {
                let mut v = t.clone();
                let mut f = tf.clone();
                f.len = size_class_lens(t.s_hw, t.r_hw, &f)[a];
                v.lens = vec![size_class_lens(t.s_hw, t.r_hw, &t.main_dg(0))[b]];
                v.first = Some(f);
                out.push(v);
            }
            out
        } else if matches!(orig.part.as_str(), "udp" | "icmp") && t.part == orig.part && t.lens.len() == 1 {
            // same length; same COMPRESSED size (a reset changes the header size: failures tied to
            // a size limit move with it); a large and a medium length
            let ch0 = hdr_sizes(orig.s_hw, orig.r_hw, orig.src, orig.dst, orig.sport, orig.dport, orig.hl, orig.proto()).1;
            let ch1 = hdr_sizes(t.s_hw, t.r_hw, t.src, t.dst, t.sport, t.dport, t.hl, t.proto()).1;
            let same = (orig.lens[0] + ch0).saturating_sub(ch1);
            vec![t.clone(), Scn { lens: vec![same], ..t.clone() }, Scn { lens: vec![1400], ..t.clone() }, Scn { lens: vec![300], ..t }]
        } else if orig.part == "perm" && t.part == "perm" && t.lens.len() == 1 {
            // keep the fragment layout the order refers to: same compressed size
            let ch0 = hdr_sizes(orig.s_hw, orig.r_hw, orig.src, orig.dst, orig.sport, orig.dport, orig.hl, orig.proto()).1;
            let ch1 = hdr_sizes(t.s_hw, t.r_hw, t.src, t.dst, t.sport, t.dport, t.hl, t.proto()).1;
            let same = (orig.lens[0] + ch0).saturating_sub(ch1);
            vec![t.clone(), Scn { lens: vec![same], ..t }]
        } else if orig.part == "ingress" && t.part == "ingress" {
            vec![t.clone(), Scn { lens: vec![1200], ..t }]
        } else if orig.part == "hwchg" && t.part == "hwchg" {
            vec![t.clone(), Scn { lens: vec![600], ..t }]
        } else {
            vec![t]
        }
    }
    fn dim(m: fn(&mut Scn)) -> Step {
        Box::new(move |s| {
            let mut t = s.clone();
            m(&mut t);
            variants(s, t)
        })
    }
    let mut steps: Vec<Step> = vec![];
    if scn.part == "seq" || scn.part == "twosock" {
        // the second datagram alone / the first datagram alone
        steps.push(Box::new(|s| if s.part == "seq" || s.part == "twosock" { vec![Scn { part: "udp".into(), first: None, stim_kind: 0, one_per_poll: false, ..s.clone() }] } else { vec![] }));
        steps.push(Box::new(|s| match &s.first {
            Some(f) if s.part == "seq" || (s.part == "twosock" && s.stim_kind != 1) => vec![Scn { part: "udp".into(), first: None, stim_kind: 0, one_per_poll: false, src: f.src, dst: f.dst, sport: f.sport, dport: f.dport, hl: f.hl, lens: vec![f.len], ..s.clone() }],
            _ => vec![],
        }));
    }
    if scn.part == "b2b" {
        steps.push(Box::new(|s| if s.part == "b2b" { vec![Scn { part: "udp".into(), lens: vec![s.lens[0]], ..s.clone() }] } else { vec![] }));
        steps.push(Box::new(|s| if s.part == "b2b" { vec![Scn { part: "udp".into(), lens: vec![*s.lens.last().unwrap()], ..s.clone() }] } else { vec![] }));
    }
    if scn.part == "perm" {
        // on a receiver that has never reassembled anything
        steps.push(Box::new(|s| if s.part == "perm" && s.first.is_some() { vec![Scn { first: None, ..s.clone() }] } else { vec![] }));
    }
    if scn.part == "ingress" {
        // without the disturbance (then it is an ordinary single-datagram failure)
        steps.push(Box::new(|s| if s.part == "ingress" { vec![Scn { part: "udp".into(), stim_kind: 0, stim_third: false, stim_len: 0, chg_after: 0, one_per_poll: false, ..s.clone() }] } else { vec![] }));
        steps.push(dim(|t| t.stim_third = false));
        steps.push(dim(|t| t.block_rounds = 0));
        steps.push(dim(|t| {
            if t.part == "ingress" {
                t.stim_kind = 1
            }
        }));
        steps.push(dim(|t| {
            if t.part == "ingress" && t.stim_len > 60 {
                t.stim_len = 60
            }
        }));
        steps.push(dim(|t| {
            if t.part == "ingress" && t.stim_len > 400 {
                t.stim_len = 400
            }
        }));
        steps.push(dim(|t| t.one_per_poll = false));
        steps.push(dim(|t| {
            if t.part == "ingress" {
                t.chg_after = 1
            }
        }));
    }
    if scn.part == "hwchg" {
        // without the address change at all (then it is an ordinary single-datagram failure)
        steps.push(Box::new(|s| if s.part == "hwchg" { vec![Scn { part: "udp".into(), hw_to: None, chg_after: 0, one_per_poll: false, ..s.clone() }] } else { vec![] }));
        steps.push(dim(|t| t.one_per_poll = false));
        steps.push(dim(|t| {
            if t.part == "hwchg" {
                t.chg_after = 1
            }
        }));
        for l in [300usize, 600] {
            steps.push(Box::new(move |s| if s.part == "hwchg" && l < s.lens[0] { vec![Scn { lens: vec![l], ..s.clone() }] } else { vec![] }));
        }
    }
    steps.push(dim(|t| t.fill = FILL));
    steps.push(dim(|t| {
        t.s_hw = HwKind::Ext;
        t.r_hw = HwKind::Ext;
    }));
    steps.push(dim(|t| t.s_hw = HwKind::Ext));
    steps.push(dim(|t| t.r_hw = HwKind::Ext));
    steps.push(dim(|t| t.pan = true));
    steps.push(dim(|t| t.mtu = 1500));
    steps.push(dim(|t| t.hl = 64));
    steps.push(dim(|t| t.src = AddrClass::LlHw));
    steps.push(dim(|t| t.dst = AddrClass::LlHw));
    // any multicast destination -> the simplest one
    steps.push(dim(|t| {
        if t.dst.is_mcast() {
            t.dst = AddrClass::McAllNodes
        }
    }));
    if scn.proto() == Proto::Udp {
        // the port PAIR selects one NHC encoding branch: reset it as a whole (resetting one port
        // would move the scenario into a different branch, possibly into a different defect)
        steps.push(dim(|t| {
            t.sport = 1234;
            t.dport = 1234;
        }));
        // same NHC port mode, canonical values (whole pair, then each port alone)
        steps.push(dim(|t| {
            let c = canonical_ports(t.sport, t.dport);
            t.sport = c.0;
            t.dport = c.1;
        }));
        steps.push(dim(|t| {
            let c = canonical_ports(t.sport, t.dport);
            if nhc_port_mode(c.0, t.dport) == nhc_port_mode(t.sport, t.dport) {
                t.sport = c.0;
            }
        }));
        steps.push(dim(|t| {
            let c = canonical_ports(t.sport, t.dport);
            if nhc_port_mode(t.sport, c.1) == nhc_port_mode(t.sport, t.dport) {
                t.dport = c.1;
            }
        }));
    }
    if scn.part == "seq" || scn.part == "twosock" {
        if scn.part == "twosock" {
            steps.push(dim(|t| t.one_per_poll = false));
            steps.push(dim(|t| {
                if t.part == "twosock" {
                    t.stim_kind = 0
                }
            }));
        }
        fn on_first(t: &mut Scn, g: fn(&mut Dgp)) {
            if t.part == "seq" || t.part == "twosock" {
                if let Some(f) = t.first.as_mut() {
                    g(f)
                }
            }
        }
        steps.push(dim(|t| on_first(t, |f| f.src = AddrClass::LlHw)));
        steps.push(dim(|t| on_first(t, |f| f.dst = AddrClass::LlHw)));
        steps.push(dim(|t| {
            on_first(t, |f| {
                if f.dst.is_mcast() {
                    f.dst = AddrClass::McAllNodes
                }
            })
        }));
        steps.push(dim(|t| on_first(t, |f| f.hl = 64)));
        steps.push(dim(|t| {
            let tw = t.part == "twosock";
            on_first(t, |f| {
                f.sport = 1234;
                f.dport = 1234;
            });
            if tw {
                on_first(t, |f| f.sport = SPORT2);
            }
        }));
        // smaller size classes, first then second datagram
        for c in [0usize, 1] {
            steps.push(Box::new(move |s| {
                let mut t = s.clone();
                if let (Some(f), true) = (t.first.as_mut(), s.part == "seq" || s.part == "twosock") {
                    let l = size_class_lens(s.s_hw, s.r_hw, f)[c];
                    if l < f.len {
                        f.len = l;
                        return vec![t];
                    }
                }
                vec![]
            }));
        }
        for c in [0usize, 1] {
            steps.push(Box::new(move |s| {
                if !(s.part == "seq" || s.part == "twosock") || s.lens.len() != 1 {
                    return vec![];
                }
                let l = size_class_lens(s.s_hw, s.r_hw, &s.main_dg(s.lens[0]))[c];
                if l < s.lens[0] {
                    vec![Scn { lens: vec![l], ..s.clone() }]
                } else {
                    vec![]
                }
            }));
        }
    }
    // smaller inputs of the same kind
    if matches!(scn.part.as_str(), "udp" | "seq" | "b2b") {
        for l in [0usize, 1, 8, 64, 100, 200, 300] {
            steps.push(Box::new(move |s| if s.part == "udp" && s.lens.len() == 1 && l < s.lens[0] { vec![Scn { lens: vec![l], ..s.clone() }] } else { vec![] }));
        }
    }
    if scn.part == "tcp" {
        for l in [0usize, 1, 100, 1000, 2000, 3000] {
            steps.push(Box::new(move |s| if l < s.lens[0] { vec![Scn { lens: vec![l], ..s.clone() }] } else { vec![] }));
        }
    }
    // to a fixpoint: a reset that did not reproduce may do so once another dimension is reset
    for _pass in 0..4 {
        let before = cur.clone();
        for st in &steps {
            for cand in st(&cur) {
                if cand == cur || !cand.feasible() {
                    continue;
                }
                if let Some((d, f)) = check(&cand, &prefix) {
                    cur = cand;
                    det = d;
                    flag = f;
                    break;
                }
            }
        }
        if cur == before {
            break;
        }
    }
    let name = if keep_name { sig.to_string() } else { final_sig(&prefix, &tag, &cur, flag) };
    Ok((name, cur, det))
}

pub fn run(tier: Tier) -> i32 {
    let mut rep = Report::new("C20", tier);
    rep.assumptions.push("two real smoltcp Interfaces per world joined by a loss-free, order-preserving in-memory network (lowpan::world::FillDevice: like SimDevice, but every transmit buffer is pre-filled with 0xa5 -- some jobs 0x5a/0xff/0x00 -- before smoltcp writes the frame, so header bits it fails to write are visible); time is the harness' Instant, advanced 100us per exchange round (TCP: jumps to poll_at when idle)".into());
    rep.assumptions.push(format!(
        "delivery is demanded only for datagrams whose uncompressed IPv6 size is <= min(FRAGMENTATION_BUFFER_SIZE={}, REASSEMBLY_BUFFER_SIZE={}); larger ones only have to be safe",
        smoltcp::config::FRAGMENTATION_BUFFER_SIZE,
        smoltcp::config::REASSEMBLY_BUFFER_SIZE
    ));
    rep.assumptions.push("order BETWEEN different datagrams (same socket, two sockets, a small datagram overtaking the fragments of a large one) is not demanded: the property is per datagram; a datagram a socket has dequeued must arrive exactly once".into());
    rep.assumptions.push("fragment-order part: the reassembler places a FRAGN at its offset whether or not FRAG1 has arrived, so every permutation (+ one duplicate) of <= 4 fragments is an order it can track: delivery exactly once is demanded for all of them, on a fresh receiver and on receivers that reassembled a smaller / a larger datagram before".into());
    rep.assumptions.push("neighbors are resolved by the real NS/NA exchange before each scenario (warm-up datagrams on separate sockets); a node with a SHORT hardware address cannot be resolved (NDISC link-layer option must be 8 octets) so it only sends to multicast or to a neighbor that solicited it".into());
    rep.assumptions.push(format!("each node owns its hardware-derived link-local address plus at most IFACE_MAX_ADDR_COUNT-1 = {} more; sequence scenarios needing more distinct unicast classes on one node are skipped in this build variant", smoltcp::config::IFACE_MAX_ADDR_COUNT - 1));
    rep.assumptions.push("frames handed to the device carry no FCS: limit is 125 octets (127 with FCS)".into());
    rep.assumptions.push("the sender never emits context-based (stateful) IPHC: the ctx class has address context 0 installed on both nodes and is expected to travel uncompressed".into());
    rep.assumptions.push("receiver accepts the multicast classes mc-8bit/32bit/48bit/full through Interface::set_any_ip(true) because join_multicast_group on this medium is itself under test (mld part)".into());

    let p = plan(tier);
    rep.cov("dimensions", p.dims.clone());
    rep.cov(
        "rule",
        json!("full product of the listed dimensions per part; every scenario is executed on a 6LoWPAN world and on a Medium::Ip reference world; evaluations = scenarios + fragment sequences fed to fresh receivers; distinct_nontrivial = datagrams/streams that went through compress -> (fragment) -> reassemble -> decompress and reached the receiving socket intact"),
    );

    let mut total = Acc::default();
    // samples from the baseline job
    {
        let mut a = Acc::default();
        let mut j = Scn::base("udp");
        j.sport = 0xf012;
        run_udp_job(&j, &[0, 200], None, true, &mut a);
        total.samples.extend(a.samples);
        // one fragment-order sample: 3 fragments delivered as FRAGN, FRAGN(dup), FRAG1, FRAGN
        let mut k = Scn::base("perm");
        k.lens = vec![200];
        k.src = AddrClass::Global;
        k.dst = AddrClass::Global;
        let r = std::panic::catch_unwind(std::panic::AssertUnwindSafe(|| {
            let mut w = World::new(&k.world_cfg(Med::Lowpan));
            prepare(&mut w, &k);
            w.udp_rebind(k.sport, k.dport, k.hl);
            let frames = udp_exchange(&mut w, &k).frames;
            let order = vec![2usize, 2, 0, 1];
            let ok = order.iter().all(|i| *i < frames.len());
            let (obs, _, _) = if ok { deliver_fresh(&k, &[], &frames, &order) } else { (vec![], vec![], 0) };
            json!({"scenario": k.to_json(), "fragments": frames.iter().map(|f| describe_frame(f)).collect::<Vec<_>>(), "order_fed_to_fresh_receiver": order,
                "delivered": obs.iter().map(|o| json!({"len": o.payload.len(), "intact": o.payload == pattern(200, 0), "sport": o.sport})).collect::<Vec<_>>()})
        }));
        if let Ok(v) = r {
            total.samples.push(v);
        }
        // one TCP sample
        let mut t = Scn::base("tcp");
        t.lens = vec![1000];
        t.mtu = 125;
        t.hl = 7;
        t.sport = 0xf0b1;
        t.dport = 0xf0b2;
        let mut ta = Acc::default();
        run_tcp(&t, &mut ta);
        total.samples.push(json!({"scenario": t.to_json(), "outcome": ta.outcomes.keys().collect::<Vec<_>>(), "frames": ta.frames}));
    }
    let udp = par_run(&p.udp, 1, |(j, lens, pred), a| run_udp_job(j, lens, *pred, false, a));
    let t_udp = rep.t0.elapsed().as_secs_f64();
    total.merge(udp);
    total.merge(par_run(&p.b2b, 16, |s, a| run_b2b(s, a)));
    let t_b2b = rep.t0.elapsed().as_secs_f64();
    total.merge(par_run(&p.seq, 16, |s, a| run_b2b(s, a)));
    total.merge(par_run(&p.hwchg, 16, |s, a| run_hwchg(s, a)));
    total.merge(par_run(&p.ingress, 16, |s, a| run_ingress(s, a)));
    total.merge(par_run(&p.twosock, 16, |s, a| run_twosock(s, a)));
    let t_seq = rep.t0.elapsed().as_secs_f64();
    total.merge(par_run(&p.perm, 8, |s, a| run_perm(s, a)));
    let t_perm = rep.t0.elapsed().as_secs_f64();
    total.merge(par_run(&p.icmp, 16, |s, a| run_icmp(s, a)));
    let t_icmp = rep.t0.elapsed().as_secs_f64();
    total.merge(par_run(&p.tcp, 1, |s, a| run_tcp(s, a)));
    let t_tcp = rep.t0.elapsed().as_secs_f64();
    {
        let mut a = Acc::default();
        run_mld(&mut a);
        total.merge(a);
    }

    // Raw signatures carry the full scenario class; reduce each to its minimal cause by resetting
    // every dimension that is not needed for the failure to the baseline (re-executing the
    // scenario each time), then name the signature after what is left. The minimized scenario is
    // the replay artefact, and it has just been re-executed and seen failing.
    let mut validated = 0u64;
    let raws: Vec<(String, Scn, String)> = total.viols.iter().map(|(k, (s, d))| (k.clone(), s.clone(), d.clone())).collect();
    let minimized: Vec<Result<(String, Scn, String), String>> = raws.par_iter().map(|(sig, scn, detail)| finalize(sig, scn, detail)).collect();
    let mut fin: std::collections::BTreeMap<String, (Scn, String)> = Default::default();
    for m in minimized {
        match m {
            Ok((sig, scn, detail)) => {
                validated += 1;
                let key = |s: &Scn| (s.lens.iter().sum::<usize>(), s.order.len(), s.clone());
                match fin.get(&sig) {
                    Some((old, _)) if key(old) <= key(&scn) => {}
                    _ => {
                        fin.insert(sig, (scn, detail));
                    }
                }
            }
            Err(e) => rep.machinery_errors.push(e),
        }
    }
    rep.cov("raw_failure_classes_before_minimization", json!(raws.len()));
    for (sig, (scn, detail)) in fin {
        rep.violation(sig, detail, scn.to_json());
    }
    for m in &total.machinery {
        rep.machinery_errors.push(m.clone());
    }

    rep.add_count("states", total.scenarios + total.perm_sequences);
    rep.add_count("evaluations", total.scenarios + total.perm_sequences);
    rep.add_count("transitions", total.polls);
    rep.add_count("traces_validated_against_impl", validated);
    rep.add_count("distinct_nontrivial", total.delivered + total.perm_delivered_frag1_first + total.perm_delivered_other_order);
    rep.cov("scenarios_per_part", json!(total.per_part));
    rep.cov("datagrams_or_streams_accepted_by_sender", json!(total.datagrams));
    rep.cov("delivered_intact", json!(total.delivered));
    rep.cov("beyond_buffer_bounds (safety clauses only)", json!(total.beyond_bounds));
    rep.cov("frames_captured", json!(total.frames));
    rep.cov("interface_polls", json!(total.polls));
    rep.cov("worlds_built", json!(total.worlds));
    rep.cov("warmup_datagram_not_delivered", json!(total.warm_fail));
    rep.cov("frames_per_datagram_histogram (udp+icmp, S->R frames of one exchange)", json!(total.frag_hist.iter().map(|(k, v)| (k.to_string(), *v)).collect::<std::collections::BTreeMap<_, _>>()));
    rep.cov(
        "fragmentation_threshold_check",
        json!({"jobs where len=T is sent in 1 frame and len=T+1 in >=2 frames, T predicted from the header sizes": total.boundary_confirmed, "mispredicted": total.boundary_mispredicted,
            "distinct thresholds T": total.thresholds.values().next().map(|v| v.iter().copied().collect::<Vec<_>>())}),
    );
    rep.cov(
        "fragment_order",
        json!({"sequences_fed_to_fresh_receivers": total.perm_sequences, "delivered_frag1_first": total.perm_delivered_frag1_first,
            "delivered_fragn_first": total.perm_delivered_other_order, "not_delivered_fragn_first (violations)": total.perm_undelivered_other_order,
            "captures_skipped_because_in_order_delivery_already_fails": total.perm_skipped_base_fails}),
    );
    rep.cov("distinct_outcomes", json!(total.outcomes));
    rep.cov("notes", json!(total.notes));
    rep.cov("back_to_back_exchanges_delivered_in_a_different_order (allowed)", json!(total.reordered));
    rep.cov("wall_s_after_part", json!({"udp": t_udp, "b2b": t_b2b, "seq": t_seq, "perm": t_perm, "icmp": t_icmp, "tcp": t_tcp}));
    rep.samples = total.samples.clone();
    rep.finish()
}

pub fn replay(art: &Value) -> i32 {
    let scn = Scn::from_json(&art["replay"]);
    println!("replaying scenario {}", scn.to_json());
    let mut a = Acc::default();
    run_one(&scn, &mut a);
    for (k, v) in &a.outcomes {
        println!("outcome: {} x{}", k, v);
    }
    for m in &a.machinery {
        eprintln!("MACHINERY ERROR: {}", m);
    }
    if a.viols.is_empty() {
        println!("no violation on replay");
        return if a.machinery.is_empty() { 0 } else { 2 };
    }
    let mut sigs = vec![];
    for (sig, (_, d)) in &a.viols {
        let fs = match split_raw(sig) {
            Some((prefix, tag)) => final_sig(&prefix, &tag, &scn, a.interrupted),
            None => sig.clone(),
        };
        println!("violation: {}\n  {}", fs, d);
        sigs.push(fs);
    }
    let want = art["signature"].as_str().unwrap_or("");
    if !want.is_empty() && !sigs.iter().any(|s| s == want) {
        println!("(the recorded signature {} was not among them)", want);
    }
    1
}
