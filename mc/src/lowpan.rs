//! C20 -- 6LoWPAN compression and fragmentation are lossless.
//!
//! Bounded-exhaustive enumeration (no sampling) of scenarios executed on two REAL smoltcp
//! interfaces on `Medium::Ieee802154` joined by an in-memory network; the same scenario is run on
//! two interfaces on `Medium::Ip` and the receivers' socket-level observations are compared
//! (differential oracle), plus direct clauses (frame size, nothing delivered that was not sent,
//! every accepted in-bounds datagram delivered exactly once for in-order frames). A second part
//! captures the fragments of a datagram and feeds every permutation (+ one duplicate) to a fresh
//! receiver. See `lowpan/scen.rs` for the oracles and `lowpan/world.rs` for the plumbing.

mod scen;
mod world;

use crate::core::*;
use rayon::prelude::*;
use scen::*;
use serde_json::{json, Value};
use std::collections::BTreeSet;
use world::*;

/// sizes of the compressed headers for a scenario; used ONLY to pick boundary payload lengths in
/// the quick tier (stimulus selection); the thorough tier runs every length.
fn header_sizes(scn: &Scn) -> (usize, usize, usize, usize) {
    let l2 = |hw: HwKind| if hw == HwKind::Ext { 8 } else { 2 };
    let mac = 3 + 2 + if scn.dst.is_mcast() { 2 } else { l2(scn.r_hw) } + l2(scn.s_hw);
    let a = |c: AddrClass| match c {
        AddrClass::LlHw => 0,
        AddrClass::Ll16 => 2,
        AddrClass::Ll64 => 8,
        AddrClass::Global | AddrClass::Ctx | AddrClass::McFull => 16,
        AddrClass::McAllNodes | AddrClass::Mc8 => 1,
        AddrClass::Mc32 => 4,
        AddrClass::Mc48 | AddrClass::McSolicited => 6,
    };
    let hlb = if matches!(scn.hl, 1 | 64 | 255) { 0 } else { 1 };
    let iphc = 2 + hlb + a(scn.src) + a(scn.dst);
    match scn.proto() {
        Proto::Udp => {
            let both4 = |p: u16| (0xf0b0..=0xf0bf).contains(&p);
            let any8 = |p: u16| (0xf000..=0xf0ff).contains(&p);
            let ports = if both4(scn.sport) && both4(scn.dport) {
                1
            } else if any8(scn.sport) || any8(scn.dport) {
                3
            } else {
                4
            };
            // (mac, compressed hdr, uncompressed hdr, body bytes that are not payload)
            (mac, iphc + 3 + ports, 48, 0)
        }
        _ => (mac, iphc + 1, 40, 8),
    }
}

fn boundary_lens(scn: &Scn) -> Vec<usize> {
    let (mac, ch, uh, extra) = header_sizes(scn);
    let avail = 125usize.saturating_sub(mac);
    let diff = uh - ch.min(uh);
    let frag1 = ((avail.saturating_sub(4) + diff) / 8 * 8).saturating_sub(diff);
    let fragn = avail.saturating_sub(5) / 8 * 8;
    let mut b: Vec<i64> = vec![avail as i64 - ch as i64];
    for k in 0..=3i64 {
        b.push(frag1 as i64 - ch as i64 + k * fragn as i64);
    }
    let mut set: BTreeSet<usize> = [0usize, 1, 2, 1400].into_iter().collect();
    let maxin = max_ipv6_len() - uh - extra;
    set.insert(maxin - 1);
    set.insert(maxin);
    // beyond the buffers: only the safety clauses apply
    set.insert(maxin + 1);
    set.insert(maxin + 21);
    for x in b {
        for d in [-9i64, -8, -7, -2, -1, 0, 1, 2, 7, 8, 9] {
            let v = x - extra as i64 + d;
            if v >= 0 {
                set.insert(v as usize);
            }
        }
    }
    set.into_iter().collect()
}

fn all_lens(uh_extra: usize) -> Vec<usize> {
    let maxin = max_ipv6_len() - uh_extra;
    let mut v: Vec<usize> = (0..=maxin).collect();
    v.push(maxin + 1);
    v.push(maxin + 21);
    v
}

struct Plan {
    udp: Vec<(Scn, Vec<usize>, Option<usize>)>,
    b2b: Vec<Scn>,
    perm: Vec<Scn>,
    icmp: Vec<Scn>,
    tcp: Vec<Scn>,
    dims: Value,
}

fn addr_pairs_ext() -> Vec<(AddrClass, AddrClass)> {
    let mut v = vec![];
    for s in UNICAST_CLASSES {
        for d in UNICAST_CLASSES.iter().chain(MCAST_CLASSES.iter()) {
            v.push((s, *d));
        }
    }
    v
}

fn plan(tier: Tier) -> Plan {
    let thorough = tier == Tier::Thorough;
    let mut udp = vec![];
    let mut push_udp = |s_hw: HwKind, r_hw: HwKind, src: AddrClass, dst: AddrClass, pan: bool, mtu: usize, sp: u16, dp: u16, hl: u8| {
        let mut j = Scn::base("udp");
        j.s_hw = s_hw;
        j.r_hw = r_hw;
        j.src = src;
        j.dst = dst;
        j.pan = pan;
        j.mtu = mtu;
        j.sport = sp;
        j.dport = dp;
        j.hl = hl;
        if !j.feasible() {
            return;
        }
        let mut lens = if thorough { all_lens(48) } else { boundary_lens(&j) };
        if !thorough && (sp, dp, hl) == (1234, 1234, 64) && pan && mtu == 1500 {
            // quick tier: the first four fragments exhaustively for every address pair
            let mut set: BTreeSet<usize> = lens.iter().copied().collect();
            set.extend(0..=420usize);
            lens = set.into_iter().collect();
        }
        let (mac, ch, _, _) = header_sizes(&j);
        let pred = 125usize.checked_sub(mac + ch);
        udp.push((j, lens, pred));
    };
    // A: extended hardware addresses on both sides: address classes x 4x4 ports x hop limits
    for (s, d) in addr_pairs_ext() {
        for sp in PORTS {
            for dp in PORTS {
                for hl in HOP_LIMITS {
                    push_udp(HwKind::Ext, HwKind::Ext, s, d, true, 1500, sp, dp, hl);
                }
            }
        }
    }
    // B: no PAN id configured / device MTU as a Linux 802.15.4 raw socket reports it
    for (pan, mtu) in [(false, 1500usize), (true, 125)] {
        for s in [AddrClass::LlHw, AddrClass::Global] {
            for d in [AddrClass::LlHw, AddrClass::Global, AddrClass::McAllNodes] {
                for (sp, dp) in [(1234u16, 1234u16), (0xf012, 0xf0b7)] {
                    for hl in [64u8, 7] {
                        push_udp(HwKind::Ext, HwKind::Ext, s, d, pan, mtu, sp, dp, hl);
                    }
                }
            }
        }
    }
    // C: short hardware addresses (see Scn::feasible for what can be set up)
    let short_cfgs: [(HwKind, HwKind, &[AddrClass], &[AddrClass]); 3] = [
        (HwKind::Short, HwKind::Ext, &[AddrClass::LlHw, AddrClass::Global], &[AddrClass::LlHw, AddrClass::McAllNodes, AddrClass::McSolicited, AddrClass::Mc32]),
        (HwKind::Ext, HwKind::Short, &[AddrClass::LlHw, AddrClass::Ll16], &[AddrClass::McAllNodes, AddrClass::Mc8]),
        (HwKind::Short, HwKind::Short, &[AddrClass::LlHw], &[AddrClass::McAllNodes, AddrClass::McSolicited]),
    ];
    for (sh, rh, srcs, dsts) in short_cfgs {
        for s in srcs {
            for d in dsts {
                for sp in PORTS {
                    for dp in PORTS {
                        for hl in HOP_LIMITS {
                            push_udp(sh, rh, *s, *d, true, 1500, sp, dp, hl);
                        }
                    }
                }
            }
        }
    }

    // back to back
    let b2b_sizes: Vec<usize> = if thorough { vec![0, 8, 60, 100, 150, 200, 300, 600, 1200] } else { vec![8, 100, 200, 600] };
    let b2b_pairs: Vec<(HwKind, AddrClass, AddrClass)> = if thorough {
        let mut v: Vec<_> = addr_pairs_ext().into_iter().map(|(s, d)| (HwKind::Ext, s, d)).collect();
        v.push((HwKind::Short, AddrClass::LlHw, AddrClass::McAllNodes));
        v.push((HwKind::Short, AddrClass::LlHw, AddrClass::LlHw));
        v
    } else {
        vec![
            (HwKind::Ext, AddrClass::LlHw, AddrClass::LlHw),
            (HwKind::Ext, AddrClass::Global, AddrClass::Global),
            (HwKind::Ext, AddrClass::LlHw, AddrClass::McAllNodes),
            (HwKind::Ext, AddrClass::Ll64, AddrClass::Ctx),
            (HwKind::Short, AddrClass::LlHw, AddrClass::McAllNodes),
        ]
    };
    let b2b_ports: Vec<(u16, u16)> = if thorough {
        PORTS.iter().flat_map(|a| PORTS.iter().map(move |b| (*a, *b))).collect()
    } else {
        vec![(1234, 1234), (0xf012, 0xf0b7)]
    };
    let mut b2b = vec![];
    for (sh, s, d) in &b2b_pairs {
        for (sp, dp) in &b2b_ports {
            for a in &b2b_sizes {
                for b in &b2b_sizes {
                    let mut j = Scn::base("b2b");
                    j.s_hw = *sh;
                    j.src = *s;
                    j.dst = *d;
                    j.sport = *sp;
                    j.dport = *dp;
                    j.lens = vec![*a, *b];
                    if j.feasible() {
                        b2b.push(j);
                    }
                }
            }
        }
    }

    // fragment order: datagrams that need 2..=4 fragments
    let perm_pairs: Vec<(HwKind, AddrClass, AddrClass)> = if thorough {
        let mut v: Vec<_> = addr_pairs_ext().into_iter().map(|(s, d)| (HwKind::Ext, s, d)).collect();
        v.push((HwKind::Short, AddrClass::LlHw, AddrClass::McAllNodes));
        v
    } else {
        vec![
            (HwKind::Ext, AddrClass::LlHw, AddrClass::LlHw),
            (HwKind::Ext, AddrClass::Global, AddrClass::Global),
            (HwKind::Ext, AddrClass::Ll16, AddrClass::Ll64),
            (HwKind::Ext, AddrClass::Ctx, AddrClass::McSolicited),
            (HwKind::Ext, AddrClass::LlHw, AddrClass::McAllNodes),
            (HwKind::Short, AddrClass::LlHw, AddrClass::McAllNodes),
        ]
    };
    let perm_ports: Vec<(u16, u16)> = vec![(1234, 1234), (0xf012, 1234), (1234, 0xf0b7), (0xf0b7, 0xf0b1)];
    let mut perm = vec![];
    for (sh, s, d) in &perm_pairs {
        for (sp, dp) in &perm_ports {
            let mut j = Scn::base("perm");
            j.s_hw = *sh;
            j.src = *s;
            j.dst = *d;
            j.sport = *sp;
            j.dport = *dp;
            if !j.feasible() {
                continue;
            }
            let lens: Vec<usize> = if thorough { (40..=440).collect() } else { boundary_lens(&j).into_iter().filter(|l| *l <= 440).collect() };
            for l in lens {
                let mut k = j.clone();
                k.lens = vec![l];
                perm.push(k);
            }
        }
    }

    // ICMPv6 echo: `src` is the class of S's second address (the stack selects the source itself)
    let mut icmp = vec![];
    let icmp_dsts = [AddrClass::LlHw, AddrClass::Ll16, AddrClass::Ll64, AddrClass::Global, AddrClass::Ctx, AddrClass::McAllNodes];
    for s in UNICAST_CLASSES {
        for d in icmp_dsts {
            for hl in HOP_LIMITS {
                let mut j = Scn::base("icmp");
                j.src = s;
                j.dst = d;
                j.hl = hl;
                let lens = if thorough { all_lens(48) } else { boundary_lens(&j) };
                for l in lens {
                    let mut k = j.clone();
                    k.lens = vec![l];
                    icmp.push(k);
                }
            }
        }
    }

    // TCP: a short connection, N bytes each way
    let tcp_n: Vec<usize> = if thorough { vec![0, 1, 2, 10, 64, 65, 66, 100, 200, 500, 1000, 1439, 1440, 1441, 2000, 3000, 5000] } else { vec![0, 1, 100, 1000, 3000] };
    let tcp_pairs = [
        (AddrClass::LlHw, AddrClass::LlHw),
        (AddrClass::Ll16, AddrClass::Ll16),
        (AddrClass::Ll64, AddrClass::Ll64),
        (AddrClass::Global, AddrClass::Global),
        (AddrClass::Ctx, AddrClass::Ctx),
        (AddrClass::LlHw, AddrClass::Global),
        (AddrClass::Global, AddrClass::LlHw),
        (AddrClass::Ll16, AddrClass::Ll64),
        (AddrClass::Ctx, AddrClass::Global),
    ];
    let tcp_hl: Vec<u8> = if thorough { HOP_LIMITS.to_vec() } else { vec![64, 7] };
    let mut tcp = vec![];
    for (s, d) in tcp_pairs {
        for mtu in [1500usize, 125] {
            for hl in &tcp_hl {
                for n in &tcp_n {
                    let mut j = Scn::base("tcp");
                    j.src = s;
                    j.dst = d;
                    j.mtu = mtu;
                    j.hl = *hl;
                    j.sport = 0xf0b1;
                    j.dport = 0xf0b2;
                    j.lens = vec![*n];
                    tcp.push(j);
                }
            }
        }
    }

    let dims = json!({
        "udp": {
            "jobs (address pair x port pair x hop limit x hw kinds x pan x mtu)": udp.len(),
            "source address classes": UNICAST_CLASSES.iter().map(|c| c.name()).collect::<Vec<_>>(),
            "destination address classes": UNICAST_CLASSES.iter().chain(MCAST_CLASSES.iter()).map(|c| c.name()).collect::<Vec<_>>(),
            "ports (source x destination, 4x4)": PORTS.iter().map(|p| format!("{:#06x}", p)).collect::<Vec<_>>(),
            "hop limits": HOP_LIMITS,
            "hardware address kinds (S,R)": ["ext-ext", "short-ext", "ext-short", "short-short"],
            "lengths per job": if thorough { json!(format!("every length 0..={} plus 2 beyond the buffers", max_ipv6_len() - 48)) } else { json!("0,1,2, largest unfragmented +-2 (+-7..9), exact fill of fragments 1..4 +-2 (+-7..9), 1400, max in bounds, 2 beyond; for ports 1234x1234, hop limit 64 additionally every length 0..=420") },
            "lengths of the first job": udp.first().map(|(_, l, _)| l.len()),
            "exchanges in total": udp.iter().map(|(_, l, _)| l.len()).sum::<usize>(),
        },
        "b2b": {"scenarios": b2b.len(), "sizes (each of two datagrams)": b2b_sizes, "address pairs": b2b_pairs.len(), "port pairs": b2b_ports.len()},
        "perm": {"captures": perm.len(), "address pairs": perm_pairs.len(), "port pairs": perm_ports.len(), "sequences": "n!: 2/6/24 permutations; n<=3: + every permutation with one fragment inserted a second time at any position (6 resp. 36 distinct sequences more)"},
        "icmp": {"scenarios": icmp.len(), "address configs": UNICAST_CLASSES.len() * icmp_dsts.len(), "hop limits": HOP_LIMITS},
        "tcp": {"scenarios": tcp.len(), "bytes each way": tcp_n, "address pairs": tcp_pairs.len(), "device mtu": [1500, 125], "hop limits": tcp_hl},
    });
    Plan { udp, b2b, perm, icmp, tcp, dims }
}

fn run_one(scn: &Scn, acc: &mut Acc) {
    match scn.part.as_str() {
        "udp" => run_udp_job(scn, &scn.lens.clone(), None, false, acc),
        "b2b" => run_b2b(scn, acc),
        "icmp" => run_icmp(scn, acc),
        "tcp" => run_tcp(scn, acc),
        "mld" => run_mld(acc),
        "perm" => {
            if scn.order.is_empty() {
                run_perm(scn, acc);
            } else {
                // replay of one order: capture again, then deliver exactly that order
                let mut base = scn.clone();
                base.order = vec![];
                let cap = std::panic::catch_unwind(std::panic::AssertUnwindSafe(|| {
                    let mut w = World::new(&base.world_cfg(Med::Lowpan));
                    prepare(&mut w, &base);
                    w.udp_rebind(base.sport, base.dport, base.hl);
                    udp_exchange(&mut w, &base).frames
                }));
                match cap {
                    Ok(frames) if scn.order.iter().all(|i| *i < frames.len()) => eval_perm(scn, &frames, acc),
                    Ok(_) => acc.machinery.push("perm replay: captured fewer fragments than the order refers to".into()),
                    Err(_) => acc.machinery.push("perm replay: capture panicked".into()),
                }
            }
        }
        other => acc.machinery.push(format!("unknown part {}", other)),
    }
}

fn par_run<T: Sync, F: Fn(&T, &mut Acc) + Sync>(items: &[T], chunk: usize, f: F) -> Acc {
    let parts: Vec<Acc> = items
        .par_chunks(chunk.max(1))
        .map(|c| {
            let mut a = Acc::default();
            for it in c {
                f(it, &mut a);
            }
            a
        })
        .collect();
    let mut acc = Acc::default();
    for p in parts {
        acc.merge(p);
    }
    acc
}

/// split a raw signature `C20/<clause>/<proto>/[..]<tag>|<class>` into (prefix, tag)
fn split_raw(sig: &str) -> Option<(String, String)> {
    let bar = sig.find('|')?;
    let head = &sig[..bar];
    let slash = head.rfind('/')?;
    Some((sig[..=slash].to_string(), head[slash + 1..].to_string()))
}

/// does `scn` still violate a clause whose raw signature starts with `prefix`?
fn check(scn: &Scn, prefix: &str) -> Option<(String, bool)> {
    let mut a = Acc::default();
    run_one(scn, &mut a);
    let hit = a.viols.iter().find(|(k, _)| k.starts_with(prefix)).map(|(_, (_, d))| d.clone());
    hit.map(|d| (d, a.interrupted))
}

fn final_sig(prefix: &str, tag: &str, scn: &Scn, interrupted: bool) -> String {
    if tag.starts_with("order=") {
        let n = scn.order.iter().max().map(|m| m + 1).unwrap_or(0);
        format!("{}{},{}", prefix, order_class(&scn.order, n), label_of(scn, interrupted))
    } else {
        format!("{}{}", prefix, label_of(scn, interrupted))
    }
}

fn finalize(sig: &str, scn: &Scn, _detail: &str) -> Result<(String, Scn, String), String> {
    // field / panic signatures carry no scenario class: they keep their name, only the scenario
    // is reduced
    let (prefix, tag, keep_name) = match split_raw(sig) {
        Some((p, t)) => (p, t, false),
        None => (sig.to_string(), String::new(), true),
    };
    let mut cur = scn.clone();
    let Some((mut det, mut flag)) = check(&cur, &prefix) else {
        return Err(format!("replay of {} does not reproduce it", sig));
    };
    let mut cands: Vec<Box<dyn Fn(&Scn) -> Scn>> = vec![
        Box::new(|s| Scn { s_hw: HwKind::Ext, r_hw: HwKind::Ext, ..s.clone() }),
        Box::new(|s| Scn { s_hw: HwKind::Ext, ..s.clone() }),
        Box::new(|s| Scn { r_hw: HwKind::Ext, ..s.clone() }),
        Box::new(|s| Scn { pan: true, ..s.clone() }),
        Box::new(|s| Scn { mtu: 1500, ..s.clone() }),
        Box::new(|s| Scn { hl: 64, ..s.clone() }),
        Box::new(|s| Scn { src: AddrClass::LlHw, ..s.clone() }),
        Box::new(|s| Scn { dst: AddrClass::LlHw, ..s.clone() }),
    ];
    if scn.proto() == Proto::Udp {
        // the port PAIR selects one NHC encoding branch: reset it as a whole (resetting one port
        // would move the scenario into a different branch, possibly into a different defect)
        cands.push(Box::new(|s| Scn { sport: 1234, dport: 1234, ..s.clone() }));
    }
    if scn.part == "b2b" {
        cands.push(Box::new(|s| Scn { part: "udp".into(), lens: vec![s.lens[0]], ..s.clone() }));
        cands.push(Box::new(|s| Scn { part: "udp".into(), lens: vec![*s.lens.last().unwrap()], ..s.clone() }));
    }
    // smaller inputs of the same kind
    if scn.part == "udp" {
        for l in [0usize, 1, 8, 64, 100, 200, 300] {
            cands.push(Box::new(move |s| if s.part == "udp" && s.lens.len() == 1 && l < s.lens[0] { Scn { lens: vec![l], ..s.clone() } } else { s.clone() }));
        }
    }
    if scn.part == "tcp" {
        for l in [0usize, 1, 100, 1000, 2000, 3000] {
            cands.push(Box::new(move |s| if l < s.lens[0] { Scn { lens: vec![l], ..s.clone() } } else { s.clone() }));
        }
    }
    for c in &cands {
        let cand = c(&cur);
        if cand == cur || !cand.feasible() {
            continue;
        }
        if let Some((d, f)) = check(&cand, &prefix) {
            cur = cand;
            det = d;
            flag = f;
        }
    }
    let name = if keep_name { sig.to_string() } else { final_sig(&prefix, &tag, &cur, flag) };
    Ok((name, cur, det))
}

pub fn run(tier: Tier) -> i32 {
    let mut rep = Report::new("C20", tier);
    rep.assumptions.push("two real smoltcp Interfaces per world joined by a loss-free, order-preserving in-memory network (SimDevice); time is the harness' Instant, advanced 100us per exchange round (TCP: jumps to poll_at when idle)".into());
    rep.assumptions.push(format!(
        "delivery is demanded only for datagrams whose uncompressed IPv6 size is <= min(FRAGMENTATION_BUFFER_SIZE={}, REASSEMBLY_BUFFER_SIZE={}); larger ones only have to be safe",
        smoltcp::config::FRAGMENTATION_BUFFER_SIZE,
        smoltcp::config::REASSEMBLY_BUFFER_SIZE
    ));
    rep.assumptions.push("fragment-order part: delivery demanded only when FRAG1 arrives first (lenient reading of 'any order the reassembler can track'); every order must be safe (the original datagram at most once, or nothing)".into());
    rep.assumptions.push("neighbors are resolved by the real NS/NA exchange before each scenario (warm-up datagrams on separate sockets); a node with a SHORT hardware address cannot be resolved (NDISC link-layer option must be 8 octets) so it only sends to multicast or to a neighbor that solicited it".into());
    rep.assumptions.push("frames handed to the device carry no FCS: limit is 125 octets (127 with FCS)".into());
    rep.assumptions.push("the sender never emits context-based (stateful) IPHC: the ctx class has address context 0 installed on both nodes and is expected to travel uncompressed".into());
    rep.assumptions.push("receiver accepts the multicast classes mc-8bit/32bit/48bit/full through Interface::set_any_ip(true) because join_multicast_group on this medium is itself under test (mld part)".into());

    let p = plan(tier);
    rep.cov("dimensions", p.dims.clone());
    rep.cov(
        "rule",
        json!("full product of the listed dimensions per part; every scenario is executed on a 6LoWPAN world and on a Medium::Ip reference world; evaluations = scenarios + fragment sequences fed to fresh receivers; distinct_nontrivial = datagrams/streams that went through compress -> (fragment) -> reassemble -> decompress and reached the receiving socket intact"),
    );

    let mut total = Acc::default();
    // samples from the baseline job
    {
        let mut a = Acc::default();
        let mut j = Scn::base("udp");
        j.sport = 0xf012;
        run_udp_job(&j, &[0, 200], None, true, &mut a);
        total.samples.extend(a.samples);
        // one fragment-order sample: 3 fragments delivered as FRAGN, FRAGN(dup), FRAG1, FRAGN
        let mut k = Scn::base("perm");
        k.lens = vec![200];
        k.src = AddrClass::Global;
        k.dst = AddrClass::Global;
        let r = std::panic::catch_unwind(std::panic::AssertUnwindSafe(|| {
            let mut w = World::new(&k.world_cfg(Med::Lowpan));
            prepare(&mut w, &k);
            w.udp_rebind(k.sport, k.dport, k.hl);
            let frames = udp_exchange(&mut w, &k).frames;
            let order = vec![2usize, 2, 0, 1];
            let ok = order.iter().all(|i| *i < frames.len());
            let (obs, _, _) = if ok { deliver_fresh(&k, &frames, &order) } else { (vec![], vec![], 0) };
            json!({"scenario": k.to_json(), "fragments": frames.iter().map(|f| describe_frame(f)).collect::<Vec<_>>(), "order_fed_to_fresh_receiver": order,
                "delivered": obs.iter().map(|o| json!({"len": o.payload.len(), "intact": o.payload == pattern(200, 0), "sport": o.sport})).collect::<Vec<_>>()})
        }));
        if let Ok(v) = r {
            total.samples.push(v);
        }
        // one TCP sample
        let mut t = Scn::base("tcp");
        t.lens = vec![1000];
        t.mtu = 125;
        t.hl = 7;
        t.sport = 0xf0b1;
        t.dport = 0xf0b2;
        let mut ta = Acc::default();
        run_tcp(&t, &mut ta);
        total.samples.push(json!({"scenario": t.to_json(), "outcome": ta.outcomes.keys().collect::<Vec<_>>(), "frames": ta.frames}));
    }
    let udp = par_run(&p.udp, 1, |(j, lens, pred), a| run_udp_job(j, lens, *pred, false, a));
    let t_udp = rep.t0.elapsed().as_secs_f64();
    total.merge(udp);
    total.merge(par_run(&p.b2b, 16, |s, a| run_b2b(s, a)));
    let t_b2b = rep.t0.elapsed().as_secs_f64();
    total.merge(par_run(&p.perm, 8, |s, a| run_perm(s, a)));
    let t_perm = rep.t0.elapsed().as_secs_f64();
    total.merge(par_run(&p.icmp, 16, |s, a| run_icmp(s, a)));
    let t_icmp = rep.t0.elapsed().as_secs_f64();
    total.merge(par_run(&p.tcp, 1, |s, a| run_tcp(s, a)));
    let t_tcp = rep.t0.elapsed().as_secs_f64();
    {
        let mut a = Acc::default();
        run_mld(&mut a);
        total.merge(a);
    }

    // Raw signatures carry the full scenario class; reduce each to its minimal cause by resetting
    // every dimension that is not needed for the failure to the baseline (re-executing the
    // scenario each time), then name the signature after what is left. The minimized scenario is
    // the replay artefact, and it has just been re-executed and seen failing.
    let mut validated = 0u64;
    let raws: Vec<(String, Scn, String)> = total.viols.iter().map(|(k, (s, d))| (k.clone(), s.clone(), d.clone())).collect();
    let minimized: Vec<Result<(String, Scn, String), String>> = raws.par_iter().map(|(sig, scn, detail)| finalize(sig, scn, detail)).collect();
    let mut fin: std::collections::BTreeMap<String, (Scn, String)> = Default::default();
    for m in minimized {
        match m {
            Ok((sig, scn, detail)) => {
                validated += 1;
                let key = |s: &Scn| (s.lens.iter().sum::<usize>(), s.order.len(), s.clone());
                match fin.get(&sig) {
                    Some((old, _)) if key(old) <= key(&scn) => {}
                    _ => {
                        fin.insert(sig, (scn, detail));
                    }
                }
            }
            Err(e) => rep.machinery_errors.push(e),
        }
    }
    rep.cov("raw_failure_classes_before_minimization", json!(raws.len()));
    for (sig, (scn, detail)) in fin {
        rep.violation(sig, detail, scn.to_json());
    }
    for m in &total.machinery {
        rep.machinery_errors.push(m.clone());
    }

    rep.add_count("states", total.scenarios + total.perm_sequences);
    rep.add_count("evaluations", total.scenarios + total.perm_sequences);
    rep.add_count("transitions", total.polls);
    rep.add_count("traces_validated_against_impl", validated);
    rep.add_count("distinct_nontrivial", total.delivered + total.perm_delivered_frag1_first + total.perm_delivered_other_order);
    rep.cov("scenarios_per_part", json!(total.per_part));
    rep.cov("datagrams_or_streams_accepted_by_sender", json!(total.datagrams));
    rep.cov("delivered_intact", json!(total.delivered));
    rep.cov("beyond_buffer_bounds (safety clauses only)", json!(total.beyond_bounds));
    rep.cov("frames_captured", json!(total.frames));
    rep.cov("interface_polls", json!(total.polls));
    rep.cov("worlds_built", json!(total.worlds));
    rep.cov("warmup_datagram_not_delivered", json!(total.warm_fail));
    rep.cov("frames_per_datagram_histogram (udp+icmp, S->R frames of one exchange)", json!(total.frag_hist.iter().map(|(k, v)| (k.to_string(), *v)).collect::<std::collections::BTreeMap<_, _>>()));
    rep.cov(
        "fragmentation_threshold_check",
        json!({"jobs where len=T is sent in 1 frame and len=T+1 in >=2 frames, T predicted from the header sizes": total.boundary_confirmed, "mispredicted": total.boundary_mispredicted,
            "distinct thresholds T": total.thresholds.values().next().map(|v| v.iter().copied().collect::<Vec<_>>())}),
    );
    rep.cov(
        "fragment_order",
        json!({"sequences_fed_to_fresh_receivers": total.perm_sequences, "delivered_frag1_first": total.perm_delivered_frag1_first,
            "delivered_although_fragn_first": total.perm_delivered_other_order, "not_delivered_fragn_first (allowed)": total.perm_undelivered_other_order,
            "captures_skipped_because_in_order_delivery_already_fails": total.perm_skipped_base_fails}),
    );
    rep.cov("distinct_outcomes", json!(total.outcomes));
    rep.cov("notes", json!(total.notes));
    rep.cov("back_to_back_exchanges_delivered_in_a_different_order (allowed)", json!(total.reordered));
    rep.cov("wall_s_after_part", json!({"udp": t_udp, "b2b": t_b2b, "perm": t_perm, "icmp": t_icmp, "tcp": t_tcp}));
    rep.samples = total.samples.clone();
    rep.finish()
}

pub fn replay(art: &Value) -> i32 {
    let scn = Scn::from_json(&art["replay"]);
    println!("replaying scenario {}", scn.to_json());
    let mut a = Acc::default();
    run_one(&scn, &mut a);
    for (k, v) in &a.outcomes {
        println!("outcome: {} x{}", k, v);
    }
    for m in &a.machinery {
        eprintln!("MACHINERY ERROR: {}", m);
    }
    if a.viols.is_empty() {
        println!("no violation on replay");
        return if a.machinery.is_empty() { 0 } else { 2 };
    }
    let mut sigs = vec![];
    for (sig, (_, d)) in &a.viols {
        let fs = match split_raw(sig) {
            Some((prefix, tag)) => final_sig(&prefix, &tag, &scn, a.interrupted),
            None => sig.clone(),
        };
        println!("violation: {}\n  {}", fs, d);
        sigs.push(fs);
    }
    let want = art["signature"].as_str().unwrap_or("");
    if !want.is_empty() && !sigs.iter().any(|s| s == want) {
        println!("(the recorded signature {} was not among them)", want);
    }
    1
}
