//! One real smoltcp Interface + SocketSet per world, an in-memory device with a call counter
//! (deterministic hang detector), the application model, the fingerprint and the trailing probe.

use super::pkt::*;
use crate::core::{fp128, last_panic_loc, panic_msg, panic_site};
use smoltcp::iface::{Config, Interface, SocketHandle, SocketSet};
use smoltcp::phy::{self, Device, DeviceCapabilities, Medium};
use smoltcp::socket::{dhcpv4, dns, icmp, raw, tcp, udp};
use smoltcp::time::Instant;
use smoltcp::wire::{
    EthernetAddress, HardwareAddress, Ieee802154Address, Ieee802154Pan, IpAddress, IpCidr, IpEndpoint, IpListenEndpoint, IpProtocol, IpVersion,
    Ipv4Address, Ipv4Cidr, Ipv6Address, SixlowpanAddressContext,
};
use std::collections::VecDeque;
use std::panic::{catch_unwind, AssertUnwindSafe};

pub const IFACE_MAC: [u8; 6] = [2, 0, 0, 0, 0, 1];
pub const PEER_MAC: [u8; 6] = [2, 0, 0, 0, 0, 2];
pub const PROBER_MAC: [u8; 6] = [2, 0, 0, 0, 0, 0x99];
pub const IFACE_EXT: [u8; 8] = [2, 0, 0, 0, 0, 0, 0, 1];
pub const PEER_EXT: [u8; 8] = [2, 0, 0, 0, 0, 0, 0, 2];
pub const PROBER_EXT: [u8; 8] = [2, 0, 0, 0, 0, 0, 0, 0x99];
pub const PAN: u16 = 0xbeef;
pub const IFACE4: [u8; 4] = [192, 168, 69, 1];
pub const PEER4: [u8; 4] = [192, 168, 69, 2];
pub const GW4: [u8; 4] = [192, 168, 69, 254];
pub const GROUP4: [u8; 4] = [224, 0, 0, 251];
pub const fn a6(hi: u16, lo: u16) -> [u8; 16] {
    [(hi >> 8) as u8, hi as u8, 0, 0, 0, 0, 0, 0, 0, 0, 0, 0, 0, 0, (lo >> 8) as u8, lo as u8]
}
pub const IFACE6: [u8; 16] = a6(0xfe80, 1);
pub const PEER6: [u8; 16] = a6(0xfe80, 2);
pub const GW6: [u8; 16] = a6(0xfe80, 0xfe);
pub const IFACE6_ULA: [u8; 16] = a6(0xfd00, 1);
pub const PEER6_ULA: [u8; 16] = a6(0xfd00, 2);
pub const GROUP6: [u8; 16] = a6(0xff02, 0xfb);
pub const ALL_NODES6: [u8; 16] = a6(0xff02, 1);

pub const P_LISTEN: u16 = 80;
pub const P_EST: u16 = 81;
pub const P_SYNSENT_LOCAL: u16 = 49152;
pub const P_PEER_EST: u16 = 4000;
pub const P_PEER_SYNSENT: u16 = 4001;
pub const P_UDP: u16 = 7000;
pub const P_UDP_NHC: u16 = 0xf0b1;
pub const P_ECHO: [u16; 2] = [0xf0bf, 0xf0ff];
pub const ICMP_IDENT: u16 = 0x1234;
pub const PEER_ISN: u32 = 0x1000_0000;
pub const T0_MS: i64 = 1000;
pub const PROBE_IDENT: u16 = 0xc03c;
pub const PROBE_DATA: &[u8] = b"c03-probe";
/// 40 octets: ICMP message of 48 octets = 24 + 24, fragment boundary on a multiple of 8
pub const FRAG_PROBE_DATA: &[u8] = b"c03-fragmented-probe-0123456789abcdefghi";
pub const FRAG_PROBE_ADVANCE_MS: i64 = 61_000;
/// 152 octets of echo data: ICMPv6 message of 160 = 64 + 96 octets, datagram of 200 octets
pub const LARGE_PROBE_DATA: [u8; 152] = {
    let mut d = [0u8; 152];
    let mut i = 0;
    while i < 152 {
        d[i] = 0x30 + (i % 64) as u8;
        i += 1;
    }
    d
};
pub const DRAIN_POLLS: usize = 24;

/// Independent reassembly of ONE fragmented 6LoWPAN datagram out of transmitted frames: the
/// upper-layer payload (everything after the IPv6 header) if FRAG1 + FRAGN cover it completely
/// and the next header is carried inline.
pub fn reassemble_6lowpan(frames: &[Vec<u8>]) -> Option<Vec<u8>> {
    let mut buf: Vec<u8> = vec![];
    let mut have: Vec<bool> = vec![];
    let mut tag = None;
    for f in frames {
        let Some(h) = mac154_hdr_len(f) else { continue };
        let p = &f[h..];
        if p.len() < 4 {
            continue;
        }
        let size = (((p[0] & 7) as usize) << 8) | p[1] as usize;
        let t = be16(&p[2..]);
        let (off, data): (usize, &[u8]) = if p[0] >> 3 == 0b11000 {
            let (n, nh) = iphc_len(&p[4..])?;
            nh?;
            (0, &p[4 + n..])
        } else if p[0] >> 3 == 0b11100 && p.len() >= 5 {
            ((p[4] as usize * 8).checked_sub(40)?, &p[5..])
        } else {
            continue;
        };
        if size < 40 {
            return None;
        }
        if tag.is_none() {
            tag = Some((t, size));
            buf = vec![0; size - 40];
            have = vec![false; size - 40];
        }
        if tag != Some((t, size)) || off + data.len() > buf.len() {
            return None;
        }
        buf[off..off + data.len()].copy_from_slice(data);
        for x in &mut have[off..off + data.len()] {
            *x = true;
        }
    }
    if tag.is_some() && have.iter().all(|x| *x) {
        Some(buf)
    } else {
        None
    }
}

/// More device calls than this inside ONE `Interface::poll` is a hang: a healthy poll calls
/// receive() once per queued frame (we queue one) + once more, and transmit() at most a few
/// times per socket and egress round; the largest count seen on the unchanged tree is < 60.
pub const DEVICE_CALL_LIMIT: usize = 20_000;
pub const HANG_MARK: &str = "C03-HANG-DEVICE-LOOP";

pub fn medium_name(m: Medium) -> &'static str {
    match m {
        Medium::Ethernet => "ethernet",
        Medium::Ip => "ip",
        Medium::Ieee802154 => "ieee802154",
    }
}
pub fn medium_from(s: &str) -> Option<Medium> {
    match s {
        "ethernet" => Some(Medium::Ethernet),
        "ip" => Some(Medium::Ip),
        "ieee802154" => Some(Medium::Ieee802154),
        _ => None,
    }
}

#[derive(Clone, Copy, Debug, PartialEq, Eq)]
pub struct Cfg {
    pub medium: Medium,
    /// 0 = "A": no raw sockets, SLAAC off, TCP/DNS peers over IPv4 (where available), DHCP discovering.
    /// 1 = "B": raw sockets (UDP, TCP, proto 253), SLAAC on, TCP/DNS peers over IPv6, DHCP requesting.
    /// 2 = "C": like A, but the application has already close()d the established connection
    ///          (FIN sent, FIN-WAIT-1); explored with sequences and a reduced mutation pass.
    pub variant: u8,
    /// 802.15.4 only: join an IPv6 multicast group (the main worlds do not: see run()).
    pub join_154: bool,
    /// address configuration: 0 = IPv4 + IPv6 (802.15.4: two IPv6 addresses), 1 = IPv4 only,
    /// 2 = IPv6 only, 3 = no address at all (no connections can be set up there: the TCP
    /// sockets stay LISTEN / CLOSED / LISTEN, the DNS query never reaches the wire)
    pub addrs: u8,
}
impl Cfg {
    pub fn name(&self) -> String {
        format!(
            "{}/{}{}{}",
            medium_name(self.medium),
            ["A", "B", "C"][self.variant.min(2) as usize],
            ["", "-v4only", "-v6only", "-noaddr"][self.addrs.min(3) as usize],
            if self.join_154 { "+group" } else { "" }
        )
    }
    pub fn v6_peers(&self) -> bool {
        self.variant == 1 || self.medium == Medium::Ieee802154 || self.addrs == 2
    }
    pub fn has_v4(&self) -> bool {
        self.medium != Medium::Ieee802154 && self.addrs <= 1
    }
    pub fn has_v6(&self) -> bool {
        self.addrs == 0 || self.addrs == 2
    }
    pub fn to_json(&self) -> serde_json::Value {
        serde_json::json!({"medium": medium_name(self.medium), "variant": self.variant, "join_154": self.join_154, "addrs": self.addrs})
    }
    pub fn from_json(v: &serde_json::Value) -> Option<Cfg> {
        Some(Cfg {
            medium: medium_from(v["medium"].as_str()?)?,
            variant: v["variant"].as_u64()? as u8,
            join_154: v["join_154"].as_bool().unwrap_or(false),
            addrs: v["addrs"].as_u64().unwrap_or(0) as u8,
        })
    }
}

pub struct Dev {
    pub rx: VecDeque<Vec<u8>>,
    pub tx: Vec<Vec<u8>>,
    pub medium: Medium,
    pub mtu: usize,
    pub calls: usize,
    pub max_calls: usize,
    /// self-test switch: pretend frames never run out
    pub spin: bool,
}
pub struct DevRx(Vec<u8>);
pub struct DevTx<'a>(&'a mut Vec<Vec<u8>>);
impl phy::RxToken for DevRx {
    fn consume<R, F: FnOnce(&[u8]) -> R>(self, f: F) -> R {
        f(&self.0)
    }
}
impl<'a> phy::TxToken for DevTx<'a> {
    fn consume<R, F: FnOnce(&mut [u8]) -> R>(self, len: usize, f: F) -> R {
        let mut b = vec![0u8; len];
        let r = f(&mut b);
        self.0.push(b);
        r
    }
}
impl Dev {
    fn tick(&mut self) {
        self.calls += 1;
        if self.calls > DEVICE_CALL_LIMIT {
            panic!("{}: more than {} device calls in one poll", HANG_MARK, DEVICE_CALL_LIMIT);
        }
    }
}
impl Device for Dev {
    type RxToken<'a> = DevRx;
    type TxToken<'a> = DevTx<'a>;
    fn receive(&mut self, _t: Instant) -> Option<(DevRx, DevTx<'_>)> {
        self.tick();
        if self.spin {
            return Some((DevRx(vec![0xff; 3]), DevTx(&mut self.tx)));
        }
        let b = self.rx.pop_front()?;
        Some((DevRx(b), DevTx(&mut self.tx)))
    }
    fn transmit(&mut self, _t: Instant) -> Option<DevTx<'_>> {
        self.tick();
        Some(DevTx(&mut self.tx))
    }
    fn capabilities(&self) -> DeviceCapabilities {
        let mut c = DeviceCapabilities::default();
        c.medium = self.medium;
        c.max_transmission_unit = self.mtu;
        c
    }
}

#[derive(Clone, Debug, PartialEq, Eq)]
pub enum Outcome {
    Ok,
    Panic { msg: String, site: String, loc: String },
    Hang { detail: String },
}
impl Outcome {
    pub fn is_ok(&self) -> bool {
        *self == Outcome::Ok
    }
}

/// Short, stable cause tag derived from the panic message class.
pub fn panic_tag(msg: &str) -> &'static str {
    if msg.contains("out of range") || msg.contains("out of bounds") || msg.contains("slice index") || msg.contains("mid > len") {
        "slice-index"
    } else if msg.contains("sequence number") {
        "seq-arith"
    } else if msg.contains("attempt to subtract with overflow") {
        "sub-overflow"
    } else if msg.contains("attempt to add with overflow") {
        "add-overflow"
    } else if msg.contains("attempt to multiply with overflow") {
        "mul-overflow"
    } else if msg.contains("attempt to shift") {
        "shift-overflow"
    } else if msg.contains("attempt to divide by zero") || msg.contains("remainder with a divisor of zero") {
        "div-zero"
    } else if msg.contains("unreachable") {
        "unreachable"
    } else if msg.contains("not yet implemented") || msg.contains("not implemented") {
        "todo"
    } else if msg.contains("Option::unwrap()") {
        "unwrap-none"
    } else if msg.contains("Result::unwrap()") {
        "unwrap-err"
    } else if msg.contains("assertion") {
        "assert"
    } else if msg.contains("copy_from_slice") || msg.contains("source slice length") {
        "copy-len"
    } else if msg.contains("is not unicast") {
        "not-unicast"
    } else {
        "other"
    }
}

/// Values the world's own traffic revealed during set-up (needed to build matching seeds).
#[derive(Clone, Debug, Default, PartialEq, Eq)]
pub struct Learned {
    pub synsent_iss: u32,
    pub est_iss: u32,
    pub dns_port: u16,
    pub dns_txid: u16,
    pub dhcp_xid: u32,
    /// ISS the listening socket answers the first SYN with when that SYN is the first frame
    /// after the base state (learned by the caller on a scout world, 0 inside World)
    pub listen_iss: u32,
}

pub struct Handles {
    pub tcp_listen: SocketHandle,
    pub tcp_synsent: SocketHandle,
    pub tcp_est: SocketHandle,
    pub udp: SocketHandle,
    pub udp_nhc: SocketHandle,
    /// echo servers (the application sends every datagram back to its sender), bound to the
    /// boundary ports of the LOWPAN_NHC UDP port compression
    pub udp_echo: [SocketHandle; 2],
    pub icmp: [SocketHandle; 3],
    pub raw: Vec<SocketHandle>,
    pub dns: SocketHandle,
    pub dhcp: Option<SocketHandle>,
}

pub struct World {
    pub cfg: Cfg,
    pub dev: Dev,
    pub iface: Interface,
    pub sockets: SocketSet<'static>,
    pub now_ms: i64,
    pub h: Handles,
    pub learned: Learned,
    pub probe_seq: u16,
    /// panics inside socket API calls made by the application model (not C03 material)
    pub app_panics: Vec<String>,
    /// application model state: the IPv4 address in place was installed from a DHCP lease
    pub dhcp_configured: bool,
}

pub fn ip4(a: &[u8; 4]) -> IpAddress {
    IpAddress::Ipv4(Ipv4Address::new(a[0], a[1], a[2], a[3]))
}
pub fn ip6(a: &[u8; 16]) -> IpAddress {
    IpAddress::Ipv6(Ipv6Address::from_octets(*a))
}

/// Normalised view of a transmitted TCP/UDP packet (independent parser).
pub struct L4View {
    pub proto: u8,
    pub sport: u16,
    pub dport: u16,
    /// TCP: the whole segment; UDP: the payload
    pub body: Vec<u8>,
}
pub fn tx_l4(medium: Medium, f: &[u8]) -> Option<L4View> {
    let from_ip = |p: &[u8]| -> Option<L4View> {
        let (proto, l4) = match p.first()? >> 4 {
            4 if p.len() >= 20 => {
                let ihl = (p[0] & 0xf) as usize * 4;
                if be16(&p[6..]) & 0x3fff != 0 || ihl > p.len() {
                    return None;
                }
                (p[9], &p[ihl..])
            }
            6 if p.len() >= 40 => (p[6], &p[40..]),
            _ => return None,
        };
        match proto {
            6 if l4.len() >= 20 => Some(L4View { proto, sport: be16(l4), dport: be16(&l4[2..]), body: l4.to_vec() }),
            17 if l4.len() >= 8 => Some(L4View { proto, sport: be16(l4), dport: be16(&l4[2..]), body: l4[8..].to_vec() }),
            _ => None,
        }
    };
    match medium {
        Medium::Ethernet => {
            if f.len() < 14 || !matches!(be16(&f[12..]), 0x0800 | 0x86dd) {
                return None;
            }
            from_ip(&f[14..])
        }
        Medium::Ip => from_ip(f),
        _ => {
            let h = mac154_hdr_len(f)?;
            let p = &f[h..];
            let (n, nh) = iphc_len(p)?;
            let l4 = &p[n..];
            match nh {
                Some(6) if l4.len() >= 20 => Some(L4View { proto: 6, sport: be16(l4), dport: be16(&l4[2..]), body: l4.to_vec() }),
                Some(17) if l4.len() >= 8 => Some(L4View { proto: 17, sport: be16(l4), dport: be16(&l4[2..]), body: l4[8..].to_vec() }),
                None => {
                    let d = *l4.first()?;
                    if d >> 3 != 0b11110 {
                        return None;
                    }
                    let c = (d >> 2) & 1;
                    let (sport, dport, mut i) = match d & 3 {
                        0 if l4.len() >= 5 => (be16(&l4[1..]), be16(&l4[3..]), 5),
                        1 if l4.len() >= 4 => (be16(&l4[1..]), 0xf000 | l4[3] as u16, 4),
                        2 if l4.len() >= 4 => (0xf000 | l4[1] as u16, be16(&l4[2..]), 4),
                        3 if l4.len() >= 2 => (0xf0b0 | (l4[1] >> 4) as u16, 0xf0b0 | (l4[1] & 0xf) as u16, 2),
                        _ => return None,
                    };
                    if c == 0 {
                        i += 2;
                    }
                    if i > l4.len() {
                        return None;
                    }
                    Some(L4View { proto: 17, sport, dport, body: l4[i..].to_vec() })
                }
                _ => None,
            }
        }
    }
}

fn tcp_sock(buf: usize) -> tcp::Socket<'static> {
    tcp::Socket::new(tcp::SocketBuffer::new(vec![0u8; buf]), tcp::SocketBuffer::new(vec![0u8; buf]))
}

pub const SOCK_BUF: usize = 64;

impl World {
    /// The MAC header a frame from `src` to the interface carries on 802.15.4.
    pub fn mac_std(src: [u8; 8], seq: u8) -> Mac {
        Mac {
            frame_type: 1,
            security: false,
            pending: false,
            ack_req: false,
            pan_compress: true,
            version: 0,
            seq,
            dst_pan: Some(PAN),
            dst: Ll::Ext(IFACE_EXT),
            src_pan: None,
            src: Ll::Ext(src),
        }
    }

    /// Wrap an IP packet from `src_mac`-side host into a frame for this medium (unicast to the
    /// interface, or the right multicast/broadcast MAC for multicast/broadcast destinations).
    pub fn wrap_ip(medium: Medium, src_mac: &[u8; 6], src_ext: [u8; 8], ipp: &[u8]) -> Vec<u8> {
        match medium {
            Medium::Ip => ipp.to_vec(),
            Medium::Ethernet => {
                if ipp.first().map(|b| b >> 4) == Some(6) && ipp.len() >= 40 {
                    let d: [u8; 16] = ipp[24..40].try_into().unwrap();
                    let dm = if d[0] == 0xff { mcast_mac6(&d) } else { IFACE_MAC };
                    eth(&dm, src_mac, 0x86dd, ipp)
                } else if ipp.len() >= 20 {
                    let d: [u8; 4] = ipp[16..20].try_into().unwrap();
                    let dm = if d[0] >= 224 && d[0] < 240 {
                        mcast_mac4(&d)
                    } else if d == [255; 4] || d == [192, 168, 69, 255] {
                        [0xff; 6]
                    } else {
                        IFACE_MAC
                    };
                    eth(&dm, src_mac, 0x0800, ipp)
                } else {
                    eth(&IFACE_MAC, src_mac, 0x0800, ipp)
                }
            }
            Medium::Ieee802154 => {
                // default 6LoWPAN style: stateless, both addresses inline in full (independent of
                // contexts and link-layer addresses), next header inline
                let src: [u8; 16] = ipp[8..24].try_into().unwrap();
                let dst: [u8; 16] = ipp[24..40].try_into().unwrap();
                let st = Iphc { tf: 3, hlim: 0, sam: Am::Full, dam: Am::Full };
                let mut p = iphc(&st, &src, &dst, Some(ipp[6]), ipp[7]);
                p.extend_from_slice(&ipp[40..]);
                mac154(&World::mac_std(src_ext, 1), &p)
            }
        }
    }

    pub fn new(cfg: Cfg) -> Result<World, String> {
        let r = catch_unwind(AssertUnwindSafe(|| World::build(cfg)));
        match r {
            Ok(w) => w,
            Err(e) => Err(format!("PANIC during world set-up: {} at {}", panic_msg(e), last_panic_loc())),
        }
    }

    fn build(cfg: Cfg) -> Result<World, String> {
        let medium = cfg.medium;
        let mtu = match medium {
            Medium::Ethernet => 1514,
            Medium::Ip => 1500,
            Medium::Ieee802154 => 127,
        };
        let mut dev = Dev { rx: VecDeque::new(), tx: vec![], medium, mtu, calls: 0, max_calls: 0, spin: false };
        let hw = match medium {
            Medium::Ethernet => HardwareAddress::Ethernet(EthernetAddress(IFACE_MAC)),
            Medium::Ip => HardwareAddress::Ip,
            Medium::Ieee802154 => HardwareAddress::Ieee802154(Ieee802154Address::Extended(IFACE_EXT)),
        };
        let mut c = Config::new(hw);
        c.random_seed = 0x5eed_0c03;
        if medium == Medium::Ieee802154 {
            c.pan_id = Some(Ieee802154Pan(PAN));
        }
        // SLAAC on Medium::Ip makes the first poll panic in hardware_addr() (configuration
        // misuse, nothing to do with received frames): only enable it where it is meaningful
        c.slaac = cfg.variant == 1 && medium != Medium::Ip;
        let mut iface = Interface::new(c, &mut dev, Instant::from_millis(T0_MS));
        iface.update_ip_addrs(|a| {
            if cfg.has_v4() {
                a.push(IpCidr::new(ip4(&IFACE4), 24)).unwrap();
            }
            if cfg.has_v6() {
                a.push(IpCidr::new(ip6(&IFACE6), 64)).unwrap();
                if medium == Medium::Ieee802154 {
                    a.push(IpCidr::new(ip6(&IFACE6_ULA), 64)).unwrap();
                }
            }
        });
        if medium != Medium::Ieee802154 {
            iface.routes_mut().add_default_ipv4_route(Ipv4Address::new(GW4[0], GW4[1], GW4[2], GW4[3])).map_err(|e| format!("{:?}", e))?;
        }
        iface.routes_mut().add_default_ipv6_route(Ipv6Address::from_octets(GW6)).map_err(|e| format!("{:?}", e))?;
        if medium == Medium::Ieee802154 {
            iface
                .sixlowpan_address_context_mut()
                .push(SixlowpanAddressContext([0xfd, 0, 0, 0, 0, 0, 0, 0]))
                .map_err(|_| "context table full".to_string())?;
            if cfg.join_154 {
                iface.join_multicast_group(ip6(&GROUP6)).map_err(|e| format!("{:?}", e))?;
            }
        } else {
            iface.join_multicast_group(ip4(&GROUP4)).map_err(|e| format!("{:?}", e))?;
            iface.join_multicast_group(ip6(&GROUP6)).map_err(|e| format!("{:?}", e))?;
        }

        let mut sockets = SocketSet::new(vec![]);
        let mut s = tcp_sock(SOCK_BUF);
        s.listen(P_LISTEN).map_err(|e| format!("{:?}", e))?;
        let tcp_listen = sockets.add(s);
        let tcp_synsent = sockets.add(tcp_sock(SOCK_BUF));
        let mut s = tcp_sock(SOCK_BUF);
        s.listen(P_EST).map_err(|e| format!("{:?}", e))?;
        let tcp_est = sockets.add(s);
        let mk_udp = |port: u16| {
            let mut u = udp::Socket::new(
                udp::PacketBuffer::new(vec![udp::PacketMetadata::EMPTY; 2], vec![0u8; SOCK_BUF]),
                udp::PacketBuffer::new(vec![udp::PacketMetadata::EMPTY; 1], vec![0u8; 16]),
            );
            u.bind(port).unwrap();
            u
        };
        let udp = sockets.add(mk_udp(P_UDP));
        let udp_nhc = sockets.add(mk_udp(P_UDP_NHC));
        let mk_echo = |port: u16| {
            let mut u = udp::Socket::new(
                udp::PacketBuffer::new(vec![udp::PacketMetadata::EMPTY; 2], vec![0u8; 48]),
                udp::PacketBuffer::new(vec![udp::PacketMetadata::EMPTY; 2], vec![0u8; 48]),
            );
            u.bind(port).unwrap();
            u
        };
        let udp_echo = [sockets.add(mk_echo(P_ECHO[0])), sockets.add(mk_echo(P_ECHO[1]))];
        let mk_icmp = |ep: icmp::Endpoint| {
            let mut i = icmp::Socket::new(
                icmp::PacketBuffer::new(vec![icmp::PacketMetadata::EMPTY; 2], vec![0u8; 2 * SOCK_BUF]),
                icmp::PacketBuffer::new(vec![icmp::PacketMetadata::EMPTY; 1], vec![0u8; 16]),
            );
            i.bind(ep).unwrap();
            i
        };
        let lep = |port: u16| IpListenEndpoint { addr: None, port };
        let icmp = [
            sockets.add(mk_icmp(icmp::Endpoint::Ident(ICMP_IDENT))),
            sockets.add(mk_icmp(icmp::Endpoint::Udp(lep(P_UDP)))),
            sockets.add(mk_icmp(icmp::Endpoint::Tcp(lep(P_EST)))),
        ];
        let mut raws = vec![];
        if cfg.variant == 1 {
            for (ver, proto) in [
                (None, Some(IpProtocol::Udp)),
                (if cfg.has_v4() { Some(IpVersion::Ipv4) } else { Some(IpVersion::Ipv6) }, Some(IpProtocol::Tcp)),
                (Some(IpVersion::Ipv6), Some(IpProtocol::Unknown(253))),
                (None, None),
            ] {
                raws.push(sockets.add(raw::Socket::new(
                    ver,
                    proto,
                    raw::PacketBuffer::new(vec![raw::PacketMetadata::EMPTY; 2], vec![0u8; 2 * SOCK_BUF]),
                    raw::PacketBuffer::new(vec![raw::PacketMetadata::EMPTY; 1], vec![0u8; 16]),
                )));
            }
        }
        let dns_server = if cfg.v6_peers() { ip6(&PEER6) } else { ip4(&PEER4) };
        let dns = sockets.add(dns::Socket::new(&[dns_server], vec![]));
        let dhcp = if medium == Medium::Ethernet { Some(sockets.add(dhcpv4::Socket::new())) } else { None };

        let mut w = World {
            cfg,
            dev,
            iface,
            sockets,
            now_ms: T0_MS,
            h: Handles { tcp_listen, tcp_synsent, tcp_est, udp, udp_nhc, udp_echo, icmp, raw: raws, dns, dhcp },
            learned: Learned::default(),
            probe_seq: 0,
            app_panics: vec![],
            dhcp_configured: false,
        };
        let must = |o: Outcome, what: &str| -> Result<(), String> {
            match o {
                Outcome::Ok => Ok(()),
                Outcome::Panic { msg, loc, .. } => Err(format!("PANIC in poll during set-up ({}): {} at {}", what, msg, loc)),
                Outcome::Hang { detail } => Err(format!("HANG in poll during set-up ({}): {}", what, detail)),
            }
        };
        // 1. first poll: multicast reports, DHCP DISCOVER, router solicitation
        must(w.poll(), "first poll")?;
        let first = w.take_tx();
        if w.h.dhcp.is_some() {
            w.learned.dhcp_xid = first
                .iter()
                .filter_map(|f| tx_l4(medium, f))
                .find(|v| v.proto == 17 && v.sport == 68 && v.dport == 67 && v.body.len() >= 8)
                .map(|v| u32::from_be_bytes(v.body[4..8].try_into().unwrap()))
                .ok_or("no DHCP DISCOVER seen")?;
        }
        // 2. the peer makes itself known (ARP request / neighbor solicitation)
        match medium {
            Medium::Ethernet => {
                let f = eth(&[0xff; 6], &PEER_MAC, 0x0806, &arp(1, &PEER_MAC, &PEER4, &[0; 6], &IFACE4));
                must(w.inject(&f), "peer arp")?;
                let ns = w.ns_frame(&PEER6, &PEER_MAC, PEER_EXT, &IFACE6);
                must(w.inject(&ns), "peer ns")?;
            }
            Medium::Ieee802154 => {
                let ns = w.ns_frame(&PEER6, &PEER_MAC, PEER_EXT, &IFACE6);
                must(w.inject(&ns), "peer ns")?;
            }
            Medium::Ip => {}
        }
        w.take_tx();
        // (an interface without any address cannot open or accept connections)
        if cfg.addrs != 3 {
        // 3. active open + DNS query; read ISN / port / id from the wire
        let (me, peer): (Vec<u8>, Vec<u8>) = if cfg.v6_peers() { (IFACE6.to_vec(), PEER6.to_vec()) } else { (IFACE4.to_vec(), PEER4.to_vec()) };
        let peer_ip = if cfg.v6_peers() { ip6(&PEER6) } else { ip4(&PEER4) };
        {
            let cx = w.iface.context();
            w.sockets
                .get_mut::<tcp::Socket>(w.h.tcp_synsent)
                .connect(cx, IpEndpoint::new(peer_ip, P_PEER_SYNSENT), P_SYNSENT_LOCAL)
                .map_err(|e| format!("connect: {:?}", e))?;
            let cx = w.iface.context();
            w.sockets
                .get_mut::<dns::Socket>(w.h.dns)
                .start_query(cx, "example.com", if cfg.v6_peers() { smoltcp::wire::DnsQueryType::Aaaa } else { smoltcp::wire::DnsQueryType::A })
                .map_err(|e| format!("start_query: {:?}", e))?;
        }
        must(w.poll(), "connect poll")?;
        let out = w.take_tx();
        let views: Vec<L4View> = out.iter().filter_map(|f| tx_l4(medium, f)).collect();
        let syn = views.iter().find(|v| v.proto == 6 && v.dport == P_PEER_SYNSENT && v.body[13] & SYN != 0).ok_or("no SYN seen on the wire")?;
        w.learned.synsent_iss = u32::from_be_bytes(syn.body[4..8].try_into().unwrap());
        let q = views.iter().find(|v| v.proto == 17 && v.dport == 53 && v.body.len() >= 12).ok_or("no DNS query seen on the wire")?;
        w.learned.dns_port = q.sport;
        w.learned.dns_txid = be16(&q.body);
        // 4. passive open driven to ESTABLISHED by scripted frames
        let synp = tcp(&peer, &me, P_PEER_EST, P_EST, PEER_ISN, 0, SYN, 1024, &[2, 4, 0x02, 0x18], &[]);
        must(w.inject(&World::wrap_ip(medium, &PEER_MAC, PEER_EXT, &ip(&peer, &me, 6, &synp))), "handshake syn")?;
        let out = w.take_tx();
        let sa = out
            .iter()
            .filter_map(|f| tx_l4(medium, f))
            .find(|v| v.proto == 6 && v.sport == P_EST && v.body[13] & (SYN | ACK) == (SYN | ACK))
            .ok_or("no SYN-ACK seen on the wire")?;
        w.learned.est_iss = u32::from_be_bytes(sa.body[4..8].try_into().unwrap());
        let ackp = tcp(&peer, &me, P_PEER_EST, P_EST, PEER_ISN.wrapping_add(1), w.learned.est_iss.wrapping_add(1), ACK, 1024, &[], &[]);
        must(w.inject(&World::wrap_ip(medium, &PEER_MAC, PEER_EXT, &ip(&peer, &me, 6, &ackp))), "handshake ack")?;
        w.take_tx();
        let st = w.sockets.get::<tcp::Socket>(w.h.tcp_est).state();
        if st != tcp::State::Established {
            return Err(format!("tcp_est is {:?} after the scripted handshake", st));
        }
        let st = w.sockets.get::<tcp::Socket>(w.h.tcp_synsent).state();
        if st != tcp::State::SynSent {
            return Err(format!("tcp_synsent is {:?}", st));
        }
        }
        // 4b. variant C: the application closes the established connection (FIN-WAIT-1)
        if cfg.variant == 2 {
            w.sockets.get_mut::<tcp::Socket>(w.h.tcp_est).close();
            must(w.poll(), "close poll")?;
            let out = w.take_tx();
            if !out.iter().filter_map(|f| tx_l4(medium, f)).any(|v| v.proto == 6 && v.sport == P_EST && v.body[13] & FIN != 0) {
                return Err("no FIN seen on the wire after close()".into());
            }
            let st = w.sockets.get::<tcp::Socket>(w.h.tcp_est).state();
            if st != tcp::State::FinWait1 {
                return Err(format!("tcp_est is {:?} after close()", st));
            }
        }
        // 5. variant B: DHCP client driven to REQUESTING by an OFFER
        if cfg.variant == 1 && w.h.dhcp.is_some() {
            let offer = super::seeds::dhcp_frame(2, w.learned.dhcp_xid, &[192, 168, 69, 50], Default::default());
            must(w.inject(&offer), "dhcp offer")?;
            let out = w.take_tx();
            w.learned.dhcp_xid = out
                .iter()
                .filter_map(|f| tx_l4(medium, f))
                .find(|v| v.proto == 17 && v.sport == 68 && v.dport == 67 && v.body.len() >= 8)
                .map(|v| u32::from_be_bytes(v.body[4..8].try_into().unwrap()))
                .ok_or("no DHCP REQUEST seen after OFFER")?;
        }
        w.dev.max_calls = 0;
        Ok(w)
    }

    pub fn now(&self) -> Instant {
        Instant::from_millis(self.now_ms)
    }
    pub fn take_tx(&mut self) -> Vec<Vec<u8>> {
        std::mem::take(&mut self.dev.tx)
    }

    /// `Interface::poll` under catch_unwind + device call counter, then the application model.
    pub fn poll(&mut self) -> Outcome {
        self.dev.calls = 0;
        let now = self.now();
        let r = catch_unwind(AssertUnwindSafe(|| {
            self.iface.poll(now, &mut self.dev, &mut self.sockets);
        }));
        self.dev.max_calls = self.dev.max_calls.max(self.dev.calls);
        match r {
            Ok(()) => {
                self.app();
                Outcome::Ok
            }
            Err(e) => {
                let msg = panic_msg(e);
                if msg.starts_with(HANG_MARK) {
                    Outcome::Hang { detail: msg }
                } else {
                    Outcome::Panic { msg, site: panic_site(), loc: last_panic_loc() }
                }
            }
        }
    }
    /// several frames are already waiting in the device when the interface is polled ONCE
    pub fn inject_many(&mut self, frames: &[Vec<u8>]) -> Outcome {
        for f in frames {
            self.dev.rx.push_back(f.clone());
        }
        self.poll()
    }
    pub fn inject(&mut self, frame: &[u8]) -> Outcome {
        self.dev.rx.push_back(frame.to_vec());
        self.poll()
    }
    pub fn advance(&mut self, ms: i64) -> Outcome {
        self.now_ms += ms;
        self.poll()
    }

    /// Application model: what a program using these sockets does after every poll. It reads
    /// (and discards) whatever arrived, and applies DHCP configuration events to the interface
    /// the way examples/dhcp_client.rs does (IPv4 address + default route only).
    fn app(&mut self) {
        let r = catch_unwind(AssertUnwindSafe(|| {
            for h in [self.h.udp, self.h.udp_nhc] {
                let s = self.sockets.get_mut::<udp::Socket>(h);
                while s.recv().is_ok() {}
            }
            for h in self.h.udp_echo {
                // the usual echo server: every datagram goes back to where it came from
                let s = self.sockets.get_mut::<udp::Socket>(h);
                let mut got = vec![];
                while let Ok((d, meta)) = s.recv() {
                    got.push((d.to_vec(), meta.endpoint));
                }
                for (d, ep) in got {
                    let _ = s.send_slice(&d, ep);
                }
            }
            for h in self.h.icmp {
                let s = self.sockets.get_mut::<icmp::Socket>(h);
                while s.recv().is_ok() {}
            }
            for &h in &self.h.raw {
                let s = self.sockets.get_mut::<raw::Socket>(h);
                while s.recv().is_ok() {}
            }
            for h in [self.h.tcp_listen, self.h.tcp_synsent, self.h.tcp_est] {
                let s = self.sockets.get_mut::<tcp::Socket>(h);
                while s.can_recv() {
                    if s.recv(|b| (b.len(), ())).is_err() {
                        break;
                    }
                }
            }
            if let Some(h) = self.h.dhcp {
                let ev = match self.sockets.get_mut::<dhcpv4::Socket>(h).poll() {
                    None => None,
                    Some(dhcpv4::Event::Deconfigured) => Some(None),
                    Some(dhcpv4::Event::Configured(c)) => Some(Some((c.address, c.router))),
                };
                match ev {
                    None => {}
                    Some(None) => {
                        // Deconfigured: only a DHCP-installed address is taken away again (the
                        // very first event of a fresh socket is Deconfigured; the statically
                        // configured address stays until a lease replaces it)
                        if self.dhcp_configured {
                            self.dhcp_configured = false;
                            self.iface.update_ip_addrs(|a| a.retain(|c| !matches!(c, IpCidr::Ipv4(_))));
                            self.iface.routes_mut().remove_default_ipv4_route();
                        }
                    }
                    Some(Some((cidr, router))) => {
                        // the application validates what it installs: update_ip_addrs documents
                        // that it panics on non-unicast addresses
                        let ok = IpAddress::Ipv4(cidr.address()).is_unicast();
                        if ok {
                            self.dhcp_configured = true;
                            self.iface.update_ip_addrs(|a| {
                                a.retain(|c| !matches!(c, IpCidr::Ipv4(_)));
                                let _ = a.push(IpCidr::Ipv4(cidr));
                            });
                            match router {
                                Some(r) => {
                                    let _ = self.iface.routes_mut().add_default_ipv4_route(r);
                                }
                                None => {
                                    self.iface.routes_mut().remove_default_ipv4_route();
                                }
                            }
                        }
                    }
                }
            }
        }));
        if let Err(e) = r {
            self.app_panics.push(format!("{} at {}", panic_msg(e), last_panic_loc()));
        }
    }

    /// Fingerprint of everything that determines future behaviour: interface digest (hook),
    /// Debug image of the SocketSet (sockets + their meta), and the clock.
    pub fn fingerprint(&self) -> u128 {
        fp128(&(self.iface.verif_digest(), format!("{:?}", self.sockets), self.now_ms, self.dhcp_configured))
    }

    /// Per component hashes: the digest split at its top-level keys, then one per socket.
    pub fn components(&self) -> Vec<u64> {
        const KEYS: [&str; 17] = [
            "hw=", " addrs=", " any_ip=", " routes=", " neigh=", " seq=", " pan=", " ipv4_id=", " tag=", " ctx=", " rand=", " slaac_enabled=",
            " slaac=", " slaac_updated=", " mcast=", " frag[", " reasm[",
        ];
        let d = self.iface.verif_digest();
        let mut cuts: Vec<usize> = vec![];
        let mut from = 0;
        for k in KEYS {
            match d[from..].find(k) {
                Some(i) => {
                    cuts.push(from + i);
                    from += i + k.len();
                }
                None => cuts.push(from),
            }
        }
        cuts.push(d.len());
        let mut out: Vec<u64> = cuts.windows(2).map(|w| fp128(&d[w[0]..w[1]]) as u64).collect();
        for (_, s) in self.sockets.iter() {
            out.push(fp128(&format!("{:?}", s)) as u64);
        }
        out
    }
    pub fn component_names(&self) -> Vec<String> {
        let mut n: Vec<String> = ["hw", "addrs", "any_ip", "routes", "neigh", "seq", "pan", "ipv4_id", "tag", "ctx", "rand", "slaac_enabled", "slaac", "slaac_updated", "mcast", "frag", "reasm"]
            .iter()
            .map(|s| s.to_string())
            .collect();
        let mut names = vec!["tcp_listen", "tcp_synsent", "tcp_est", "udp", "udp_nhc", "udp_echo_f0bf", "udp_echo_f0ff", "icmp_ident", "icmp_udp", "icmp_tcp"].into_iter().map(String::from).collect::<Vec<_>>();
        for i in 0..self.h.raw.len() {
            names.push(format!("raw{}", i));
        }
        names.push("dns".into());
        if self.h.dhcp.is_some() {
            names.push("dhcp".into());
        }
        n.extend(names);
        n
    }

    // --------------------------------------------------------------------------- probe

    /// Neighbor solicitation for `target` from (`src`, link-layer `mac`/`ext`), as a frame.
    pub fn ns_frame(&self, src: &[u8; 16], mac: &[u8; 6], ext: [u8; 8], target: &[u8; 16]) -> Vec<u8> {
        let dst = solicited(target);
        let mut body = vec![0, 0, 0, 0];
        body.extend_from_slice(target);
        match self.cfg.medium {
            Medium::Ethernet => body.extend_from_slice(&lladdr_opt(1, mac)),
            _ => body.extend_from_slice(&lladdr_opt(1, &ext)),
        }
        let m = icmp6(src, &dst, 135, 0, &body);
        let p = ipv6(src, &dst, 58, 255, &m);
        World::wrap_ip(self.cfg.medium, mac, ext, &p)
    }

    fn first_v6(&self) -> Option<([u8; 16], u8)> {
        let mut first = None;
        for c in self.iface.ip_addrs() {
            if let IpCidr::Ipv6(c6) = c {
                let a = c6.address().octets();
                if a[0] == 0xfe && a[1] == 0x80 {
                    return Some((a, c6.prefix_len()));
                }
                if first.is_none() {
                    first = Some((a, c6.prefix_len()));
                }
            }
        }
        first
    }

    /// The IPv4 address the interface has NOW and a prober address inside its subnet, if the
    /// configuration admits one (DHCP may have changed or removed the address).
    fn v4_probe_addrs(&self) -> Option<([u8; 4], [u8; 4])> {
        let c: Ipv4Cidr = self.iface.ip_addrs().iter().find_map(|c| match c {
            IpCidr::Ipv4(c) => Some(*c),
            _ => None,
        })?;
        let a = u32::from_be_bytes(c.address().octets());
        let p = c.prefix_len();
        if p > 30 || p == 0 {
            return None;
        }
        let mask = u32::MAX << (32 - p);
        let (net, bc) = (a & mask, a | !mask);
        let first = a >> 24;
        // the address itself must be an ordinary unicast host address
        if a == net || a == bc || first == 0 || first >= 224 || first == 127 {
            return None;
        }
        let mut h = net + 9;
        if h >= bc {
            h = net + 1;
        }
        if h == a {
            h += 1;
        }
        if h >= bc {
            return None;
        }
        Some((a.to_be_bytes(), h.to_be_bytes()))
    }

    /// Trailing probe: (re-)teach the prober's link-layer address, then ICMP echo request to an
    /// address the interface owns now. v6/v4: Some(answered) or None when not applicable.
    pub fn probe(&mut self) -> ProbeResult {
        let medium = self.cfg.medium;
        let mut res = ProbeResult { v6: None, v4: None, frag: None, large: None, outcome: Outcome::Ok, log: vec![] };
        self.take_tx();
        self.probe_seq = self.probe_seq.wrapping_add(1);
        let seq = self.probe_seq;
        if let Some((target, plen)) = self.first_v6() {
            let mut prober = target;
            for b in prober[8..].iter_mut() {
                *b = 0;
            }
            prober[15] = if target[15] == 0x99 && target[8..15] == [0; 7] { 0x98 } else { 0x99 };
            if plen <= 64 {
                if medium != Medium::Ip {
                    let ns = self.ns_frame(&prober, &PROBER_MAC, PROBER_EXT, &target);
                    let o = self.inject(&ns);
                    let out = self.take_tx();
                    res.log.push(format!("v6 NS -> {:?}", out.iter().map(|f| classify(medium, f)).collect::<Vec<_>>()));
                    if !o.is_ok() {
                        res.outcome = o;
                        return res;
                    }
                }
                let m = icmp6(&prober, &target, 128, 0, &echo_body(PROBE_IDENT, seq, PROBE_DATA));
                let f = World::wrap_ip(medium, &PROBER_MAC, PROBER_EXT, &ipv6(&prober, &target, 58, 64, &m));
                let o = self.inject(&f);
                let out = self.take_tx();
                res.log.push(format!("v6 echo -> {:?}", out.iter().map(|f| classify(medium, f)).collect::<Vec<_>>()));
                if !o.is_ok() {
                    res.outcome = o;
                    return res;
                }
                res.v6 = Some(out.iter().any(|f| is_echo_reply(medium, true, f, PROBE_IDENT, seq, PROBE_DATA)));
            }
        }
        if medium != Medium::Ieee802154 {
            if let Some((target, prober)) = self.v4_probe_addrs() {
                if medium == Medium::Ethernet {
                    let f = eth(&[0xff; 6], &PROBER_MAC, 0x0806, &arp(1, &PROBER_MAC, &prober, &[0; 6], &target));
                    let o = self.inject(&f);
                    let out = self.take_tx();
                    res.log.push(format!("v4 ARP -> {:?}", out.iter().map(|f| classify(medium, f)).collect::<Vec<_>>()));
                    if !o.is_ok() {
                        res.outcome = o;
                        return res;
                    }
                }
                let m = icmp4(8, 0, echo_body(PROBE_IDENT, seq, &[])[..4].try_into().unwrap(), PROBE_DATA);
                let ipp = ipv4(&prober, &target, 1, &m, V4);
                let f = match medium {
                    Medium::Ethernet => eth(&IFACE_MAC, &PROBER_MAC, 0x0800, &ipp),
                    _ => ipp,
                };
                let o = self.inject(&f);
                let out = self.take_tx();
                res.log.push(format!("v4 echo -> {:?}", out.iter().map(|f| classify(medium, f)).collect::<Vec<_>>()));
                if !o.is_ok() {
                    res.outcome = o;
                    return res;
                }
                res.v4 = Some(out.iter().any(|f| is_echo_reply(medium, false, f, PROBE_IDENT, seq, PROBE_DATA)));
            }
        }
        self.probe_fragmented(&mut res, seq);
        res
    }

    /// Second trailing probe: a well-formed echo request sent in TWO FRAGMENTS (IPv4 fragments
    /// on Ethernet / IP, 6LoWPAN FRAG1 + FRAGN on 802.15.4) must be reassembled and answered.
    /// Lenient reading: a partial datagram left behind by the sequence legitimately occupies a
    /// reassembly slot until it times out (60 s), so the clock is first advanced by 61 s and the
    /// interface polled; after that every slot must be usable again. The prober's link-layer
    /// address is taught again (neighbor entries live 60 s) and the addresses are re-read (a
    /// DHCP lease may have ended meanwhile; without a usable IPv4 subnet the IPv4 variant is
    /// not applicable).
    fn probe_fragmented(&mut self, res: &mut ProbeResult, seq: u16) {
        let medium = self.cfg.medium;
        macro_rules! step {
            ($what:expr, $frame:expr) => {{
                let o = self.inject($frame);
                let out = self.take_tx();
                res.log.push(format!("{} -> {:?}", $what, out.iter().map(|f| classify(medium, f)).collect::<Vec<_>>()));
                if !o.is_ok() {
                    res.outcome = o;
                    return;
                }
                out
            }};
        }
        let o = self.advance(FRAG_PROBE_ADVANCE_MS);
        let out = self.take_tx();
        res.log.push(format!("+{} ms -> {:?}", FRAG_PROBE_ADVANCE_MS, out.iter().map(|f| classify(medium, f)).collect::<Vec<_>>()));
        if !o.is_ok() {
            res.outcome = o;
            return;
        }
        if medium == Medium::Ieee802154 {
            let Some((target, plen)) = self.first_v6() else { return };
            if plen > 64 {
                return;
            }
            let mut prober = target;
            for b in prober[8..].iter_mut() {
                *b = 0;
            }
            prober[15] = if target[15] == 0x99 && target[8..15] == [0; 7] { 0x98 } else { 0x99 };
            let ns = self.ns_frame(&prober, &PROBER_MAC, PROBER_EXT, &target);
            step!("frag-probe NS", &ns);
            let m = icmp6(&prober, &target, 128, 0, &echo_body(PROBE_IDENT, seq, FRAG_PROBE_DATA));
            let size = (40 + m.len()) as u16;
            let mac = World::mac_std(PROBER_EXT, 2);
            let mut a = frag1(size, 0xc03f);
            a.extend_from_slice(&iphc(&Iphc { tf: 3, hlim: 0, sam: Am::Full, dam: Am::Full }, &prober, &target, Some(58), 64));
            a.extend_from_slice(&m[..24]);
            let mut b = fragn(size, 0xc03f, 8);
            b.extend_from_slice(&m[24..]);
            step!("FRAG1", &mac154(&mac, &a));
            let out = step!("FRAGN", &mac154(&mac, &b));
            res.frag = Some(out.iter().any(|f| is_echo_reply(medium, true, f, PROBE_IDENT, seq, FRAG_PROBE_DATA)));
            // Third probe: a request whose REPLY needs 6LoWPAN fragmentation (200 octet echo).
            // The single egress fragmentation buffer may legitimately still hold fragments of
            // a reply the sequence elicited (one fragment leaves per egress pass), so idle
            // polls first let it drain; a healthy interface is done after at most
            // FRAGMENTATION_BUFFER_SIZE / 96 of them.
            for _ in 0..DRAIN_POLLS {
                let o = self.advance(0);
                let out = self.take_tx();
                if !o.is_ok() {
                    res.outcome = o;
                    return;
                }
                if out.is_empty() {
                    break;
                }
            }
            let seq2 = seq.wrapping_add(0x4000);
            let m = icmp6(&prober, &target, 128, 0, &echo_body(PROBE_IDENT, seq2, &LARGE_PROBE_DATA));
            let size = (40 + m.len()) as u16;
            let mut a = frag1(size, 0xc040);
            a.extend_from_slice(&iphc(&Iphc { tf: 3, hlim: 0, sam: Am::Full, dam: Am::Full }, &prober, &target, Some(58), 64));
            a.extend_from_slice(&m[..64]);
            let mut b = fragn(size, 0xc040, 13);
            b.extend_from_slice(&m[64..]);
            step!("large FRAG1", &mac154(&mac, &a));
            let mut got = step!("large FRAGN", &mac154(&mac, &b));
            // the reply's remaining fragments leave one per poll
            for _ in 0..DRAIN_POLLS {
                let o = self.advance(0);
                let out = self.take_tx();
                if !o.is_ok() {
                    res.outcome = o;
                    return;
                }
                if out.is_empty() {
                    break;
                }
                got.extend(out);
            }
            res.log.push(format!("large echo: {} frame(s) collected {:?}", got.len(), got.iter().map(|f| classify(medium, f)).collect::<Vec<_>>()));
            res.large = Some(match reassemble_6lowpan(&got) {
                Some(icmp) => icmp.len() == m.len() && icmp[0] == 129 && icmp[1] == 0 && icmp[4..] == m[4..],
                None => false,
            });
        } else {
            let Some((target, prober)) = self.v4_probe_addrs() else { return };
            let wrap = |ipp: Vec<u8>| match medium {
                Medium::Ethernet => eth(&IFACE_MAC, &PROBER_MAC, 0x0800, &ipp),
                _ => ipp,
            };
            if medium == Medium::Ethernet {
                let f = eth(&[0xff; 6], &PROBER_MAC, 0x0806, &arp(1, &PROBER_MAC, &prober, &[0; 6], &target));
                step!("frag-probe ARP", &f);
            }
            let m = icmp4(8, 0, echo_body(PROBE_IDENT, seq, &[])[..4].try_into().unwrap(), FRAG_PROBE_DATA);
            let f1 = wrap(ipv4(&prober, &target, 1, &m[..24], V4Opt { id: 0xc03f, flags_frag: 0x2000, ..V4 }));
            let f2 = wrap(ipv4(&prober, &target, 1, &m[24..], V4Opt { id: 0xc03f, flags_frag: 3, ..V4 }));
            step!("v4 fragment 1/2", &f1);
            let out = step!("v4 fragment 2/2", &f2);
            res.frag = Some(out.iter().any(|f| is_echo_reply(medium, false, f, PROBE_IDENT, seq, FRAG_PROBE_DATA)));
        }
    }
}

#[derive(Clone, Debug)]
pub struct ProbeResult {
    pub v6: Option<bool>,
    pub v4: Option<bool>,
    /// fragmented echo request (IPv4 fragments resp. 6LoWPAN FRAG1/FRAGN) answered?
    pub frag: Option<bool>,
    /// 802.15.4: echo request whose reply needs 6LoWPAN fragmentation answered completely?
    pub large: Option<bool>,
    pub outcome: Outcome,
    pub log: Vec<String>,
}
