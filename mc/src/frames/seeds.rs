//! Catalogue of well-formed seed frames per (medium, configuration). Everything is built at
//! byte level from the RFC layouts (pkt.rs); values the stack chose itself (ISNs, DNS port and
//! id, DHCP xid) come from `Learned`, read off the wire during world set-up.

use super::pkt::*;
use super::world::*;
use smoltcp::phy::Medium;
use std::ops::Range;

#[derive(Clone, Debug)]
pub struct Seed {
    pub name: String,
    pub frame: Vec<u8>,
    /// 6LoWPAN only: where the uncompressed upper-layer header starts (for checksum fix-up)
    pub l4: Option<L4Info>,
    /// extra window of byte positions to mutate beyond the first 96 bytes
    pub hot: Option<Range<usize>>,
    /// the unmutated seed must visibly do something (reply or state change) on a fresh world
    pub expect_effect: bool,
    /// 1: always part of the BFS alphabets; 2: part of the depth-2 alphabets only; 0: only if it
    /// is the representative of its effect class
    pub pin: u8,
    /// 2: full mutation; 1: the seed and its truncations only; 0: the seed only (members of
    /// systematic seed families, seeds that only make sense inside a sequence)
    pub mutate: u8,
}

#[derive(Clone, Copy)]
pub struct DhcpExtra {
    pub lease: Option<u32>,
    pub mask: Option<[u8; 4]>,
    pub router: Option<[u8; 4]>,
    pub dns: bool,
    pub timers: bool,
}
impl Default for DhcpExtra {
    fn default() -> Self {
        DhcpExtra { lease: Some(600), mask: Some([255, 255, 255, 0]), router: Some(GW4), dns: true, timers: false }
    }
}
pub const DHCP_SERVER_MAC: [u8; 6] = [2, 0, 0, 0, 0, 0xfe];
pub const DHCP_OPTS_OFF: usize = 14 + 20 + 8 + 240;

/// DHCP server message (2 OFFER, 5 ACK, 6 NAK) as a broadcast Ethernet frame.
pub fn dhcp_frame(msg_type: u8, xid: u32, your_ip: &[u8; 4], x: DhcpExtra) -> Vec<u8> {
    let mut b = vec![0u8; 240];
    b[0] = 2;
    b[1] = 1;
    b[2] = 6;
    b[4..8].copy_from_slice(&xid.to_be_bytes());
    b[10] = 0x80;
    b[16..20].copy_from_slice(your_ip);
    b[20..24].copy_from_slice(&GW4);
    b[28..34].copy_from_slice(&IFACE_MAC);
    b[236..240].copy_from_slice(&[0x63, 0x82, 0x53, 0x63]);
    b.extend_from_slice(&[53, 1, msg_type]);
    b.extend_from_slice(&[54, 4]);
    b.extend_from_slice(&GW4);
    if let Some(l) = x.lease {
        b.extend_from_slice(&[51, 4]);
        b.extend_from_slice(&l.to_be_bytes());
    }
    if let Some(m) = x.mask {
        b.extend_from_slice(&[1, 4]);
        b.extend_from_slice(&m);
    }
    if let Some(r) = x.router {
        b.extend_from_slice(&[3, 4]);
        b.extend_from_slice(&r);
    }
    if x.dns {
        b.extend_from_slice(&[6, 8, 8, 8, 8, 8, 192, 168, 69, 53]);
    }
    if x.timers {
        b.extend_from_slice(&[58, 4, 0, 0, 0, 30, 59, 4, 0, 0, 0, 50]);
    }
    b.push(255);
    let u = udp(&GW4, &[255; 4], 67, 68, &b);
    eth(&[0xff; 6], &DHCP_SERVER_MAC, 0x0800, &ipv4(&GW4, &[255; 4], 17, &u, V4))
}

fn dns_name() -> Vec<u8> {
    let mut n = vec![7];
    n.extend_from_slice(b"example");
    n.push(3);
    n.extend_from_slice(b"com");
    n.push(0);
    n
}
/// DNS response to the pending query. kind: 0 plain A/AAAA answer (name via pointer),
/// 1 CNAME + address, 2 NXDOMAIN, 3 two answers with full names, 4 truncated (TC) empty answer.
fn dns_response(txid: u16, v6: bool, kind: u8) -> Vec<u8> {
    let qtype: u16 = if v6 { 28 } else { 1 };
    let addr: Vec<u8> = if v6 { a6(0x2001, 0x35).to_vec() } else { vec![93, 184, 216, 34] };
    let mut m = vec![];
    m.extend_from_slice(&txid.to_be_bytes());
    let (flags, an): (u16, u16) = match kind {
        2 => (0x8183, 0),
        4 => (0x8380, 0),
        1 | 3 => (0x8180, 2),
        _ => (0x8180, 1),
    };
    m.extend_from_slice(&flags.to_be_bytes());
    m.extend_from_slice(&[0, 1]);
    m.extend_from_slice(&an.to_be_bytes());
    m.extend_from_slice(&[0, 0, 0, 0]);
    m.extend_from_slice(&dns_name());
    m.extend_from_slice(&qtype.to_be_bytes());
    m.extend_from_slice(&[0, 1]);
    let rr = |m: &mut Vec<u8>, name: &[u8], ty: u16, data: &[u8]| {
        m.extend_from_slice(name);
        m.extend_from_slice(&ty.to_be_bytes());
        m.extend_from_slice(&[0, 1, 0, 0, 0, 60]);
        m.extend_from_slice(&(data.len() as u16).to_be_bytes());
        m.extend_from_slice(data);
    };
    match kind {
        0 => rr(&mut m, &[0xc0, 12], qtype, &addr),
        1 => {
            // CNAME example.com -> www.example.com (compressed), then the address of the alias
            let alias_off = m.len() + 2 + 10;
            rr(&mut m, &[0xc0, 12], 5, &[3, b'w', b'w', b'w', 0xc0, 12]);
            rr(&mut m, &[0xc0, alias_off as u8], qtype, &addr);
        }
        3 => {
            rr(&mut m, &dns_name(), qtype, &addr);
            rr(&mut m, &dns_name(), qtype, &addr);
        }
        _ => {}
    }
    m
}

struct IpSeed {
    name: String,
    pkt: Vec<u8>,
    effect: bool,
}
fn s(name: &str, pkt: Vec<u8>, effect: bool) -> IpSeed {
    IpSeed { name: name.to_string(), pkt, effect }
}

/// every TCP option kind smoltcp knows + an unknown one
const TCP_ALL_OPTS: [u8; 24] = [2, 4, 0x05, 0xb4, 1, 3, 3, 7, 4, 2, 8, 10, 0, 0, 0, 9, 0, 0, 0, 0, 30, 4, 0xaa, 0xbb];

/// Segments aimed at the ESTABLISHED and SYN-SENT sockets and DNS responses, over the address
/// family the configuration uses for its peers.
fn conn_seeds(me: &[u8], peer: &[u8], l: &Learned, v6: bool) -> Vec<IpSeed> {
    let fam = if v6 { "v6" } else { "v4" };
    let mut v = vec![];
    let snd = PEER_ISN.wrapping_add(1);
    let rcv = l.est_iss.wrapping_add(1);
    let mut est = |name: &str, seq: u32, ack: u32, flags: u8, opts: &[u8], data: &[u8], effect: bool| {
        let t = tcp(peer, me, P_PEER_EST, P_EST, seq, ack, flags, 2048, opts, data);
        v.push(s(&format!("{}/tcp-est/{}", fam, name), ip(peer, me, 6, &t), effect));
    };
    est("ack", snd, rcv, ACK, &[], &[], false);
    est("data-psh-ts", snd, rcv, ACK | PSH, &[1, 1, 8, 10, 0, 0, 1, 0, 0, 0, 0, 0], b"GET / HTTP/1.0\r\n", true);
    let mut sack = vec![1, 1, 5, 18];
    sack.extend_from_slice(&rcv.wrapping_add(10).to_be_bytes());
    sack.extend_from_slice(&rcv.wrapping_add(20).to_be_bytes());
    sack.extend_from_slice(&rcv.wrapping_add(30).to_be_bytes());
    sack.extend_from_slice(&rcv.wrapping_add(40).to_be_bytes());
    est("data-sack", snd, rcv, ACK, &sack, b"abc", true);
    est("ooo-data", snd.wrapping_add(8), rcv, ACK, &[], b"later...", true);
    est("fin", snd, rcv, ACK | FIN, &[], &[], true);
    est("rst", snd, rcv, RST, &[], &[], true);
    est("rst-ack-oow", snd.wrapping_add(100_000), rcv, RST | ACK, &[], &[], false);
    est("data-out-of-window", snd.wrapping_add(100_000), rcv, ACK, &[], b"zzz", true);
    est("syn-in-window", snd, rcv, SYN, &[2, 4, 2, 0], &[], false);
    est("ack-unsent", snd, rcv.wrapping_add(1000), ACK, &[], &[], true);
    est("urg-all-flags", snd, rcv, 0x3f & !(SYN | RST), &[], b"u", true);
    // acknowledges one octet beyond what an ESTABLISHED socket has sent: exactly the FIN of the
    // variant C world (FIN-WAIT-1 -> FIN-WAIT-2)
    est("ack-of-fin", snd, rcv.wrapping_add(1), ACK, &[], &[], true);
    est("fin-ack-of-fin", snd, rcv.wrapping_add(1), ACK | FIN, &[], &[], true);
    let irs = 0x2000_0000u32;
    let iss1 = l.synsent_iss.wrapping_add(1);
    let mut ss = |name: &str, seq: u32, ack: u32, flags: u8, opts: &[u8], effect: bool| {
        let t = tcp(peer, me, P_PEER_SYNSENT, P_SYNSENT_LOCAL, seq, ack, flags, 4096, opts, &[]);
        v.push(s(&format!("{}/tcp-synsent/{}", fam, name), ip(peer, me, 6, &t), effect));
    };
    ss("synack", irs, iss1, SYN | ACK, &TCP_ALL_OPTS, true);
    ss("synack-bad-ack", irs, iss1.wrapping_add(77), SYN | ACK, &[2, 4, 2, 0], true);
    ss("rst-ack", 0, iss1, RST | ACK, &[], true);
    ss("syn-simultaneous", irs, 0, SYN, &[2, 4, 2, 0], true);
    ss("ack-only", irs, iss1, ACK, &[], false);
    for (kind, name) in [(0u8, "answer"), (1, "cname"), (2, "nxdomain"), (3, "two-answers"), (4, "truncated")] {
        let u = udp(peer, me, 53, l.dns_port, &dns_response(l.dns_txid, v6, kind));
        v.push(s(&format!("{}/dns/{}", fam, name), ip(peer, me, 17, &u), kind != 4));
    }
    let u = udp(peer, me, 53, l.dns_port, &dns_response(l.dns_txid ^ 0x5555, v6, 0));
    v.push(s(&format!("{}/dns/wrong-id", fam), ip(peer, me, 17, &u), false));
    v
}

/// Initial sequence numbers around the sign change of the 32-bit sequence space (2^31) and its
/// wrap-around (2^32). The sockets' receive buffers are 64 octets, so B-0x20 puts the receive
/// window astride the boundary, B-0x100 just below it, B-1 / B exactly on it.
pub const EDGE_ISNS: [u32; 7] = [0x7fff_ff00, 0x7fff_ffe0, 0x7fff_ffff, 0x8000_0000, 0xffff_ff00, 0xffff_ffe0, 0xffff_ffff];
pub const EDGE_VALUES: [u32; 5] = [0x7fff_ff00, 0x7fff_ffff, 0x8000_0000, 0xffff_ff00, 0xffff_ffff];
pub const P_PEER_EDGE: u16 = 4446;
/// payload sizes relative to the sockets' receive window (= buffer) of SOCK_BUF = 64 octets
pub const WINDOW_SIZES: [usize; 5] = [1, SOCK_BUF / 2, SOCK_BUF, SOCK_BUF + 1, 2 * SOCK_BUF];
/// source ports around the LOWPAN_NHC UDP port-compression ranges (0xf0b0..=0xf0bf 4 bit,
/// 0xf000..=0xf0ff 8 bit) for datagrams to the echo sockets
pub const ECHO_SRC_PORTS: [u16; 6] = [0xf0b0, 0xf0bf, 0xf0c0, 0xf0ff, 0xf100, 0x1234];

/// Datagrams to the two echo servers (ports 0xf0bf, 0xf0ff) from every source port of
/// ECHO_SRC_PORTS; the application sends them back, so the interface has to EMIT datagrams
/// with these port pairs in the following poll.
fn udp_echo_seeds(v6: bool) -> Vec<IpSeed> {
    let (me, peer): (&[u8], &[u8]) = if v6 { (&IFACE6, &PEER6) } else { (&IFACE4, &PEER4) };
    let fam = if v6 { "v6" } else { "v4" };
    let mut v = vec![];
    for dport in P_ECHO {
        for sport in ECHO_SRC_PORTS {
            v.push(s(&format!("{}/udp-echo/{:04x}/from-{:04x}", fam, dport, sport), ip(peer, me, 17, &udp(peer, me, sport, dport, b"echo me")), true));
        }
    }
    v
}

/// SYN to the listening socket with the given initial sequence number (also used by the
/// harness to learn which ISS the stack answers with from the base state).
pub fn edge_listen_syn(me: &[u8], peer: &[u8], isn: u32) -> Vec<u8> {
    ip(peer, me, 6, &tcp(peer, me, P_PEER_EDGE, P_LISTEN, isn, 0, SYN, 2048, &[2, 4, 2, 0], &[]))
}

/// TCP sequence-space edge cases. Names: <fam>/tcp-b/<socket>/<isn>/<role>; role "open" is the
/// handshake segment that places RCV.NXT at isn+1 (SYN to the listener, SYN-ACK to the
/// connecting socket), the other roles are segments that only make sense after it.
fn tcp_edge_seeds(me: &[u8], peer: &[u8], l: &Learned, v6: bool) -> Vec<IpSeed> {
    let fam = if v6 { "v6" } else { "v4" };
    let mut v = vec![];
    for isn in EDGE_ISNS {
        for (sock, sport, dport, ack) in [
            ("listen", P_PEER_EDGE, P_LISTEN, l.listen_iss.wrapping_add(1)),
            ("synsent", P_PEER_SYNSENT, P_SYNSENT_LOCAL, l.synsent_iss.wrapping_add(1)),
        ] {
            let name = |role: &str| format!("{}/tcp-b/{}/{:08x}/{}", fam, sock, isn, role);
            let open = if sock == "listen" {
                edge_listen_syn(me, peer, isn)
            } else {
                ip(peer, me, 6, &tcp(peer, me, sport, dport, isn, ack, SYN | ACK, 2048, &[2, 4, 2, 0], &[]))
            };
            v.push(s(&name("open"), open, true));
            let nxt = isn.wrapping_add(1);
            let mut seg = |role: &str, seq: u32, flags: u8, data: &[u8]| {
                let t = tcp(peer, me, sport, dport, seq, ack, flags, 2048, &[], data);
                v.push(s(&name(role), ip(peer, me, 6, &t), false));
            };
            seg("ack", nxt, ACK, &[]);
            seg("data", nxt, ACK | PSH, &[0x64; 48]);
            seg("ooo", nxt.wrapping_add(40), ACK, &[0x6f; 8]);
            seg("overlap", nxt.wrapping_sub(16), ACK, &[0x72; 48]);
            seg("fin", nxt, ACK | FIN, &[]);
            seg("rst", nxt, RST, &[]);
            // data of 1 octet, half the receive window, the whole window, one more, twice the
            // window - at RCV.NXT ("w-d<n>") and half a window further on ("w-h<n>")
            for n in WINDOW_SIZES {
                seg(&format!("w-d{}", n), nxt, ACK | PSH, &vec![0x77; n]);
                seg(&format!("w-h{}", n), nxt.wrapping_add(SOCK_BUF as u32 / 2), ACK | PSH, &vec![0x68; n]);
            }
        }
    }
    // the ESTABLISHED socket (RCV.NXT far away from the edges): sequence / acknowledgment
    // numbers sitting on the edges
    let snd = PEER_ISN.wrapping_add(1);
    let rcv = l.est_iss.wrapping_add(1);
    // the same window-relative data segments for the connection that is already ESTABLISHED
    for n in WINDOW_SIZES {
        for (role, seq) in [(format!("w-d{}", n), snd), (format!("w-h{}", n), snd.wrapping_add(SOCK_BUF as u32 / 2))] {
            let t = tcp(peer, me, P_PEER_EST, P_EST, seq, rcv, ACK | PSH, 2048, &[], &vec![0x57; n]);
            v.push(s(&format!("{}/tcp-w/est/{}", fam, role), ip(peer, me, 6, &t), false));
        }
    }
    for e in EDGE_VALUES {
        for (role, seq, ack) in [("seq", e, rcv), ("ack", snd, e), ("both", e, e)] {
            let t = tcp(peer, me, P_PEER_EST, P_EST, seq, ack, ACK, 2048, &[], b"e");
            v.push(s(&format!("{}/tcp-b/est/{:08x}/{}", fam, e, role), ip(peer, me, 6, &t), false));
        }
    }
    v
}

/// ICMP error messages whose quotation of the offending packet is cut to EVERY length from 0
/// to the whole quoted packet, everything else consistent (outer length fields, checksums and,
/// through the caller, 6LoWPAN compression). Quoted: (i) a UDP datagram from our bound port,
/// (ii) a segment of our established TCP connection, (iii) an echo request with our ident.
/// Names: <fam>/icmp-cut/<type>.<code>/<quoted>/<len>.
fn icmp_cut_seeds(l: &Learned, v6: bool) -> Vec<IpSeed> {
    let mut v = vec![];
    let (me, peer): (&[u8], &[u8]) = if v6 { (&IFACE6, &PEER6) } else { (&IFACE4, &PEER4) };
    let fam = if v6 { "v6" } else { "v4" };
    let t = tcp(me, peer, P_EST, P_PEER_EST, l.est_iss.wrapping_add(1), PEER_ISN.wrapping_add(1), ACK, 128, &[], &[]);
    let quoted: [(&str, Vec<u8>); 3] = [
        ("udp", ip(me, peer, 17, &udp(me, peer, P_UDP, 9, b"xy"))),
        ("tcp", ip(me, peer, 6, &t)),
        (
            "echo",
            if v6 { ip(me, peer, 58, &icmp6(me, peer, 128, 0, &echo_body(ICMP_IDENT, 3, b"ping"))) } else { ip(me, peer, 1, &icmp4(8, 0, [0x12, 0x34, 0, 3], b"ping")) },
        ),
    ];
    let kinds: &[(u8, u8, u32)] = if v6 { &[(1, 4, 0), (1, 3, 0), (2, 0, 1280), (3, 0, 0), (4, 1, 40)] } else { &[(3, 3, 0), (3, 1, 0), (3, 4, 0x0240), (11, 0, 0), (12, 0, 0x1400_0000)] };
    for &(ty, code, word) in kinds {
        for (qn, q) in &quoted {
            for len in 0..=q.len() {
                let pkt = if v6 {
                    let mut b = word.to_be_bytes().to_vec();
                    b.extend_from_slice(&q[..len]);
                    ipv6(peer, me, 58, 64, &icmp6(peer, me, ty, code, &b))
                } else {
                    ip(peer, me, 1, &icmp4(ty, code, word.to_be_bytes(), &q[..len]))
                };
                v.push(s(&format!("{}/icmp-cut/{}.{}/{}/{}", fam, ty, code, qn, len), pkt, false));
            }
        }
    }
    v
}

fn v4_seeds(cfg: Cfg, l: &Learned) -> Vec<IpSeed> {
    let (me, peer) = (&IFACE4[..], &PEER4[..]);
    let bcast = [192, 168, 69, 255];
    let mut v = vec![];
    let echo = icmp4(8, 0, [0x43, 0x21, 0, 1], b"abcdefgh");
    v.push(s("v4/icmp/echo-request", ip(peer, me, 1, &echo), true));
    v.push(s("v4/icmp/echo-request-bcast", ip(peer, &bcast, 1, &echo), true));
    v.push(s("v4/icmp/echo-reply-to-socket", ip(peer, me, 1, &icmp4(0, 0, [0x12, 0x34, 0, 7], b"pong")), true));
    v.push(s("v4/icmp/echo-request-to-socket-ident", ip(peer, me, 1, &icmp4(8, 0, [0x12, 0x34, 0, 8], b"ping")), true));
    let emb_udp = ipv4(me, peer, 17, &udp(me, peer, P_UDP, 9, b"xy"), V4);
    let emb_tcp = ipv4(me, peer, 6, &tcp(me, peer, P_EST, P_PEER_EST, l.est_iss.wrapping_add(1), PEER_ISN.wrapping_add(1), ACK, 128, &[], &[]), V4);
    v.push(s("v4/icmp/unreach-port-embeds-udp", ip(peer, me, 1, &icmp4(3, 3, [0; 4], &emb_udp)), true));
    v.push(s("v4/icmp/unreach-host-embeds-tcp", ip(peer, me, 1, &icmp4(3, 1, [0; 4], &emb_tcp)), true));
    v.push(s("v4/icmp/time-exceeded-embeds-udp", ip(peer, me, 1, &icmp4(11, 0, [0; 4], &emb_udp)), true));
    v.push(s("v4/icmp/unreach-frag-needed-embeds-tcp", ip(peer, me, 1, &icmp4(3, 4, [0, 0, 2, 0x40], &emb_tcp)), true));
    v.push(s("v4/icmp/unreach-short-embed", ip(peer, me, 1, &icmp4(3, 3, [0; 4], &emb_udp[..24])), false));
    v.extend(icmp_cut_seeds(l, false));
    v.push(s("v4/icmp/redirect", ip(peer, me, 1, &icmp4(5, 1, GW4, &emb_udp)), false));
    v.push(s("v4/icmp/timestamp", ip(peer, me, 1, &icmp4(13, 0, [0, 1, 0, 1], &[0; 12])), false));
    let q = |dst: &[u8; 4], m: Vec<u8>| ipv4(&GW4, dst, 2, &m, V4Opt { ttl: 1, ..V4 });
    v.push(s("v4/igmp/general-query", q(&[224, 0, 0, 1], igmp(0x11, 100, &[0; 4])), true));
    v.push(s("v4/igmp/group-query", q(&GROUP4, igmp(0x11, 40, &GROUP4)), true));
    v.push(s("v4/igmp/v1-query", q(&[224, 0, 0, 1], igmp(0x11, 0, &[0; 4])), true));
    v.push(s("v4/igmp/report", q(&GROUP4, igmp(0x16, 0, &GROUP4)), false));
    v.push(s("v4/igmp/leave", q(&[224, 0, 0, 2], igmp(0x17, 0, &GROUP4)), false));
    v.push(s("v4/udp/open-port", ip(peer, me, 17, &udp(peer, me, 4000, P_UDP, b"hello udp")), true));
    v.extend(udp_echo_seeds(false));
    v.push(s("v4/udp/closed-port", ip(peer, me, 17, &udp(peer, me, 4000, 9, b"nobody home")), cfg.variant != 1));
    v.push(s("v4/udp/broadcast", ip(peer, &bcast, 17, &udp(peer, &bcast, 4000, P_UDP, b"to all")), true));
    v.push(s("v4/udp/limited-broadcast", ip(peer, &[255; 4], 17, &udp(peer, &[255; 4], 4000, P_UDP, b"to all")), true));
    v.push(s("v4/udp/multicast-group", ip(peer, &GROUP4, 17, &udp(peer, &GROUP4, 5353, P_UDP, b"mcast")), true));
    let mut z = udp(peer, me, 4000, P_UDP, b"no checksum");
    z[6] = 0;
    z[7] = 0;
    v.push(s("v4/udp/zero-checksum", ip(peer, me, 17, &z), true));
    v.push(s("v4/udp/mdns-port-source", ip(peer, me, 17, &udp(peer, me, 5353, l.dns_port, &dns_response(l.dns_txid, false, 0))), false));
    let syn = |dport: u16, opts: &[u8]| ip(peer, me, 6, &tcp(peer, me, 4444, dport, 0x3000_0000, 0, SYN, 8192, opts, &[]));
    v.push(s("v4/tcp/syn-listen-all-options", syn(P_LISTEN, &TCP_ALL_OPTS), true));
    v.push(s("v4/tcp/syn-closed-port", syn(9, &[2, 4, 5, 0xb4]), cfg.variant != 1));
    v.push(s("v4/tcp/ack-listen", ip(peer, me, 6, &tcp(peer, me, 4444, P_LISTEN, 1, 1, ACK, 100, &[], &[])), cfg.variant != 1));
    v.push(s("v4/tcp/syn-data-listen", ip(peer, me, 6, &tcp(peer, me, 4445, P_LISTEN, 5, 0, SYN, 100, &[2, 4, 0, 100], b"early")), true));
    if !cfg.v6_peers() {
        v.extend(conn_seeds(me, peer, l, false));
        v.extend(tcp_edge_seeds(me, peer, l, false));
    }
    // one ICMP echo request (32 byte ICMP message) in three fragments
    let big = icmp4(8, 0, [0x43, 0x21, 0, 2], b"0123456789abcdefghijklmn");
    let fr = |off8: u16, mf: bool, part: &[u8]| ipv4(peer, me, 1, part, V4Opt { id: 0x7777, flags_frag: off8 | if mf { 0x2000 } else { 0 }, ..V4 });
    v.push(s("v4/frag/first", fr(0, true, &big[..16]), true));
    v.push(s("v4/frag/middle", fr(2, true, &big[16..24]), true));
    v.push(s("v4/frag/last", fr(3, false, &big[24..]), true));
    let bigu = udp(peer, me, 4000, P_UDP, &[0x55; 40]);
    v.push(s("v4/frag/first-udp", ipv4(peer, me, 17, &bigu[..24], V4Opt { id: 0x7778, flags_frag: 0x2000, ..V4 }), true));
    v.push(s("v4/frag/last-udp", ipv4(peer, me, 17, &bigu[24..], V4Opt { id: 0x7778, flags_frag: 3, ..V4 }), true));
    v.push(s("v4/options/echo-request", ipv4(peer, me, 1, &echo, V4Opt { options: &[1, 1, 1, 0], ..V4 }), true));
    v.push(s("v4/options/record-route", ipv4(peer, me, 1, &echo, V4Opt { options: &[7, 7, 4, 0, 0, 0, 0, 0], ..V4 }), true));
    v.push(s("v4/unknown-proto", ip(peer, me, 253, b"experimental"), true));
    v.push(s("v4/not-for-us", ip(peer, &[192, 168, 69, 77], 1, &echo), false));
    v.push(s("v4/src-multicast", ip(&[224, 0, 0, 5], me, 1, &echo), false));
    v.push(s("v4/src-unspecified", ip(&[0; 4], me, 1, &echo), false));
    v
}

fn v6_seeds(cfg: Cfg, l: &Learned) -> Vec<IpSeed> {
    let (me, peer) = (&IFACE6, &PEER6);
    let on_link = cfg.medium != Medium::Ip;
    let joined = cfg.medium != Medium::Ieee802154 || cfg.join_154;
    let mut v = vec![];
    let echo_to = |src: &[u8; 16], dst: &[u8; 16]| icmp6(src, dst, 128, 0, &echo_body(0x4321, 1, b"abcdefgh"));
    v.push(s("v6/icmp/echo-request", ipv6(peer, me, 58, 64, &echo_to(peer, me)), true));
    v.push(s("v6/icmp/echo-request-all-nodes", ipv6(peer, &ALL_NODES6, 58, 64, &echo_to(peer, &ALL_NODES6)), true));
    v.push(s("v6/icmp/echo-request-group", ipv6(peer, &GROUP6, 58, 64, &echo_to(peer, &GROUP6)), joined));
    v.push(s("v6/icmp/echo-reply-to-socket", ipv6(peer, me, 58, 64, &icmp6(peer, me, 129, 0, &echo_body(ICMP_IDENT, 7, b"pong"))), true));
    v.push(s("v6/icmp/echo-request-to-socket-ident", ipv6(peer, me, 58, 64, &icmp6(peer, me, 128, 0, &echo_body(ICMP_IDENT, 8, b"ping"))), true));
    let with_hbh = |opts: &[u8], nh: u8, l4: &[u8]| {
        let mut p = ext_hdr(nh, opts);
        p.extend_from_slice(l4);
        ipv6(peer, me, 0, 64, &p)
    };
    v.push(s("v6/hbh/padn-echo", with_hbh(&[1, 4, 0, 0, 0, 0], 58, &echo_to(peer, me)), true));
    v.push(s("v6/hbh/router-alert-pad1-echo", with_hbh(&[5, 2, 0, 0, 0, 0], 58, &echo_to(peer, me)), true));
    v.push(s("v6/hbh/unknown-skip", with_hbh(&[0x1e, 4, 1, 2, 3, 4], 58, &echo_to(peer, me)), true));
    v.push(s("v6/hbh/unknown-discard", with_hbh(&[0x5e, 4, 1, 2, 3, 4], 58, &echo_to(peer, me)), false));
    v.push(s("v6/hbh/unknown-param-problem", with_hbh(&[0x9e, 4, 1, 2, 3, 4], 58, &echo_to(peer, me)), true));
    v.push(s("v6/hbh/unknown-param-problem-unicast", with_hbh(&[0xde, 4, 1, 2, 3, 4], 58, &echo_to(peer, me)), true));
    v.push(s("v6/hbh/udp", with_hbh(&[1, 4, 0, 0, 0, 0], 17, &udp(peer, me, 4000, P_UDP, b"via hbh")), true));
    v.push(s("v6/hbh/two-units", with_hbh(&[1, 12, 0, 0, 0, 0, 0, 0, 0, 0, 0, 0, 0, 0], 58, &echo_to(peer, me)), true));
    // neighbor discovery
    let sol = solicited(me);
    let ll_opt = |ty: u8| if cfg.medium == Medium::Ieee802154 { lladdr_opt(ty, &PEER_EXT) } else { lladdr_opt(ty, &PEER_MAC) };
    let mut ns = vec![0, 0, 0, 0];
    ns.extend_from_slice(me);
    let mut ns_ll = ns.clone();
    ns_ll.extend_from_slice(&ll_opt(1));
    v.push(s("v6/ndisc/ns-sllao", ipv6(peer, &sol, 58, 255, &icmp6(peer, &sol, 135, 0, &ns_ll)), on_link));
    v.push(s("v6/ndisc/ns-unicast-no-option", ipv6(peer, me, 58, 255, &icmp6(peer, me, 135, 0, &ns)), on_link));
    v.push(s("v6/ndisc/ns-hop-limit-64", ipv6(peer, &sol, 58, 64, &icmp6(peer, &sol, 135, 0, &ns_ll)), false));
    let third = a6(0xfe80, 3);
    let mut na = vec![0x60, 0, 0, 0];
    na.extend_from_slice(&third);
    let third_ll: Vec<u8> = if cfg.medium == Medium::Ieee802154 { lladdr_opt(2, &[2, 0, 0, 0, 0, 0, 0, 3]) } else { lladdr_opt(2, &[2, 0, 0, 0, 0, 3]) };
    na.extend_from_slice(&third_ll);
    v.push(s("v6/ndisc/na-override-tllao", ipv6(&third, me, 58, 255, &icmp6(&third, me, 136, 0, &na)), on_link));
    let mut ra = vec![64, 0, 0x07, 0x08, 0, 0, 0, 0, 0, 0, 0, 0];
    ra.extend_from_slice(&ll_opt(1));
    ra.extend_from_slice(&[5, 1, 0, 0, 0, 0, 0x05, 0xdc]);
    ra.extend_from_slice(&[3, 4, 64, 0xc0, 0, 1, 0x51, 0x80, 0, 0, 0x38, 0x40, 0, 0, 0, 0]);
    ra.extend_from_slice(&a6(0x2001, 0)[..2]);
    ra.extend_from_slice(&[0x0d, 0xb8, 0, 0, 0, 0, 0, 0, 0, 0, 0, 0, 0, 0, 0, 0][..14]);
    v.push(s("v6/ndisc/ra-prefix-mtu-sllao", ipv6(&GW6, &ALL_NODES6, 58, 255, &icmp6(&GW6, &ALL_NODES6, 134, 0, &ra)), cfg.variant == 1 && on_link));
    let mut ra0 = ra.clone();
    ra0[2] = 0;
    ra0[3] = 0;
    for b in &mut ra0[12 + ll_opt(1).len() + 8 + 4..][..8] {
        *b = 0;
    }
    v.push(s("v6/ndisc/ra-lifetime-zero", ipv6(&GW6, &ALL_NODES6, 58, 255, &icmp6(&GW6, &ALL_NODES6, 134, 0, &ra0)), false));
    let rs = {
        let mut b = vec![0, 0, 0, 0];
        b.extend_from_slice(&ll_opt(1));
        b
    };
    let all_routers = a6(0xff02, 2);
    v.push(s("v6/ndisc/rs", ipv6(peer, &all_routers, 58, 255, &icmp6(peer, &all_routers, 133, 0, &rs)), false));
    let mut redir = vec![0, 0, 0, 0];
    redir.extend_from_slice(&third);
    redir.extend_from_slice(&a6(0x2001, 9));
    redir.extend_from_slice(&third_ll);
    let inner = ipv6(me, &a6(0x2001, 9), 17, 64, &udp(me, &a6(0x2001, 9), P_UDP, 9, b"x"));
    let mut rh = vec![4, ((8 + inner.len() + 7) / 8) as u8, 0, 0, 0, 0, 0, 0];
    rh.extend_from_slice(&inner);
    while rh.len() % 8 != 0 {
        rh.push(0);
    }
    redir.extend_from_slice(&rh);
    v.push(s("v6/ndisc/redirect", ipv6(&GW6, me, 58, 255, &icmp6(&GW6, me, 137, 0, &redir)), false));
    // MLD
    let mldq = |group: &[u8; 16], dst: &[u8; 16], code: u16| {
        let mut b = code.to_be_bytes().to_vec();
        b.extend_from_slice(&[0, 0]);
        b.extend_from_slice(group);
        b.extend_from_slice(&[2, 125, 0, 0]);
        let mut p = ext_hdr(58, &[5, 2, 0, 0]);
        p.extend_from_slice(&icmp6(&GW6, dst, 130, 0, &b));
        ipv6(&GW6, dst, 0, 1, &p)
    };
    v.push(s("v6/mld/general-query", mldq(&[0; 16], &ALL_NODES6, 1000), true));
    v.push(s("v6/mld/general-query-zero-delay", mldq(&[0; 16], &ALL_NODES6, 0), joined));
    v.push(s("v6/mld/group-query", mldq(&GROUP6, &GROUP6, 500), joined));
    // routers do query solicited-node groups; every IPv6 node is a member of its own
    v.push(s("v6/mld/solicited-node-group-query", mldq(&sol, &sol, 0), true));
    let mut rep = vec![0, 0, 0, 1, 4, 0, 0, 0];
    rep.extend_from_slice(&GROUP6);
    let mldr = a6(0xff02, 0x16);
    let mut p = ext_hdr(58, &[5, 2, 0, 0]);
    p.extend_from_slice(&icmp6(peer, &mldr, 143, 0, &rep));
    v.push(s("v6/mld/report-v2", ipv6(peer, &mldr, 0, 1, &p), false));
    // errors embedding our own packets
    let emb_udp = ipv6(me, peer, 17, 64, &udp(me, peer, P_UDP, 9, b"xy"));
    let emb_tcp = ipv6(me, peer, 6, 64, &tcp(me, peer, P_EST, P_PEER_EST, l.est_iss.wrapping_add(1), PEER_ISN.wrapping_add(1), ACK, 128, &[], &[]));
    let err = |ty: u8, code: u8, word: u32, emb: &[u8]| {
        let mut b = word.to_be_bytes().to_vec();
        b.extend_from_slice(emb);
        ipv6(peer, me, 58, 64, &icmp6(peer, me, ty, code, &b))
    };
    v.push(s("v6/icmp/unreach-port-embeds-udp", err(1, 4, 0, &emb_udp), true));
    v.push(s("v6/icmp/unreach-addr-embeds-tcp", err(1, 3, 0, &emb_tcp), true));
    v.push(s("v6/icmp/too-big-embeds-tcp", err(2, 0, 1280, &emb_tcp), false));
    v.push(s("v6/icmp/time-exceeded-embeds-udp", err(3, 0, 0, &emb_udp), true));
    v.push(s("v6/icmp/param-problem-embeds-udp", err(4, 1, 40, &emb_udp), false));
    v.push(s("v6/icmp/unreach-short-embed", err(1, 4, 0, &emb_udp[..44]), false));
    v.extend(icmp_cut_seeds(l, true));
    // UDP / TCP
    v.push(s("v6/udp/open-port", ipv6(peer, me, 17, 64, &udp(peer, me, 4000, P_UDP, b"hello udp6")), true));
    v.extend(udp_echo_seeds(true));
    v.push(s("v6/udp/closed-port", ipv6(peer, me, 17, 64, &udp(peer, me, 4000, 9, b"nobody home")), cfg.variant != 1));
    v.push(s("v6/udp/nhc-port", ipv6(peer, me, 17, 64, &udp(peer, me, 0xf0b2, P_UDP_NHC, b"compressible")), true));
    v.push(s("v6/udp/all-nodes", ipv6(peer, &ALL_NODES6, 17, 64, &udp(peer, &ALL_NODES6, 4000, P_UDP, b"mcast6")), true));
    let syn = |dport: u16, opts: &[u8]| ipv6(peer, me, 6, 64, &tcp(peer, me, 4444, dport, 0x3000_0000, 0, SYN, 8192, opts, &[]));
    v.push(s("v6/tcp/syn-listen-all-options", syn(P_LISTEN, &TCP_ALL_OPTS), true));
    v.push(s("v6/tcp/syn-closed-port", syn(9, &[2, 4, 5, 0xa0]), cfg.variant != 1));
    if cfg.v6_peers() {
        v.extend(conn_seeds(me, peer, l, true));
        v.extend(tcp_edge_seeds(me, peer, l, true));
    }
    v.push(s("v6/unknown-next-header", ipv6(peer, me, 253, 64, b"experimental"), true));
    let mut fh = vec![58, 0, 0, 1, 0, 0, 0, 9];
    fh.extend_from_slice(&echo_to(peer, me));
    v.push(s("v6/fragment-header", ipv6(peer, me, 44, 64, &fh), true));
    let mut rt = ext_hdr(58, &[0, 0, 0, 0, 0, 0]);
    rt.extend_from_slice(&echo_to(peer, me));
    v.push(s("v6/routing-header", ipv6(peer, me, 43, 64, &rt), true));
    let mut dopt = ext_hdr(58, &[1, 4, 0, 0, 0, 0]);
    dopt.extend_from_slice(&echo_to(peer, me));
    v.push(s("v6/dest-opts-header", ipv6(peer, me, 60, 64, &dopt), true));
    v.push(s("v6/no-next-header", ipv6(peer, me, 59, 64, &[]), true));
    v.push(s("v6/not-for-us", ipv6(peer, &a6(0xfe80, 0x77), 58, 64, &echo_to(peer, &a6(0xfe80, 0x77))), false));
    v.push(s("v6/src-multicast", ipv6(&ALL_NODES6, me, 58, 64, &echo_to(&ALL_NODES6, me)), false));
    v
}

fn plain(name: &str, frame: Vec<u8>, effect: bool) -> Seed {
    Seed { name: name.to_string(), frame, l4: None, hot: None, expect_effect: effect, pin: 0, mutate: 2 }
}

fn ethernet_seeds(cfg: Cfg, l: &Learned) -> Vec<Seed> {
    let mut v = vec![];
    let third = [192, 168, 69, 3];
    let third_mac = [2, 0, 0, 0, 0, 3];
    v.push(plain("arp/request-for-us", eth(&[0xff; 6], &third_mac, 0x0806, &arp(1, &third_mac, &third, &[0; 6], &IFACE4)), true));
    v.push(plain("arp/reply-to-us", eth(&IFACE_MAC, &third_mac, 0x0806, &arp(2, &third_mac, &third, &IFACE_MAC, &IFACE4)), true));
    v.push(plain("arp/request-for-other", eth(&[0xff; 6], &PEER_MAC, 0x0806, &arp(1, &PEER_MAC, &PEER4, &[0; 6], &third)), false));
    v.push(plain("arp/gratuitous", eth(&[0xff; 6], &PEER_MAC, 0x0806, &arp(1, &PEER_MAC, &PEER4, &[0; 6], &PEER4)), false));
    v.push(plain("arp/request-peer-new-mac", eth(&[0xff; 6], &third_mac, 0x0806, &arp(1, &third_mac, &PEER4, &[0; 6], &IFACE4)), true));
    v.push(plain("arp/request-from-off-net", eth(&[0xff; 6], &third_mac, 0x0806, &arp(1, &third_mac, &[10, 0, 0, 1], &[0; 6], &IFACE4)), false));
    for sd in v4_seeds(cfg, l).into_iter().chain(v6_seeds(cfg, l)) {
        v.push(plain(&sd.name, World::wrap_ip(Medium::Ethernet, &PEER_MAC, PEER_EXT, &sd.pkt), sd.effect));
    }
    let echo = icmp4(8, 0, [0x43, 0x21, 0, 1], b"abcdefgh");
    v.push(plain("eth/unicast-to-other-mac", eth(&[2, 0, 0, 0, 0, 0x55], &PEER_MAC, 0x0800, &ip(&PEER4, &IFACE4, 1, &echo)), false));
    v.push(plain("eth/unknown-ethertype", eth(&IFACE_MAC, &PEER_MAC, 0x88cc, b"lldp-ish payload"), false));
    v.push(plain("eth/vlan-tagged", eth(&IFACE_MAC, &PEER_MAC, 0x8100, &[0, 5, 8, 0, 0x45, 0]), false));
    // DHCP: variant A is DISCOVERING (OFFER matters), variant B is REQUESTING (ACK / NAK matter)
    let hot = |f: &Vec<u8>| Some(DHCP_OPTS_OFF..f.len());
    let mut dh = |name: &str, f: Vec<u8>, effect: bool| {
        let h = hot(&f);
        v.push(Seed { name: name.to_string(), frame: f, l4: None, hot: h, expect_effect: effect, pin: 0, mutate: 2 });
    };
    let lease = [192, 168, 69, 50];
    dh("dhcp/offer", dhcp_frame(2, l.dhcp_xid, &lease, Default::default()), cfg.variant != 1);
    dh("dhcp/ack", dhcp_frame(5, l.dhcp_xid, &lease, Default::default()), cfg.variant == 1);
    dh("dhcp/ack-timers-short-lease", dhcp_frame(5, l.dhcp_xid, &lease, DhcpExtra { lease: Some(60), timers: true, ..Default::default() }), cfg.variant == 1);
    dh("dhcp/ack-other-subnet-no-router", dhcp_frame(5, l.dhcp_xid, &[10, 1, 2, 3], DhcpExtra { mask: Some([255, 0, 0, 0]), router: None, ..Default::default() }), cfg.variant == 1);
    dh("dhcp/ack-no-lease-time", dhcp_frame(5, l.dhcp_xid, &lease, DhcpExtra { lease: None, ..Default::default() }), cfg.variant == 1);
    dh("dhcp/nak", dhcp_frame(6, l.dhcp_xid, &[0; 4], DhcpExtra { lease: None, mask: None, router: None, dns: false, timers: false }), cfg.variant == 1);
    dh("dhcp/ack-wrong-xid", dhcp_frame(5, l.dhcp_xid ^ 0x0101_0101, &lease, Default::default()), false);
    v
}

fn ip_medium_seeds(cfg: Cfg, l: &Learned) -> Vec<Seed> {
    v4_seeds(cfg, l).into_iter().chain(v6_seeds(cfg, l)).map(|sd| plain(&sd.name, sd.pkt, sd.effect)).collect()
}

/// Compress an IPv6 packet into a 6LoWPAN frame.
#[derive(Clone, Copy)]
enum Comp {
    /// next header carried inline, payload uncompressed
    Inline,
    /// LOWPAN_NHC UDP (port form, checksum inline?)
    Udp(u8, bool),
    /// hop-by-hop header as LOWPAN_NHC extension header, then next header inline
    ExtInline,
    /// hop-by-hop header as NHC extension header, then NHC UDP
    ExtUdp,
}

fn lowpan(mac: &Mac, st: &Iphc, p: &[u8], comp: Comp) -> (Vec<u8>, Option<L4Info>) {
    let src: [u8; 16] = p[8..24].try_into().unwrap();
    let dst: [u8; 16] = p[24..40].try_into().unwrap();
    let hop = p[7];
    let nhc_udp_of = |u: &[u8], form: u8, inline: bool| {
        let mut h = nhc_udp(form, be16(u), be16(&u[2..]), if inline { Some(be16(&u[6..])) } else { None });
        h.extend_from_slice(&u[8..]);
        h
    };
    let mut body;
    let mut l4rel = None;
    match comp {
        Comp::Inline => {
            body = iphc(st, &src, &dst, Some(p[6]), hop);
            l4rel = Some((body.len(), p[6]));
            body.extend_from_slice(&p[40..]);
        }
        Comp::Udp(form, inline) => {
            body = iphc(st, &src, &dst, None, hop);
            body.extend_from_slice(&nhc_udp_of(&p[40..], form, inline));
        }
        Comp::ExtInline | Comp::ExtUdp => {
            let el = (p[41] as usize + 1) * 8;
            let ext = &p[40..40 + el];
            body = iphc(st, &src, &dst, None, hop);
            match comp {
                Comp::ExtInline => {
                    body.extend_from_slice(&nhc_ext(0, Some(ext[0]), &ext[2..]));
                    l4rel = Some((body.len(), ext[0]));
                    body.extend_from_slice(&p[40 + el..]);
                }
                _ => {
                    body.extend_from_slice(&nhc_ext(0, None, &ext[2..]));
                    body.extend_from_slice(&nhc_udp_of(&p[40 + el..], 0, true));
                }
            }
        }
    }
    let f = mac154(mac, &body);
    let hdr = f.len() - body.len();
    let l4 = l4rel.and_then(|(off, proto)| if matches!(proto, 6 | 17 | 58) { Some(L4Info { off: hdr + off, proto, src, dst }) } else { None });
    (f, l4)
}

fn ieee802154_seeds(cfg: Cfg, l: &Learned) -> Vec<Seed> {
    let mut v: Vec<Seed> = vec![];
    let mac = World::mac_std(PEER_EXT, 0x21);
    let inline64 = Iphc { tf: 3, hlim: 2, sam: Am::Iid64, dam: Am::Iid64 };
    let full = Iphc { tf: 3, hlim: 0, sam: Am::Full, dam: Am::Full };
    let add = |v: &mut Vec<Seed>, name: String, (frame, l4): (Vec<u8>, Option<L4Info>), effect: bool| {
        // smoltcp refuses 802.15.4 frames longer than 127 octets
        let effect = effect && frame.len() <= 127;
        v.push(Seed { name, frame, l4, hot: None, expect_effect: effect, pin: 0, mutate: 2 });
    };
    let compact = |p: &[u8]| {
        let ll = |a: &[u8]| a[0] == 0xfe && a[1] == 0x80 && a[2..8] == [0; 6];
        let d = &p[24..40];
        let dam = if ll(d) {
            Am::Iid64
        } else if d[0] == 0xff && d[1] == 2 && d[2..15] == [0; 13] {
            Am::M8
        } else if d[0] == 0xff && d[2..11] == [0; 9] {
            Am::M48
        } else {
            Am::Full
        };
        Iphc { tf: 3, hlim: 2, sam: if ll(&p[8..24]) { Am::Iid64 } else { Am::Full }, dam }
    };
    let auto = |p: &[u8]| {
        let ll = |a: &[u8]| a[0] == 0xfe && a[1] == 0x80 && a[2..8] == [0; 6];
        Iphc { tf: 3, hlim: 2, sam: if ll(&p[8..24]) { Am::Iid64 } else { Am::Full }, dam: if ll(&p[24..40]) { Am::Iid64 } else { Am::Full } }
    };
    // every IPv6-level seed in the robust default style (addresses inline in full, or 64-bit
    // IIDs for link-local unicast pairs), hop-by-hop packets additionally through NHC
    for sd in v6_seeds(cfg, l) {
        let p = &sd.pkt;
        // alternate between "everything inline" and the most compact stateless form; frames
        // that would not fit 127 octets inline get the compact form
        let mut st = if sd.name.len() % 2 == 0 { compact(p) } else { full };
        if lowpan(&mac, &st, p, Comp::Inline).0.len() > 127 {
            st = compact(p);
        }
        // smoltcp decompresses only TCP / UDP / ICMPv6 as *uncompressed* next headers; extension
        // headers must come as LOWPAN_NHC
        add(&mut v, format!("6lo/{}", sd.name), lowpan(&mac, &st, p, Comp::Inline), sd.effect && matches!(p[6], 6 | 17 | 58));
        if p[6] == 0 && p[40] == 58 {
            add(&mut v, format!("6lo-nhc-ext/{}", sd.name), lowpan(&mac, &auto(p), p, Comp::ExtInline), sd.effect);
        }
        if p[6] == 0 && p[40] == 17 {
            add(&mut v, format!("6lo-nhc-ext-udp/{}", sd.name), lowpan(&mac, &auto(p), p, Comp::ExtUdp), sd.effect);
        }
    }
    // the echo request in every IPHC addressing / TF / hop-limit form smoltcp parses
    let echo = |src: &[u8; 16], dst: &[u8; 16], hop: u8| ipv6(src, dst, 58, hop, &icmp6(src, dst, 128, 0, &echo_body(0x4321, 1, b"abcdefgh")));
    let (p6, i6, pu, iu) = (&PEER6, &IFACE6, &PEER6_ULA, &IFACE6_ULA);
    let st = |tf: u8, hlim: u8, sam: Am, dam: Am| Iphc { tf, hlim, sam, dam };
    add(&mut v, "iphc/elided-elided".into(), lowpan(&mac, &st(3, 2, Am::Elided, Am::Elided), &echo(p6, i6, 64), Comp::Inline), true);
    add(&mut v, "iphc/iid64-iid64-tf1-hl255".into(), lowpan(&mac, &st(1, 3, Am::Iid64, Am::Iid64), &echo(p6, i6, 255), Comp::Inline), true);
    add(&mut v, "iphc/iid64-iid64-tf2-hl1".into(), lowpan(&mac, &st(2, 1, Am::Iid64, Am::Iid64), &echo(p6, i6, 1), Comp::Inline), true);
    add(&mut v, "iphc/full-full-tf0-hlinline-ula".into(), lowpan(&mac, &st(0, 0, Am::Full, Am::Full), &echo(pu, iu, 77), Comp::Inline), true);
    add(&mut v, "iphc/ctx64-ctx64".into(), lowpan(&mac, &st(3, 2, Am::Ctx64(0), Am::Ctx64(0)), &echo(pu, iu, 64), Comp::Inline), true);
    add(&mut v, "iphc/ctx16-ctx16".into(), lowpan(&mac, &st(3, 2, Am::Ctx16(0), Am::Ctx16(0)), &echo(pu, iu, 64), Comp::Inline), true);
    add(&mut v, "iphc/ctxelided-ctxelided".into(), lowpan(&mac, &st(3, 2, Am::CtxElided(0), Am::CtxElided(0)), &echo(pu, iu, 64), Comp::Inline), true);
    add(&mut v, "iphc/ctx-id-out-of-table".into(), lowpan(&mac, &st(3, 2, Am::Ctx64(3), Am::Ctx64(0)), &echo(pu, iu, 64), Comp::Inline), false);
    let src16 = {
        let mut a = a6(0xfe80, 2);
        a[11] = 0xff;
        a[12] = 0xfe;
        a
    };
    add(&mut v, "iphc/iid16-src".into(), lowpan(&mac, &st(3, 2, Am::Iid16, Am::Iid64), &echo(&src16, i6, 64), Comp::Inline), true);
    let mac_short = Mac { dst: Ll::Short([0, 1]), src: Ll::Short([0, 2]), ..mac };
    let dst16 = {
        let mut a = a6(0xfe80, 1);
        a[11] = 0xff;
        a[12] = 0xfe;
        a
    };
    add(&mut v, "iphc/short-ll-elided".into(), lowpan(&mac_short, &st(3, 2, Am::Elided, Am::Elided), &echo(&src16, &dst16, 64), Comp::Inline), false);
    add(&mut v, "iphc/short-ll-src-elided-dst-inline".into(), lowpan(&mac_short, &st(3, 2, Am::Elided, Am::Iid64), &echo(&src16, i6, 64), Comp::Inline), true);
    add(&mut v, "iphc/mcast8-all-nodes".into(), lowpan(&mac, &st(3, 2, Am::Iid64, Am::M8), &echo(p6, &ALL_NODES6, 64), Comp::Inline), true);
    add(&mut v, "iphc/mcast32-group".into(), lowpan(&mac, &st(3, 2, Am::Iid64, Am::M32), &echo(p6, &GROUP6, 64), Comp::Inline), cfg.join_154);
    let sol = solicited(i6);
    let mut nsb = vec![0, 0, 0, 0];
    nsb.extend_from_slice(i6);
    let dad = ipv6(&[0; 16], &sol, 58, 255, &icmp6(&[0; 16], &sol, 135, 0, &nsb));
    add(&mut v, "iphc/unspec-src-mcast48-dad-ns".into(), lowpan(&mac, &st(3, 3, Am::Unspec, Am::M48), &dad, Comp::Inline), false);
    add(&mut v, "iphc/full-mcast-inline".into(), lowpan(&mac, &st(3, 2, Am::Iid64, Am::Full), &echo(p6, &ALL_NODES6, 64), Comp::Inline), true);
    // single frames whose REPLY exceeds one 802.15.4 frame and leaves in exactly two fragments
    // (FRAG1 during ingress, FRAGN in the egress phase of the same poll): an echo request that
    // fills the frame (smoltcp fragments above 125 octets), and a UDP datagram to a closed
    // port (the port-unreachable error quotes it uncompressed)
    let echo_n = |n: usize| ipv6(p6, i6, 58, 64, &icmp6(p6, i6, 128, 0, &echo_body(0x4321, 9, &vec![0x45; n])));
    add(&mut v, "big-reply/echo-frame-127".into(), lowpan(&mac, &st(3, 2, Am::Elided, Am::Elided), &echo_n(95), Comp::Inline), true);
    add(&mut v, "big-reply/echo-frame-126".into(), lowpan(&mac, &st(3, 2, Am::Elided, Am::Elided), &echo_n(94), Comp::Inline), true);
    let big_udp = ipv6(p6, i6, 17, 64, &udp(p6, i6, 4000, 9, &[0x37; 70]));
    add(&mut v, "big-reply/nhc-udp-closed-port-70".into(), lowpan(&mac, &inline64, &big_udp, Comp::Udp(0, true)), cfg.variant != 1);
    // MAC header variants around the plain echo request
    let e = echo(p6, i6, 64);
    let m = |f: &dyn Fn(&mut Mac)| {
        let mut x = mac;
        f(&mut x);
        x
    };
    add(&mut v, "mac/no-pan-compression".into(), lowpan(&m(&|x| { x.pan_compress = false; x.src_pan = Some(PAN); }), &inline64, &e, Comp::Inline), true);
    add(&mut v, "mac/broadcast-dst-broadcast-pan".into(), lowpan(&m(&|x| { x.dst = Ll::Short([0xff, 0xff]); x.dst_pan = Some(0xffff); }), &inline64, &e, Comp::Inline), true);
    add(&mut v, "mac/ack-request-frame-pending".into(), lowpan(&m(&|x| { x.ack_req = true; x.pending = true; }), &inline64, &e, Comp::Inline), true);
    add(&mut v, "mac/version-2006".into(), lowpan(&m(&|x| x.version = 1), &inline64, &e, Comp::Inline), true);
    add(&mut v, "mac/version-2015-no-pan".into(), lowpan(&m(&|x| { x.version = 2; x.dst_pan = None; }), &inline64, &e, Comp::Inline), false);
    add(&mut v, "mac/wrong-pan".into(), lowpan(&m(&|x| x.dst_pan = Some(0x1234)), &inline64, &e, Comp::Inline), false);
    add(&mut v, "mac/dst-absent-src-pan".into(), lowpan(&m(&|x| { x.dst = Ll::None; x.dst_pan = None; x.src_pan = Some(PAN); x.pan_compress = false; }), &inline64, &e, Comp::Inline), false);
    add(&mut v, "mac/src-absent".into(), lowpan(&m(&|x| x.src = Ll::None), &st(3, 2, Am::Iid64, Am::Iid64), &e, Comp::Inline), true);
    {
        // secured data frame: auxiliary security header (level 5, key id mode 1) + opaque bytes
        let mut sec = vec![0x0d, 0, 0, 0, 1, 7];
        sec.extend_from_slice(&[0x7a; 24]);
        let f = mac154(&m(&|x| x.security = true), &sec);
        v.push(plain("mac/security-enabled", f, false));
    }
    v.push(plain("mac/beacon", mac154(&m(&|x| { x.frame_type = 0; x.dst = Ll::None; x.dst_pan = None; x.src_pan = Some(PAN); x.pan_compress = false; }), &[0xff, 0xcf, 0, 0]), false));
    v.push(plain("mac/ack", vec![0x02, 0x00, 0x21], false));
    v.push(plain("mac/command", mac154(&m(&|x| x.frame_type = 3), &[0x04]), false));
    v.push(plain("mac/data-empty-payload", mac154(&mac, &[]), false));
    v.push(plain("6lo/dispatch-ipv6-uncompressed", mac154(&mac, &{ let mut b = vec![0x41]; b.extend_from_slice(&e); b }), false));
    v.push(plain("6lo/dispatch-mesh", mac154(&mac, &[0xb1, 0, 1, 0, 2, 0x7a, 0x33, 0x3a]), false));
    // LOWPAN_NHC UDP in the four port forms, checksum inline / elided, and uncompressed UDP
    let udp_p = |sport: u16, dport: u16, data: &[u8]| ipv6(p6, i6, 17, 64, &udp(p6, i6, sport, dport, data));
    add(&mut v, "nhc-udp/ports-inline".into(), lowpan(&mac, &inline64, &udp_p(4000, P_UDP, b"nhc form 0"), Comp::Udp(0, true)), true);
    add(&mut v, "nhc-udp/dst-8bit".into(), lowpan(&mac, &inline64, &udp_p(4000, P_UDP_NHC, b"nhc form 1"), Comp::Udp(1, true)), true);
    add(&mut v, "nhc-udp/src-8bit".into(), lowpan(&mac, &inline64, &udp_p(0xf0b2, P_UDP, b"nhc form 2"), Comp::Udp(2, true)), true);
    add(&mut v, "nhc-udp/4bit-4bit".into(), lowpan(&mac, &inline64, &udp_p(0xf0b2, P_UDP_NHC, b"nhc form 3"), Comp::Udp(3, true)), true);
    add(&mut v, "nhc-udp/ports-inline-checksum-elided".into(), lowpan(&mac, &inline64, &udp_p(4000, P_UDP, b"no csum"), Comp::Udp(0, false)), false); // elided checksum: dropped since the UDP/IPv6 zero-checksum fix
    add(&mut v, "nhc-udp/4bit-checksum-elided".into(), lowpan(&mac, &inline64, &udp_p(0xf0b2, P_UDP_NHC, b""), Comp::Udp(3, false)), false); // elided checksum: dropped
    add(&mut v, "nhc-udp/closed-port".into(), lowpan(&mac, &inline64, &udp_p(4000, 9, b"closed"), Comp::Udp(0, true)), cfg.variant != 1);
    // the echo datagrams in every LOWPAN_NHC port form their port pair admits
    for dport in P_ECHO {
        for sport in ECHO_SRC_PORTS {
            let p = udp_p(sport, dport, b"echo me");
            let b4 = |x: u16| (0xf0b0..=0xf0bf).contains(&x);
            let b8 = |x: u16| (0xf000..=0xf0ff).contains(&x);
            let mut forms = vec![0u8, 1];
            if b8(sport) {
                forms.push(2);
            }
            if b4(sport) && b4(dport) {
                forms.push(3);
            }
            for form in forms {
                add(&mut v, format!("nhc-udp-echo/{:04x}/from-{:04x}/form{}", dport, sport, form), lowpan(&mac, &inline64, &p, Comp::Udp(form, true)), true);
            }
        }
    }
    if cfg.v6_peers() {
        let d = udp(p6, i6, 53, l.dns_port, &dns_response(l.dns_txid, true, 0));
        add(&mut v, "nhc-udp/dns-answer".into(), lowpan(&mac, &inline64, &ipv6(p6, i6, 17, 64, &d), Comp::Udp(0, true)), true);
    }
    // LOWPAN_NHC extension headers of every id smoltcp knows
    let ic = icmp6(p6, i6, 128, 0, &echo_body(0x4321, 1, b"abcdefgh"));
    let with_ext = |eid: u8, data: &[u8]| {
        let mut b = iphc(&inline64, p6, i6, None, 64);
        b.extend_from_slice(&nhc_ext(eid, Some(58), data));
        let off = b.len();
        b.extend_from_slice(&ic);
        let f = mac154(&mac, &b);
        let hdr = f.len() - b.len();
        (f, Some(L4Info { off: hdr + off, proto: 58, src: *p6, dst: *i6 }))
    };
    add(&mut v, "nhc-ext/hbh-padn".into(), with_ext(0, &[1, 4, 0, 0, 0, 0]), true);
    add(&mut v, "nhc-ext/hbh-14-bytes".into(), with_ext(0, &[1, 12, 0, 0, 0, 0, 0, 0, 0, 0, 0, 0, 0, 0]), true);
    add(&mut v, "nhc-ext/routing".into(), with_ext(1, &[0, 0, 0, 0, 0, 0]), true);
    add(&mut v, "nhc-ext/fragment".into(), with_ext(2, &[0, 0, 0, 0, 0, 9]), true);
    add(&mut v, "nhc-ext/dest-opts".into(), with_ext(3, &[1, 4, 0, 0, 0, 0]), true);
    add(&mut v, "nhc-ext/mobility".into(), with_ext(4, &[1, 0, 0, 0, 0, 0]), true);
    add(&mut v, "nhc-ext/ipv6-in-ipv6".into(), with_ext(7, &[0x7a, 0x33]), false);
    add(&mut v, "nhc-ext/empty".into(), with_ext(0, &[]), false);
    {
        // two chained compressed extension headers, then NHC UDP
        let mut b = iphc(&inline64, p6, i6, None, 64);
        b.extend_from_slice(&nhc_ext(0, None, &[1, 4, 0, 0, 0, 0]));
        b.extend_from_slice(&nhc_ext(3, None, &[1, 4, 0, 0, 0, 0]));
        let u = udp(p6, i6, 4000, P_UDP, b"deep");
        b.extend_from_slice(&nhc_udp(0, 4000, P_UDP, Some(be16(&u[6..]))));
        b.extend_from_slice(b"deep");
        v.push(plain("nhc-ext/hbh+dest-opts+nhc-udp", mac154(&mac, &b), true));
    }
    // fragmentation: an echo request (96 byte datagram) in FRAG1 + FRAGN, and an NHC-UDP
    // datagram (40 + 8 + 72) in FRAG1 + 2 x FRAGN
    let big = ipv6(p6, i6, 58, 64, &icmp6(p6, i6, 128, 0, &echo_body(0x4321, 2, &[0x42; 48])));
    let size = big.len() as u16;
    {
        let h = iphc(&inline64, p6, i6, Some(58), 64);
        let mut a = frag1(size, 0x0101);
        a.extend_from_slice(&h);
        a.extend_from_slice(&big[40..40 + 24]);
        v.push(plain("frag/echo-frag1", mac154(&mac, &a), true));
        let mut b = fragn(size, 0x0101, 8);
        b.extend_from_slice(&big[64..]);
        v.push(plain("frag/echo-fragn-last", mac154(&mac, &b), true));
    }
    let bigu = ipv6(p6, i6, 17, 64, &udp(p6, i6, 4000, P_UDP, &[0x55; 72]));
    let usize_ = bigu.len() as u16;
    {
        let mut a = frag1(usize_, 0x0202);
        a.extend_from_slice(&iphc(&inline64, p6, i6, None, 64));
        a.extend_from_slice(&nhc_udp(0, 4000, P_UDP, Some(be16(&bigu[46..]))));
        a.extend_from_slice(&bigu[48..48 + 24]);
        v.push(plain("frag/udp-frag1-nhc", mac154(&mac, &a), true));
        let mut b = fragn(usize_, 0x0202, 9);
        b.extend_from_slice(&bigu[72..72 + 24]);
        v.push(plain("frag/udp-fragn-middle", mac154(&mac, &b), true));
        let mut c = fragn(usize_, 0x0202, 12);
        c.extend_from_slice(&bigu[96..]);
        v.push(plain("frag/udp-fragn-last", mac154(&mac, &c), true));
    }
    {
        // a complete small datagram inside a single FRAG1 (degenerate but well-formed)
        let small = ipv6(p6, i6, 17, 64, &udp(p6, i6, 4000, P_UDP, b"tiny"));
        let mut a = frag1(small.len() as u16, 0x0303);
        a.extend_from_slice(&iphc(&inline64, p6, i6, None, 64));
        a.extend_from_slice(&nhc_udp(0, 4000, P_UDP, Some(be16(&small[46..]))));
        a.extend_from_slice(b"tiny");
        v.push(plain("frag/udp-whole-in-frag1", mac154(&mac, &a), true));
        // the most compressed UDP form (4-bit ports, checksum elided) as a whole datagram in FRAG1
        // (source port 0xf0b0: smoltcp's 4-bit destination port accessor only yields 0xf0bX when
        // the source nibble is 0 - the port-nibble defect belongs to C06/C20)
        let tiny = ipv6(p6, i6, 17, 64, &udp(p6, i6, 0xf0b0, P_UDP_NHC, b"hi"));
        let mut a = frag1(tiny.len() as u16, 0x0505);
        a.extend_from_slice(&iphc(&inline64, p6, i6, None, 64));
        a.extend_from_slice(&nhc_udp(3, 0xf0b0, P_UDP_NHC, None));
        a.extend_from_slice(b"hi");
        v.push(plain("frag/udp-4bit-elided-whole-in-frag1", mac154(&mac, &a), true));
        let mut b = frag1(big.len() as u16, 0x0404);
        b.extend_from_slice(&iphc(&full, p6, i6, Some(6), 64));
        v.push(plain("frag/frag1-header-only", mac154(&mac, &b), true));
    }
    v
}

pub fn catalogue(cfg: Cfg, l: &Learned) -> Vec<Seed> {
    let mut v = match cfg.medium {
        Medium::Ethernet => ethernet_seeds(cfg, l),
        Medium::Ip => ip_medium_seeds(cfg, l),
        Medium::Ieee802154 => ieee802154_seeds(cfg, l),
    };
    if cfg.medium == Medium::Ieee802154 {
        // the device MTU is 127 octets: longer frames are outside the quantified domain
        v.retain(|sd| sd.frame.len() <= 127);
    }
    for sd in v.iter_mut() {
        if sd.name.contains("/icmp-cut/") || sd.name.contains("/tcp-w/") {
            sd.mutate = 0;
        }
        if sd.name.contains("udp-echo/") {
            // one datagram per echo socket gets the full mutation treatment
            sd.mutate = if sd.name.ends_with("from-1234") || sd.name.ends_with("from-f0b0/form0") { 2 } else { 0 };
        }
        if cfg.variant == 2 {
            // variant C is about sequences; only segments for the closing connection get the
            // mutation treatment there
            sd.mutate = if sd.name.contains("/tcp-est/") { 2 } else { 0 };
            if sd.name.contains("/tcp-est/") {
                sd.pin = 2;
            }
            if sd.name.ends_with("/tcp-est/ack-of-fin") || sd.name.ends_with("/tcp-est/fin-ack-of-fin") {
                sd.pin = 1;
            }
        }
        if sd.name.contains("/tcp-b/") {
            let open = sd.name.ends_with("/open");
            let est = sd.name.contains("/tcp-b/est/");
            // (the window-size follow-ups are used by the scripted sequences only)
            sd.pin = if open { 1 } else if est || sd.name.contains("/w-") { 0 } else { 2 };
            // one handshake segment per socket gets the full mutation treatment, the others
            // differ from it in the sequence number only
            sd.mutate = if sd.name.ends_with("7fffffe0/open") { 2 } else { 0 };
        } else if sd.name.contains("big-reply/") {
            sd.pin = 1;
        } else if sd.name.contains("frag/") {
            // lone first / middle / last fragments are always available to the sequence search
            sd.pin = 1;
        }
    }
    if cfg.addrs != 0 {
        // the expectations describe the fully addressed worlds; in the IPv4-only / IPv6-only /
        // unaddressed worlds most seeds are (rightly) ignored
        for sd in v.iter_mut() {
            sd.expect_effect = false;
        }
    }
    // option / record areas that lie beyond the first 96 bytes are mutated as well: all of an
    // 802.15.4 frame (<= 127 octets), and the tails of NDISC and DNS messages
    for sd in v.iter_mut() {
        let tail = cfg.medium == Medium::Ieee802154 || sd.name.contains("ndisc/") || sd.name.contains("dns/");
        if sd.hot.is_none() && tail && sd.frame.len() > 96 {
            sd.hot = Some(96..sd.frame.len().min(160));
        }
    }
    v
}
