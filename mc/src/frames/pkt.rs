//! Byte-level frame builders, checksum fix-up and an independent (no `smoltcp::wire`) reply
//! classifier for the three media. Offsets are taken from the RFCs (826, 791, 792, 768, 793,
//! 8200, 4443, 4861, 3810, 2236, IEEE 802.15.4-2003/2006, RFC 4944, RFC 6282).

use smoltcp::phy::Medium;

pub fn be16(b: &[u8]) -> u16 {
    ((b[0] as u16) << 8) | b[1] as u16
}
pub fn put16(b: &mut [u8], v: u16) {
    b[0] = (v >> 8) as u8;
    b[1] = v as u8;
}
pub fn put32(b: &mut [u8], v: u32) {
    b[0] = (v >> 24) as u8;
    b[1] = (v >> 16) as u8;
    b[2] = (v >> 8) as u8;
    b[3] = v as u8;
}

/// RFC 1071 one's complement sum over the concatenation of `parts` (every part except the last
/// must have even length, which holds for pseudo headers).
pub fn csum(parts: &[&[u8]]) -> u16 {
    let mut acc: u32 = 0;
    for p in parts {
        let mut i = 0;
        while i + 1 < p.len() {
            acc += be16(&p[i..]) as u32;
            i += 2;
        }
        if i < p.len() {
            acc += (p[i] as u32) << 8;
        }
    }
    while acc >> 16 != 0 {
        acc = (acc & 0xffff) + (acc >> 16);
    }
    !(acc as u16)
}

pub fn pseudo(src: &[u8], dst: &[u8], proto: u8, len: usize) -> Vec<u8> {
    let mut p = Vec::with_capacity(40);
    p.extend_from_slice(src);
    p.extend_from_slice(dst);
    if src.len() == 4 {
        p.push(0);
        p.push(proto);
        p.extend_from_slice(&(len as u16).to_be_bytes());
    } else {
        p.extend_from_slice(&(len as u32).to_be_bytes());
        p.extend_from_slice(&[0, 0, 0, proto]);
    }
    p
}

// ------------------------------------------------------------------------------- builders

pub fn eth(dst: &[u8; 6], src: &[u8; 6], ethertype: u16, payload: &[u8]) -> Vec<u8> {
    let mut f = Vec::with_capacity(14 + payload.len());
    f.extend_from_slice(dst);
    f.extend_from_slice(src);
    f.extend_from_slice(&ethertype.to_be_bytes());
    f.extend_from_slice(payload);
    f
}

pub fn arp(op: u16, sha: &[u8; 6], spa: &[u8; 4], tha: &[u8; 6], tpa: &[u8; 4]) -> Vec<u8> {
    let mut p = vec![0, 1, 8, 0, 6, 4];
    p.extend_from_slice(&op.to_be_bytes());
    p.extend_from_slice(sha);
    p.extend_from_slice(spa);
    p.extend_from_slice(tha);
    p.extend_from_slice(tpa);
    p
}

#[derive(Clone, Copy)]
pub struct V4Opt<'a> {
    pub ttl: u8,
    pub id: u16,
    /// flags (3 bits) + fragment offset (13 bits, units of 8 octets)
    pub flags_frag: u16,
    pub options: &'a [u8],
}
pub const V4: V4Opt<'static> = V4Opt { ttl: 64, id: 0x4242, flags_frag: 0x4000, options: &[] };

pub fn ipv4(src: &[u8], dst: &[u8], proto: u8, payload: &[u8], o: V4Opt) -> Vec<u8> {
    let ihl = 20 + o.options.len();
    let mut p = vec![0u8; ihl];
    p[0] = 0x40 | (ihl / 4) as u8;
    put16(&mut p[2..], (ihl + payload.len()) as u16);
    put16(&mut p[4..], o.id);
    put16(&mut p[6..], o.flags_frag);
    p[8] = o.ttl;
    p[9] = proto;
    p[12..16].copy_from_slice(src);
    p[16..20].copy_from_slice(dst);
    p[20..ihl].copy_from_slice(o.options);
    let c = csum(&[&p]);
    put16(&mut p[10..], c);
    p.extend_from_slice(payload);
    p
}

pub fn ipv6(src: &[u8], dst: &[u8], nh: u8, hop: u8, payload: &[u8]) -> Vec<u8> {
    let mut p = vec![0u8; 40];
    p[0] = 0x60;
    put16(&mut p[4..], payload.len() as u16);
    p[6] = nh;
    p[7] = hop;
    p[8..24].copy_from_slice(src);
    p[24..40].copy_from_slice(dst);
    p.extend_from_slice(payload);
    p
}

/// IPv6 hop-by-hop (or any TLV) extension header: next header, options; padded to 8n with PadN.
pub fn ext_hdr(next: u8, opts: &[u8]) -> Vec<u8> {
    let mut h = vec![next, 0];
    h.extend_from_slice(opts);
    let pad = (8 - h.len() % 8) % 8;
    match pad {
        0 => {}
        1 => h.push(0),
        n => {
            h.push(1);
            h.push((n - 2) as u8);
            h.resize(h.len() + n - 2, 0);
        }
    }
    h[1] = (h.len() / 8 - 1) as u8;
    h
}

pub fn ip(src: &[u8], dst: &[u8], proto: u8, payload: &[u8]) -> Vec<u8> {
    if src.len() == 4 {
        ipv4(src, dst, proto, payload, V4)
    } else {
        ipv6(src, dst, proto, 64, payload)
    }
}

pub fn udp(src: &[u8], dst: &[u8], sport: u16, dport: u16, payload: &[u8]) -> Vec<u8> {
    let mut u = vec![0u8; 8];
    put16(&mut u[0..], sport);
    put16(&mut u[2..], dport);
    put16(&mut u[4..], (8 + payload.len()) as u16);
    u.extend_from_slice(payload);
    let c = csum(&[&pseudo(src, dst, 17, u.len()), &u]);
    put16(&mut u[6..], if c == 0 { 0xffff } else { c });
    u
}

pub const FIN: u8 = 1;
pub const SYN: u8 = 2;
pub const RST: u8 = 4;
pub const PSH: u8 = 8;
pub const ACK: u8 = 16;

#[allow(clippy::too_many_arguments)]
pub fn tcp(src: &[u8], dst: &[u8], sport: u16, dport: u16, seq: u32, ack: u32, flags: u8, win: u16, opts: &[u8], payload: &[u8]) -> Vec<u8> {
    let mut o = opts.to_vec();
    while o.len() % 4 != 0 {
        o.push(0);
    }
    let hl = 20 + o.len();
    let mut t = vec![0u8; 20];
    put16(&mut t[0..], sport);
    put16(&mut t[2..], dport);
    put32(&mut t[4..], seq);
    put32(&mut t[8..], ack);
    t[12] = ((hl / 4) as u8) << 4;
    t[13] = flags;
    put16(&mut t[14..], win);
    t.extend_from_slice(&o);
    t.extend_from_slice(payload);
    let c = csum(&[&pseudo(src, dst, 6, t.len()), &t]);
    put16(&mut t[16..], c);
    t
}

/// ICMPv4 message: type, code, the 4 "rest of header" bytes, data.
pub fn icmp4(ty: u8, code: u8, rest: [u8; 4], data: &[u8]) -> Vec<u8> {
    let mut m = vec![ty, code, 0, 0];
    m.extend_from_slice(&rest);
    m.extend_from_slice(data);
    let c = csum(&[&m]);
    put16(&mut m[2..], c);
    m
}

pub fn icmp6(src: &[u8], dst: &[u8], ty: u8, code: u8, body: &[u8]) -> Vec<u8> {
    let mut m = vec![ty, code, 0, 0];
    m.extend_from_slice(body);
    let c = csum(&[&pseudo(src, dst, 58, m.len()), &m]);
    put16(&mut m[2..], c);
    m
}

pub fn igmp(ty: u8, max_resp: u8, group: &[u8; 4]) -> Vec<u8> {
    let mut m = vec![ty, max_resp, 0, 0];
    m.extend_from_slice(group);
    let c = csum(&[&m]);
    put16(&mut m[2..], c);
    m
}

pub fn echo_body(ident: u16, seq: u16, data: &[u8]) -> Vec<u8> {
    let mut b = vec![];
    b.extend_from_slice(&ident.to_be_bytes());
    b.extend_from_slice(&seq.to_be_bytes());
    b.extend_from_slice(data);
    b
}

/// solicited-node multicast address of `a`
pub fn solicited(a: &[u8; 16]) -> [u8; 16] {
    let mut s = [0xff, 2, 0, 0, 0, 0, 0, 0, 0, 0, 0, 1, 0xff, 0, 0, 0];
    s[13..16].copy_from_slice(&a[13..16]);
    s
}
pub fn mcast_mac6(a: &[u8; 16]) -> [u8; 6] {
    [0x33, 0x33, a[12], a[13], a[14], a[15]]
}
pub fn mcast_mac4(a: &[u8; 4]) -> [u8; 6] {
    [0x01, 0x00, 0x5e, a[1] & 0x7f, a[2], a[3]]
}

/// NDISC link-layer address option (type 1 = source, 2 = target), padded to 8n.
pub fn lladdr_opt(ty: u8, ll: &[u8]) -> Vec<u8> {
    let mut o = vec![ty, 0];
    o.extend_from_slice(ll);
    while o.len() % 8 != 0 {
        o.push(0);
    }
    o[1] = (o.len() / 8) as u8;
    o
}

// --------------------------------------------------------------------- IEEE 802.15.4 / 6LoWPAN

#[derive(Clone, Copy, PartialEq, Eq, Debug)]
pub enum Ll {
    None,
    Short([u8; 2]),
    Ext([u8; 8]),
}
impl Ll {
    fn mode(&self) -> u16 {
        match self {
            Ll::None => 0,
            Ll::Short(_) => 2,
            Ll::Ext(_) => 3,
        }
    }
    fn put(&self, f: &mut Vec<u8>) {
        // addresses travel little-endian on the air
        match self {
            Ll::None => {}
            Ll::Short(a) => f.extend(a.iter().rev()),
            Ll::Ext(a) => f.extend(a.iter().rev()),
        }
    }
}

#[derive(Clone, Copy, Debug)]
pub struct Mac {
    pub frame_type: u8,
    pub security: bool,
    pub pending: bool,
    pub ack_req: bool,
    pub pan_compress: bool,
    pub version: u8,
    pub seq: u8,
    pub dst_pan: Option<u16>,
    pub dst: Ll,
    pub src_pan: Option<u16>,
    pub src: Ll,
}

/// 802.15.4 MAC header (no FCS: smoltcp devices deliver frames without it) followed by payload.
pub fn mac154(m: &Mac, payload: &[u8]) -> Vec<u8> {
    let fcf: u16 = (m.frame_type as u16 & 7)
        | (m.security as u16) << 3
        | (m.pending as u16) << 4
        | (m.ack_req as u16) << 5
        | (m.pan_compress as u16) << 6
        | m.dst.mode() << 10
        | (m.version as u16 & 3) << 12
        | m.src.mode() << 14;
    let mut f = vec![fcf as u8, (fcf >> 8) as u8, m.seq];
    if let Some(p) = m.dst_pan {
        f.extend_from_slice(&p.to_le_bytes());
    }
    m.dst.put(&mut f);
    if let Some(p) = m.src_pan {
        f.extend_from_slice(&p.to_le_bytes());
    }
    m.src.put(&mut f);
    f.extend_from_slice(payload);
    f
}

/// Length of the MAC header of an 802.15.4 frame without security header (None if truncated
/// or secured). Independent re-implementation used to look into frames smoltcp transmits.
pub fn mac154_hdr_len(f: &[u8]) -> Option<usize> {
    if f.len() < 3 {
        return None;
    }
    let fcf = f[0] as u16 | (f[1] as u16) << 8;
    if fcf & 8 != 0 {
        return None;
    }
    let dm = (fcf >> 10) & 3;
    let sm = (fcf >> 14) & 3;
    let compress = fcf & 0x40 != 0;
    let mut n = 3;
    let alen = |m: u16| match m {
        2 => 2,
        3 => 8,
        _ => 0,
    };
    if dm != 0 {
        n += 2 + alen(dm);
    }
    if sm != 0 {
        n += alen(sm) + if compress && dm != 0 { 0 } else { 2 };
    }
    if n > f.len() {
        None
    } else {
        Some(n)
    }
}

/// How an IPv6 address is carried in IPHC.
#[derive(Clone, Copy, PartialEq, Eq, Debug)]
pub enum Am {
    /// 128 bits inline (stateless)
    Full,
    /// 64 bits inline, fe80::/64 implied
    Iid64,
    /// 16 bits inline, fe80::ff:fe00:XXXX implied
    Iid16,
    /// fully elided, derived from the link-layer address
    Elided,
    /// context based, 64 bits inline (context id)
    Ctx64(u8),
    /// context based, 16 bits inline
    Ctx16(u8),
    /// context based, elided
    CtxElided(u8),
    /// unspecified address (source only: SAC=1, SAM=00)
    Unspec,
    /// multicast 48 / 32 / 8 bit forms (destination only)
    M48,
    M32,
    M8,
}

#[derive(Clone, Copy, Debug)]
pub struct Iphc {
    /// 0: ECN+DSCP+flow (4 bytes), 1: ECN+flow (3), 2: ECN+DSCP (1), 3: elided
    pub tf: u8,
    /// 0: inline, 1: 1, 2: 64, 3: 255 (the value put on the wire when inline is `hop`)
    pub hlim: u8,
    pub sam: Am,
    pub dam: Am,
}

fn hlim_code(style: u8, hop: u8) -> u8 {
    match (style, hop) {
        (0, _) => 0,
        (_, 1) => 1,
        (_, 64) => 2,
        (_, 255) => 3,
        _ => 0,
    }
}

/// LOWPAN_IPHC header for the given IPv6 header values. `nh`: Some(protocol) = carried inline,
/// None = next header compressed with NHC. The caller is responsible for choosing modes the
/// addresses fit into (what does not fit is simply cut, which is fine for stimulus).
pub fn iphc(st: &Iphc, src: &[u8; 16], dst: &[u8; 16], nh: Option<u8>, hop: u8) -> Vec<u8> {
    let hl = hlim_code(st.hlim, hop);
    let mut b0 = 0x60 | (st.tf & 3) << 3 | hl;
    if nh.is_none() {
        b0 |= 4;
    }
    let (sac, sam, sctx) = match st.sam {
        Am::Full => (0, 0, None),
        Am::Iid64 => (0, 1, None),
        Am::Iid16 => (0, 2, None),
        Am::Elided => (0, 3, None),
        Am::Unspec => (1, 0, None),
        Am::Ctx64(c) => (1, 1, Some(c)),
        Am::Ctx16(c) => (1, 2, Some(c)),
        Am::CtxElided(c) => (1, 3, Some(c)),
        _ => (0, 0, None),
    };
    let (m, dac, dam, dctx) = match st.dam {
        Am::Full => (if dst[0] == 0xff { 1 } else { 0 }, 0, 0, None),
        Am::Iid64 => (0, 0, 1, None),
        Am::Iid16 => (0, 0, 2, None),
        Am::Elided => (0, 0, 3, None),
        Am::Ctx64(c) => (0, 1, 1, Some(c)),
        Am::Ctx16(c) => (0, 1, 2, Some(c)),
        Am::CtxElided(c) => (0, 1, 3, Some(c)),
        Am::M48 => (1, 0, 1, None),
        Am::M32 => (1, 0, 2, None),
        Am::M8 => (1, 0, 3, None),
        Am::Unspec => (0, 0, 0, None),
    };
    let cid = sctx.is_some() || dctx.is_some();
    let b1 = (cid as u8) << 7 | sac << 6 | sam << 4 | m << 3 | dac << 2 | dam;
    let mut h = vec![b0, b1];
    if cid {
        h.push(sctx.unwrap_or(0) << 4 | dctx.unwrap_or(0));
    }
    match st.tf & 3 {
        0 => h.extend_from_slice(&[0, 0, 0, 0]),
        1 => h.extend_from_slice(&[0, 0, 0]),
        2 => h.push(0),
        _ => {}
    }
    if let Some(p) = nh {
        h.push(p);
    }
    if hl == 0 {
        h.push(hop);
    }
    match st.sam {
        Am::Full => h.extend_from_slice(src),
        Am::Iid64 | Am::Ctx64(_) => h.extend_from_slice(&src[8..]),
        Am::Iid16 | Am::Ctx16(_) => h.extend_from_slice(&src[14..]),
        _ => {}
    }
    match st.dam {
        Am::Full | Am::Unspec => h.extend_from_slice(dst),
        Am::Iid64 | Am::Ctx64(_) => h.extend_from_slice(&dst[8..]),
        Am::Iid16 | Am::Ctx16(_) => h.extend_from_slice(&dst[14..]),
        Am::M48 => {
            h.push(dst[1]);
            h.extend_from_slice(&dst[11..]);
        }
        Am::M32 => {
            h.push(dst[1]);
            h.extend_from_slice(&dst[13..]);
        }
        Am::M8 => h.push(dst[15]),
        _ => {}
    }
    h
}

/// LOWPAN_NHC UDP header. ports: 0 = both inline, 1 = dst 8 bit, 2 = src 8 bit, 3 = 4+4 bit.
/// `checksum`: Some = inline, None = elided (C bit set).
pub fn nhc_udp(ports: u8, sport: u16, dport: u16, checksum: Option<u16>) -> Vec<u8> {
    let mut h = vec![0xf0 | (checksum.is_none() as u8) << 2 | (ports & 3)];
    match ports & 3 {
        0 => {
            h.extend_from_slice(&sport.to_be_bytes());
            h.extend_from_slice(&dport.to_be_bytes());
        }
        1 => {
            h.extend_from_slice(&sport.to_be_bytes());
            h.push(dport as u8);
        }
        2 => {
            h.push(sport as u8);
            h.extend_from_slice(&dport.to_be_bytes());
        }
        _ => h.push(((sport & 0xf) as u8) << 4 | (dport & 0xf) as u8),
    }
    if let Some(c) = checksum {
        h.extend_from_slice(&c.to_be_bytes());
    }
    h
}

/// LOWPAN_NHC extension header: eid (0 HBH, 1 routing, 2 fragment, 3 dest opts, 4 mobility,
/// 7 IPv6), next header inline (Some) or compressed (None), then length + data (layout as
/// smoltcp parses it: [dispatch][next header?][length][data]).
pub fn nhc_ext(eid: u8, nh: Option<u8>, data: &[u8]) -> Vec<u8> {
    let mut h = vec![0xe0 | (eid & 7) << 1 | nh.is_none() as u8];
    if let Some(p) = nh {
        h.push(p);
    }
    h.push(data.len() as u8);
    h.extend_from_slice(data);
    h
}

pub fn frag1(size: u16, tag: u16) -> Vec<u8> {
    vec![0xc0 | (size >> 8) as u8 & 7, size as u8, (tag >> 8) as u8, tag as u8]
}
pub fn fragn(size: u16, tag: u16, offset8: u8) -> Vec<u8> {
    vec![0xe0 | (size >> 8) as u8 & 7, size as u8, (tag >> 8) as u8, tag as u8, offset8]
}

/// Length of an IPHC header from its first bytes (RFC 6282 section 3.1), None if truncated.
pub fn iphc_len(b: &[u8]) -> Option<(usize, Option<u8>)> {
    if b.len() < 2 || b[0] >> 5 != 3 {
        return None;
    }
    let tf = (b[0] >> 3) & 3;
    let nh = (b[0] >> 2) & 1;
    let hl = b[0] & 3;
    let cid = b[1] >> 7;
    let sac = (b[1] >> 6) & 1;
    let sam = (b[1] >> 4) & 3;
    let m = (b[1] >> 3) & 1;
    let dac = (b[1] >> 2) & 1;
    let dam = b[1] & 3;
    let mut n = 2 + cid as usize;
    n += [4, 3, 1, 0][tf as usize];
    let nh_pos = n;
    n += (nh == 0) as usize;
    n += (hl == 0) as usize;
    n += match (sac, sam) {
        (0, 0) => 16,
        (_, 1) => 8,
        (_, 2) => 2,
        _ => 0,
    };
    n += match (m, dac, dam) {
        (0, 0, 0) | (1, 0, 0) => 16,
        (0, _, 1) => 8,
        (0, _, 2) => 2,
        (0, _, _) => 0,
        (1, 0, 1) | (1, 1, 0) => 6,
        (1, 0, 2) => 4,
        (1, 0, 3) => 1,
        _ => 0,
    };
    if n > b.len() {
        return None;
    }
    Some((n, if nh == 0 { Some(b[nh_pos]) } else { None }))
}

// ------------------------------------------------------------------------------- fix-up

fn fix_l4(src: &[u8], dst: &[u8], proto: u8, l4: &mut [u8]) -> bool {
    let v6 = src.len() == 16;
    match proto {
        1 if !v6 => {
            if l4.len() < 4 {
                return false;
            }
            l4[2] = 0;
            l4[3] = 0;
            let c = csum(&[l4]);
            put16(&mut l4[2..], c);
            true
        }
        2 if !v6 => {
            if l4.len() < 8 {
                return false;
            }
            l4[2] = 0;
            l4[3] = 0;
            let c = csum(&[l4]);
            put16(&mut l4[2..], c);
            true
        }
        58 if v6 => {
            if l4.len() < 4 {
                return false;
            }
            l4[2] = 0;
            l4[3] = 0;
            let c = csum(&[&pseudo(src, dst, 58, l4.len()), l4]);
            put16(&mut l4[2..], c);
            true
        }
        17 => {
            if l4.len() < 8 {
                return false;
            }
            let ulen = be16(&l4[4..]) as usize;
            if ulen < 8 || ulen > l4.len() {
                return false;
            }
            l4[6] = 0;
            l4[7] = 0;
            let c = csum(&[&pseudo(src, dst, 17, ulen), &l4[..ulen]]);
            put16(&mut l4[6..], if c == 0 { 0xffff } else { c });
            true
        }
        6 => {
            if l4.len() < 20 {
                return false;
            }
            l4[16] = 0;
            l4[17] = 0;
            let c = csum(&[&pseudo(src, dst, 6, l4.len()), l4]);
            put16(&mut l4[16..], c);
            true
        }
        _ => false,
    }
}

fn fix_ipv4(p: &mut [u8]) -> bool {
    if p.len() < 20 {
        return false;
    }
    let ihl = (p[0] & 0xf) as usize * 4;
    if ihl < 20 || ihl > p.len() {
        return false;
    }
    p[10] = 0;
    p[11] = 0;
    let c = csum(&[&p[..ihl]]);
    put16(&mut p[10..], c);
    let total = be16(&p[2..]) as usize;
    let ff = be16(&p[6..]);
    if total < ihl || total > p.len() || ff & 0x3fff != 0 {
        return true;
    }
    let (h, l4) = p.split_at_mut(ihl);
    let proto = h[9];
    let (src, dst) = (h[12..16].to_vec(), h[16..20].to_vec());
    fix_l4(&src, &dst, proto, &mut l4[..total - ihl]);
    true
}

fn fix_ipv6(p: &mut [u8]) -> bool {
    if p.len() < 40 {
        return false;
    }
    let plen = be16(&p[4..]) as usize;
    if 40 + plen > p.len() {
        return false;
    }
    let (h, rest) = p.split_at_mut(40);
    let mut nh = h[6];
    let mut l4 = &mut rest[..plen];
    if nh == 0 {
        if l4.len() < 8 {
            return false;
        }
        let el = (l4[1] as usize + 1) * 8;
        if el > l4.len() {
            return false;
        }
        nh = l4[0];
        l4 = &mut l4[el..];
    }
    fix_l4(&h[8..24], &h[24..40], nh, l4)
}

/// Recompute every checksum that can be located in `f` (IPv4 header, ICMP, IGMP, UDP, TCP,
/// ICMPv6) so that a mutant is not simply discarded by checksum verification. Returns true if
/// some checksum could be located (the frame may or may not have changed).
pub fn fixup(medium: Medium, f: &mut [u8]) -> bool {
    match medium {
        Medium::Ethernet => {
            if f.len() < 14 {
                return false;
            }
            match be16(&f[12..]) {
                0x0800 => fix_ipv4(&mut f[14..]),
                0x86dd => fix_ipv6(&mut f[14..]),
                _ => false,
            }
        }
        Medium::Ip => match f.first().map(|b| b >> 4) {
            Some(4) => fix_ipv4(f),
            Some(6) => fix_ipv6(f),
            _ => false,
        },
        _ => false,
    }
}

/// What a seed knows about its own upper-layer payload when it is carried uncompressed in a
/// 6LoWPAN frame (so that mutants of the payload can get a correct checksum again).
#[derive(Clone, Debug)]
pub struct L4Info {
    pub off: usize,
    pub proto: u8,
    pub src: [u8; 16],
    pub dst: [u8; 16],
}
pub fn fixup_l4info(i: &L4Info, f: &mut [u8]) -> bool {
    if f.len() <= i.off {
        return false;
    }
    fix_l4(&i.src, &i.dst, i.proto, &mut f[i.off..])
}

// ------------------------------------------------------------------------------- classifier

fn tcp_flags(b: u8) -> String {
    let mut s = String::new();
    for (bit, c) in [(SYN, 'S'), (FIN, 'F'), (RST, 'R'), (PSH, 'P'), (ACK, 'A')] {
        if b & bit != 0 {
            s.push(c);
        }
    }
    s
}

fn class_l4(v: &str, proto: u8, l4: &[u8]) -> String {
    match proto {
        1 | 58 if l4.len() >= 2 => format!("{}/icmp/{}.{}", v, l4[0], l4[1]),
        2 if !l4.is_empty() => format!("{}/igmp/{:#x}", v, l4[0]),
        6 if l4.len() >= 14 => format!("{}/tcp/{}", v, tcp_flags(l4[13])),
        17 if l4.len() >= 4 => {
            let (s, d) = (be16(l4), be16(&l4[2..]));
            let k = |p: u16| match p {
                53 => "dns".to_string(),
                67 | 68 => "dhcp".to_string(),
                _ => "x".to_string(),
            };
            format!("{}/udp/{}>{}", v, k(s), k(d))
        }
        _ => format!("{}/proto{}", v, proto),
    }
}

fn class_ip(p: &[u8]) -> String {
    match p.first().map(|b| b >> 4) {
        Some(4) if p.len() >= 20 => {
            let ihl = (p[0] & 0xf) as usize * 4;
            if ihl > p.len() {
                return "v4/short".into();
            }
            let ff = be16(&p[6..]);
            if ff & 0x1fff != 0 {
                return "v4/frag-n".into();
            }
            let c = class_l4("v4", p[9], &p[ihl..]);
            if ff & 0x2000 != 0 {
                format!("{}+mf", c)
            } else {
                c
            }
        }
        Some(6) if p.len() >= 40 => {
            let mut nh = p[6];
            let mut l4 = &p[40..];
            let mut pre = "v6";
            if nh == 0 && l4.len() >= 8 {
                let el = (l4[1] as usize + 1) * 8;
                if el <= l4.len() {
                    nh = l4[0];
                    l4 = &l4[el..];
                    pre = "v6+hbh";
                }
            }
            class_l4(pre, nh, l4)
        }
        _ => "ip?".into(),
    }
}

/// Coarse protocol class of a frame transmitted by the interface.
pub fn classify(medium: Medium, f: &[u8]) -> String {
    match medium {
        Medium::Ethernet => {
            if f.len() < 14 {
                return "eth/short".into();
            }
            match be16(&f[12..]) {
                0x0806 if f.len() >= 22 => format!("arp/{}", be16(&f[20..])),
                0x0800 | 0x86dd => class_ip(&f[14..]),
                t => format!("eth/{:#06x}", t),
            }
        }
        Medium::Ip => class_ip(f),
        _ => {
            let Some(h) = mac154_hdr_len(f) else { return "154/?".into() };
            let p = &f[h..];
            match p.first() {
                Some(b) if b >> 3 == 0b11000 => "6lo/frag1".into(),
                Some(b) if b >> 3 == 0b11100 => "6lo/fragn".into(),
                Some(b) if b >> 5 == 3 => match iphc_len(p) {
                    Some((n, Some(nh))) => class_l4("6lo", nh, &p[n..]),
                    Some((n, None)) => match p.get(n) {
                        Some(d) if d >> 3 == 0b11110 => "6lo/nhc-udp".into(),
                        Some(d) if d >> 4 == 0b1110 => "6lo/nhc-ext".into(),
                        _ => "6lo/nhc?".into(),
                    },
                    None => "6lo/iphc?".into(),
                },
                _ => "154/other".into(),
            }
        }
    }
}

/// Is `f` an ICMP echo reply (v4: type 0, v6: type 129) carrying exactly ident/seq/data?
pub fn is_echo_reply(medium: Medium, v6: bool, f: &[u8], ident: u16, seq: u16, data: &[u8]) -> bool {
    let check = |ty: u8, m: &[u8]| -> bool {
        m.len() == 8 + data.len() && m[0] == ty && m[1] == 0 && be16(&m[4..]) == ident && be16(&m[6..]) == seq && &m[8..] == data
    };
    let ipcheck = |p: &[u8]| -> bool {
        if !v6 {
            if p.len() < 20 || p[0] >> 4 != 4 || p[9] != 1 {
                return false;
            }
            let ihl = (p[0] & 0xf) as usize * 4;
            let total = be16(&p[2..]) as usize;
            ihl <= total && total <= p.len() && check(0, &p[ihl..total])
        } else {
            p.len() >= 40 && p[0] >> 4 == 6 && p[6] == 58 && 40 + be16(&p[4..]) as usize <= p.len() && check(129, &p[40..40 + be16(&p[4..]) as usize])
        }
    };
    match medium {
        Medium::Ethernet => f.len() >= 14 && be16(&f[12..]) == if v6 { 0x86dd } else { 0x0800 } && ipcheck(&f[14..]),
        Medium::Ip => ipcheck(f),
        _ => {
            let Some(h) = mac154_hdr_len(f) else { return false };
            match iphc_len(&f[h..]) {
                Some((n, Some(58))) => check(129, &f[h + n..]),
                _ => false,
            }
        }
    }
}
