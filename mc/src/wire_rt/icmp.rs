//! ICMPv4, ICMPv6, NDISC (+ options), MLD (+ address records), IGMP
use super::alpha::*;
use super::{Ck, Proto, Rt, CK_ALL};
use crate::core::Tier;
use smoltcp::time::Duration;
use smoltcp::wire::*;

// --------------------------------------------------------------------------------- ICMPv4
/// Error messages: the embedded `header.payload_len` is what the parser can see of the
/// offending datagram, i.e. `data.len()` (a longer original datagram is cut by design: the
/// statement's proviso), and RFC 792 / the parser want at least 8 bytes of it.  The
/// generator therefore only produces `header.payload_len == data.len() >= 8`.
pub struct Icmp4;
fn v4hdrs(tier: Tier, plen: usize) -> Vec<Ipv4Repr> {
    let mut v = vec![];
    for (s, d) in pick(tier, &[(0usize, 1usize), (3, 0), (2, 2)], 2) {
        for p in pick(tier, &[IpProtocol::Udp, IpProtocol::Tcp, IpProtocol::Unknown(0xfe)], 2) {
            for h in pick(tier, &[64u8, 0, 255], 1) {
                v.push(Ipv4Repr { src_addr: v4s()[s], dst_addr: v4s()[d], next_header: p, payload_len: plen, hop_limit: h });
            }
        }
    }
    v
}
impl Rt for Icmp4 {
    const NAME: &'static str = "Icmpv4Repr";
    type R<'x> = Icmpv4Repr<'x>;
    type Ctx = Ck;
    fn nchunks(_tier: Tier) -> usize {
        CK_ALL.len()
    }
    fn chunk(tier: Tier, i: usize) -> Vec<(Icmpv4Repr<'static>, Ck)> {
        let m = CK_ALL[i];
        let mut v = vec![];
        for id in pick(tier, &U16S, 2) {
            for sq in pick(tier, &U16S, 2) {
                for l in pick(tier, &[0usize, 1, 1472, 2, 3], 3) {
                    v.push((Icmpv4Repr::EchoRequest { ident: id, seq_no: sq, data: pat(l) }, m));
                    v.push((Icmpv4Repr::EchoReply { ident: id, seq_no: sq, data: pat(l) }, m));
                }
            }
        }
        let mut du: Vec<Icmpv4DstUnreachable> = (0..16u8).map(Icmpv4DstUnreachable::from).collect();
        du.push(Icmpv4DstUnreachable::Unknown(16));
        du.push(Icmpv4DstUnreachable::Unknown(255));
        let du = match tier {
            Tier::Quick => vec![du[3], du[0], du[16]],
            Tier::Thorough => du,
        };
        let te = [Icmpv4TimeExceeded::TtlExpired, Icmpv4TimeExceeded::FragExpired, Icmpv4TimeExceeded::Unknown(2), Icmpv4TimeExceeded::Unknown(255)];
        // ICMPv4 has no cut rule of its own in the wire layer (buffer_len = 8 + 20 + data.len(),
        // the interface cuts before building the Repr): lengths beyond the ICMPv6 limit are
        // ordinary values and must round-trip unchanged
        for l in pick(tier, &[8usize, 28, 1193, 2000, 9, 548, 1200, 1232, 1233, 1500], 4) {
            for h in v4hdrs(tier, l) {
                for r in &du {
                    v.push((Icmpv4Repr::DstUnreachable { reason: *r, header: h, data: pat(l) }, m));
                }
                for r in pick(tier, &te, 2) {
                    v.push((Icmpv4Repr::TimeExceeded { reason: r, header: h, data: pat(l) }, m));
                }
            }
        }
        v
    }
    fn blen(r: &Icmpv4Repr, _: &Ck) -> usize {
        r.buffer_len()
    }
    fn emit(r: &Icmpv4Repr, m: &Ck, buf: &mut [u8]) {
        let mut p = Icmpv4Packet::new_unchecked(buf);
        r.emit(&mut p, &m.emit_caps(Proto::Icmpv4));
        if m.device_fills() {
            p.fill_checksum();
        }
    }
    fn parse(b: &[u8], m: &Ck, s: bool, k: &mut dyn FnMut(Option<&Icmpv4Repr<'_>>)) {
        let r = Icmpv4Packet::new_checked(b).ok().and_then(|p| Icmpv4Repr::parse(&p, &m.parse_caps(Proto::Icmpv4, s)).ok());
        k(r.as_ref())
    }
    fn same(a: &Icmpv4Repr, b: &Icmpv4Repr, _: &Ck) -> bool {
        a == b
    }
    fn base_ctx(m: &Ck) -> Option<Ck> {
        (*m != Ck::Default).then_some(Ck::Default)
    }
    fn ctx_tag(m: &Ck) -> String {
        m.name().into()
    }
    fn tx_off(m: &Ck) -> bool {
        m.tx_off()
    }
    fn tag(r: &Icmpv4Repr) -> String {
        match r {
            Icmpv4Repr::EchoRequest { .. } => "EchoRequest",
            Icmpv4Repr::EchoReply { .. } => "EchoReply",
            Icmpv4Repr::DstUnreachable { .. } => "DstUnreachable",
            Icmpv4Repr::TimeExceeded { .. } => "TimeExceeded",
            _ => "other",
        }
        .into()
    }
    fn cksum(_: &Icmpv4Repr) -> Option<std::ops::Range<usize>> {
        Some(2..4)
    }
    fn dirty_cause(_: &Icmpv4Repr, off: &[usize]) -> Option<Vec<String>> {
        if off == [4, 5, 6, 7] {
            Some(vec!["unused-field".into()])
        } else {
            None
        }
    }
    fn mut_params(tier: Tier) -> (usize, usize) {
        match tier {
            Tier::Quick => (48, 64),
            Tier::Thorough => (300, 64),
        }
    }
    fn domain_doc() -> &'static str {
        "EchoRequest/EchoReply: ident {0,1,0x8000,0xffff} x seq_no (same) x data length {0,1,2,3,1472}; DstUnreachable: reason (16 known codes + Unknown(16), Unknown(255)) x embedded Ipv4Repr (3 address pairs x 3 protocols x hop {0,64,255}) x data length {8,9,28,548,1193,1200,1232,1233,1500,2000} with header.payload_len = data.len() (no cut rule in the ICMPv4 wire code); TimeExceeded: reason {TtlExpired, FragExpired, Unknown(2), Unknown(255)} x same; x checksum capabilities of this protocol {default; None; Tx; Rx with the harness filling the checksum as the device would; emit default / parse None; emit Rx / parse Tx}, each emitted and parsed under that configuration"
    }
}

// --------------------------------------------------------------------------------- ICMPv6
fn v6hdrs(tier: Tier, plen: usize) -> Vec<Ipv6Repr> {
    let mut v = vec![];
    for (s, d) in pick(tier, &[(0usize, 3usize), (3, 1), (2, 2)], 2) {
        for p in pick(tier, &[IpProtocol::Udp, IpProtocol::Tcp, IpProtocol::HopByHop], 2) {
            for h in pick(tier, &[64u8, 0, 255], 1) {
                v.push(Ipv6Repr { src_addr: v6s()[s], dst_addr: v6s()[d], next_header: p, payload_len: plen, hop_limit: h });
            }
        }
    }
    v
}
fn lladdrs() -> Vec<Option<RawHardwareAddress>> {
    // the two hardware address lengths `RawHardwareAddress::parse` knows: Ethernet (6) and
    // IEEE 802.15.4 extended (8)
    vec![
        None,
        Some(RawHardwareAddress::from_bytes(&[0x02, 0x11, 0x22, 0x33, 0x44, 0x55, 0x66, 0x77])),
        Some(RawHardwareAddress::from_bytes(&[0x02, 0x00, 0x00, 0x00, 0x00, 0x01])),
    ]
}
fn prefix_infos() -> Vec<Option<NdiscPrefixInformation>> {
    vec![
        None,
        Some(NdiscPrefixInformation {
            prefix_len: 64,
            flags: NdiscPrefixInfoFlags::ON_LINK | NdiscPrefixInfoFlags::ADDRCONF,
            valid_lifetime: Duration::from_secs(0xffff_ffff),
            preferred_lifetime: Duration::from_secs(1),
            prefix: Ipv6Address::new(0x2001, 0xdb8, 0, 1, 0, 0, 0, 0),
        }),
        Some(NdiscPrefixInformation {
            prefix_len: 0,
            flags: NdiscPrefixInfoFlags::empty(),
            valid_lifetime: Duration::from_secs(0),
            preferred_lifetime: Duration::from_secs(0),
            prefix: Ipv6Address::new(0, 0, 0, 0, 0, 0, 0, 0),
        }),
        Some(NdiscPrefixInformation {
            prefix_len: 255,
            flags: NdiscPrefixInfoFlags::ADDRCONF,
            valid_lifetime: Duration::from_secs(1),
            preferred_lifetime: Duration::from_secs(0xffff_ffff),
            prefix: Ipv6Address::new(0xffff, 0xffff, 0xffff, 0xffff, 0xffff, 0xffff, 0xffff, 0xffff),
        }),
    ]
}
fn redirected(tier: Tier) -> Vec<Option<NdiscRedirectedHeader<'static>>> {
    // header.payload_len = data.len(): the only shape the parser produces and the only one
    // `emit` accepts (it copies `data` into a slice of `payload_len` bytes)
    let mut v = vec![None];
    // 8+40+len is rounded up to the option's 8-octet unit: lengths around the alignment
    for l in pick(tier, &[8usize, 3, 7, 9, 0, 40, 15, 16, 17], 4) {
        v.push(Some(NdiscRedirectedHeader { header: v6hdrs(Tier::Quick, l)[0], data: pat(l) }));
    }
    v
}
fn ndisc_domain(tier: Tier) -> Vec<NdiscRepr<'static>> {
    let mut v = vec![];
    let ll = lladdrs();
    for l in &ll {
        v.push(NdiscRepr::RouterSolicit { lladdr: *l });
    }
    let rf = [NdiscRouterFlags::empty(), NdiscRouterFlags::MANAGED | NdiscRouterFlags::OTHER, NdiscRouterFlags::MANAGED, NdiscRouterFlags::OTHER];
    for hl in pick(tier, &U8S, 2) {
        for f in pick(tier, &rf, 2) {
            for rl in pick(tier, &[0u64, 65535, 1], 2) {
                for rt in pick(tier, &[0u64, 0xffff_ffff, 1], 2) {
                    for rx in pick(tier, &[0xffff_ffffu64, 0], 1) {
                        for l in &ll {
                            for mtu in pick(tier, &[None, Some(1500u32), Some(0), Some(0xffff_ffff)], 2) {
                                for pi in pick(tier, &prefix_infos(), 2) {
                                    v.push(NdiscRepr::RouterAdvert {
                                        hop_limit: hl,
                                        flags: f,
                                        router_lifetime: Duration::from_secs(rl),
                                        reachable_time: Duration::from_millis(rt),
                                        retrans_time: Duration::from_millis(rx),
                                        lladdr: *l,
                                        mtu,
                                        prefix_info: pi,
                                    });
                                }
                            }
                        }
                    }
                }
            }
        }
    }
    let nf: Vec<NdiscNeighborFlags> = (0..8u8).map(|b| NdiscNeighborFlags::from_bits_truncate(b << 5)).collect();
    for t in pick(tier, &v6s(), 3) {
        for l in &ll {
            v.push(NdiscRepr::NeighborSolicit { target_addr: t, lladdr: *l });
            for f in pick(tier, &nf, 3) {
                v.push(NdiscRepr::NeighborAdvert { flags: f, target_addr: t, lladdr: *l });
            }
            for d in pick(tier, &v6s(), 2) {
                for rh in redirected(tier) {
                    v.push(NdiscRepr::Redirect { target_addr: t, dest_addr: d, lladdr: *l, redirected_hdr: rh });
                }
            }
        }
    }
    v
}

/// Expected buffer-dependent byte ranges of an emitted NDISC option at offset `at`, by cause
/// (signature hygiene: lets the signature name the cause instead of raw offsets).
fn ndopt_dirty(o: &NdiscOptionRepr, at: usize, out: &mut Vec<(&'static str, std::ops::Range<usize>)>) {
    match o {
        NdiscOptionRepr::SourceLinkLayerAddr(a) | NdiscOptionRepr::TargetLinkLayerAddr(a) => {
            let used = 2 + a.len();
            let total = used.div_ceil(8) * 8;
            if total > used {
                out.push(("lladdr-option-padding", at + used..at + total));
            }
        }
        NdiscOptionRepr::Mtu(_) => out.push(("mtu-option-reserved", at + 2..at + 4)),
        NdiscOptionRepr::RedirectedHeader(rh) => {
            let used = 8 + 40 + rh.data.len();
            let total = used.div_ceil(8) * 8;
            if total > used {
                out.push(("redirected-header-option-padding", at + used..at + total));
            }
        }
        _ => {}
    }
}
fn ndisc_dirty(r: &NdiscRepr) -> Vec<(&'static str, std::ops::Range<usize>)> {
    let mut out = vec![];
    match r {
        NdiscRepr::RouterSolicit { lladdr } => {
            if let Some(l) = lladdr {
                ndopt_dirty(&NdiscOptionRepr::SourceLinkLayerAddr(*l), 8, &mut out);
            }
        }
        NdiscRepr::RouterAdvert { lladdr, mtu, .. } => {
            let mut at = 16;
            if let Some(l) = lladdr {
                let o = NdiscOptionRepr::SourceLinkLayerAddr(*l);
                ndopt_dirty(&o, at, &mut out);
                at += o.buffer_len();
            }
            if let Some(m) = mtu {
                ndopt_dirty(&NdiscOptionRepr::Mtu(*m), at, &mut out);
            }
        }
        NdiscRepr::NeighborSolicit { lladdr, .. } | NdiscRepr::NeighborAdvert { lladdr, .. } => {
            if let Some(l) = lladdr {
                ndopt_dirty(&NdiscOptionRepr::SourceLinkLayerAddr(*l), 24, &mut out);
            }
        }
        NdiscRepr::Redirect { lladdr, redirected_hdr, .. } => {
            let mut at = 40;
            if let Some(l) = lladdr {
                let o = NdiscOptionRepr::TargetLinkLayerAddr(*l);
                ndopt_dirty(&o, at, &mut out);
                at += o.buffer_len();
            }
            if let Some(rh) = redirected_hdr {
                ndopt_dirty(&NdiscOptionRepr::RedirectedHeader(*rh), at, &mut out);
            }
        }
    }
    out
}
/// Causes whose expected ranges exactly cover the observed offsets, else None (raw offsets).
fn explain(exp: Vec<(&'static str, std::ops::Range<usize>)>, off: &[usize]) -> Option<Vec<String>> {
    let mut covered: Vec<usize> = exp.iter().flat_map(|(_, r)| r.clone()).collect();
    covered.sort();
    covered.dedup();
    if covered.is_empty() || covered != off {
        return None;
    }
    let mut names: Vec<String> = exp.iter().map(|(n, _)| n.to_string()).collect();
    names.sort();
    names.dedup();
    Some(names)
}
fn ndisc_tag(r: &NdiscRepr) -> &'static str {
    match r {
        NdiscRepr::RouterSolicit { .. } => "RouterSolicit",
        NdiscRepr::RouterAdvert { .. } => "RouterAdvert",
        NdiscRepr::NeighborSolicit { .. } => "NeighborSolicit",
        NdiscRepr::NeighborAdvert { .. } => "NeighborAdvert",
        NdiscRepr::Redirect { .. } => "Redirect",
    }
}
fn mld_domain(tier: Tier) -> Vec<MldRepr<'static>> {
    let mut v = vec![];
    let groups = [Ipv6Address::new(0xff02, 0, 0, 0, 0, 0, 0, 1), Ipv6Address::new(0, 0, 0, 0, 0, 0, 0, 0), Ipv6Address::new(0xff05, 0, 0, 0, 0, 0, 1, 3)];
    for mrc in pick(tier, &U16S, 2) {
        for g in pick(tier, &groups, 2) {
            for s in [false, true] {
                for qrv in pick(tier, &[0u8, 7, 1], 2) {
                    for qqic in pick(tier, &[0u8, 255, 1], 2) {
                        for n in pick(tier, &[0usize, 1, 2], 2) {
                            v.push(MldRepr::Query { max_resp_code: mrc, mcast_addr: g, s_flag: s, qrv, qqic, num_srcs: n as u16, data: pat(16 * n) });
                        }
                    }
                }
            }
        }
    }
    for (n, l) in pick(tier, &[(0u16, 0usize), (1, 20), (2, 40), (1, 36), (0xffff, 20)], 3) {
        v.push(MldRepr::Report { nr_mcast_addr_rcrds: n, data: pat(l) });
    }
    for rs in mld_record_lists(tier) {
        v.push(MldRepr::ReportRecordReprs(rs));
    }
    v
}
fn mld_record_lists(tier: Tier) -> Vec<&'static [MldAddressRecordRepr<'static>]> {
    static L: std::sync::OnceLock<Vec<&'static [MldAddressRecordRepr<'static>]>> = std::sync::OnceLock::new();
    let all = L.get_or_init(|| {
        let g1 = Ipv6Address::new(0xff02, 0, 0, 0, 0, 1, 0xff00, 1);
        let g2 = Ipv6Address::new(0xff05, 0, 0, 0, 0, 0, 1, 3);
        let rt = [
            MldRecordType::ChangeToExclude,
            MldRecordType::ChangeToInclude,
            MldRecordType::ModeIsExclude,
            MldRecordType::ModeIsInclude,
            MldRecordType::AllowNewSources,
            MldRecordType::BlockOldSources,
        ];
        let mut v: Vec<&'static [MldAddressRecordRepr<'static>]> = vec![leak(vec![])];
        for t in rt {
            v.push(leak(vec![MldAddressRecordRepr::new(t, g1)]));
        }
        v.push(leak(vec![MldAddressRecordRepr::new(rt[0], g1), MldAddressRecordRepr::new(rt[1], g2)]));
        v.push(leak(rt.iter().map(|t| MldAddressRecordRepr::new(*t, g2)).collect()));
        v
    });
    match tier {
        Tier::Quick => vec![all[0], all[1], all[7]],
        Tier::Thorough => all.clone(),
    }
}
fn mld_tag(r: &MldRepr) -> &'static str {
    match r {
        MldRepr::Query { .. } => "Query",
        MldRepr::Report { .. } => "Report",
        MldRepr::ReportRecordReprs(_) => "ReportRecordReprs",
    }
}
/// `MldRepr::ReportRecordReprs` is emit-only: `buffer_len()` is the 8-byte report header and
/// the interface adds `sum(record.buffer_len())` itself; the parser always answers
/// `Report { nr_mcast_addr_rcrds, data }`.  Declared length = 8 + 20 per record (records
/// carry no sources / auxiliary data, the only kind `emit` can write), and "equal" means:
/// the parsed `Report` counts the records and its data parses back, record by record, to
/// the same `AddressRecordRepr`s.
fn mld_blen(r: &MldRepr) -> usize {
    match r {
        MldRepr::ReportRecordReprs(rs) => r.buffer_len() + rs.iter().map(|x| x.buffer_len()).sum::<usize>(),
        _ => r.buffer_len(),
    }
}
fn mld_same(a: &MldRepr, b: &MldRepr) -> bool {
    match (a, b) {
        (MldRepr::ReportRecordReprs(rs), MldRepr::Report { nr_mcast_addr_rcrds, data }) => {
            if *nr_mcast_addr_rcrds as usize != rs.len() || data.len() != 20 * rs.len() {
                return false;
            }
            rs.iter().zip(data.chunks(20)).all(|(r, ch)| match MldAddressRecord::new_checked(ch) {
                Ok(p) => MldAddressRecordRepr::parse(&p).map(|x| x == *r).unwrap_or(false),
                Err(_) => false,
            })
        }
        _ => a == b,
    }
}

/// The value `parse(emit(r))` is expected to be: error messages quote at most what
/// `buffer_len()` leaves after the ICMPv6 and the quoted IPv6 header ("cut to the minimum MTU
/// by design", the statement's proviso); everything else unchanged.
fn cut<'a>(r: &Icmpv6Repr<'a>) -> Icmpv6Repr<'a> {
    let adm = |h: &Ipv6Repr, d: &'a [u8]| -> &'a [u8] {
        let n = r.buffer_len().saturating_sub(8 + h.buffer_len());
        &d[..d.len().min(n)]
    };
    match *r {
        Icmpv6Repr::DstUnreachable { reason, header, data } => Icmpv6Repr::DstUnreachable { reason, header, data: adm(&header, data) },
        Icmpv6Repr::PktTooBig { mtu, header, data } => Icmpv6Repr::PktTooBig { mtu, header, data: adm(&header, data) },
        Icmpv6Repr::TimeExceeded { reason, header, data } => Icmpv6Repr::TimeExceeded { reason, header, data: adm(&header, data) },
        Icmpv6Repr::ParamProblem { reason, pointer, header, data } => Icmpv6Repr::ParamProblem { reason, pointer, header, data: adm(&header, data) },
        other => other,
    }
}

pub struct Icmp6;
fn v6pairs(tier: Tier) -> Vec<(Ipv6Address, Ipv6Address)> {
    let a = v6s();
    pick(tier, &[(a[0], a[1]), (a[3], a[8]), (a[2], a[6])], 2)
}
impl Rt for Icmp6 {
    const NAME: &'static str = "Icmpv6Repr";
    type R<'x> = Icmpv6Repr<'x>;
    type Ctx = (Ipv6Address, Ipv6Address, Ck);
    fn nchunks(tier: Tier) -> usize {
        v6pairs(tier).len() * CK_ALL.len()
    }
    fn chunk(tier: Tier, i: usize) -> Vec<(Icmpv6Repr<'static>, Self::Ctx)> {
        let m = CK_ALL[i % CK_ALL.len()];
        let c = v6pairs(tier)[i / CK_ALL.len()];
        let c = (c.0, c.1, m);
        let mut v = vec![];
        for id in pick(tier, &U16S, 2) {
            for sq in pick(tier, &U16S, 2) {
                for l in pick(tier, &[0usize, 1, 1232, 2, 3], 3) {
                    v.push(Icmpv6Repr::EchoRequest { ident: id, seq_no: sq, data: pat(l) });
                    v.push(Icmpv6Repr::EchoReply { ident: id, seq_no: sq, data: pat(l) });
                }
            }
        }
        let mut du: Vec<Icmpv6DstUnreachable> = (0..7u8).map(Icmpv6DstUnreachable::from).collect();
        du.push(Icmpv6DstUnreachable::Unknown(7));
        du.push(Icmpv6DstUnreachable::Unknown(255));
        let te = [Icmpv6TimeExceeded::HopLimitExceeded, Icmpv6TimeExceeded::FragReassemExceeded, Icmpv6TimeExceeded::Unknown(2), Icmpv6TimeExceeded::Unknown(255)];
        let pp = [Icmpv6ParamProblem::ErroneousHdrField, Icmpv6ParamProblem::UnrecognizedNxtHdr, Icmpv6ParamProblem::UnrecognizedOption, Icmpv6ParamProblem::Unknown(3), Icmpv6ParamProblem::Unknown(255)];
        // 1192 = 1280 - 40 - 8 - 40: the longest error payload that is not cut; beyond it the
        // quoted packet is cut to what buffer_len() admits (expected value: see `cut`)
        for l in pick(tier, &[8usize, 0, 1192, 1193, 2000, 1232, 1233, 1, 1200, 1500], 7) {
            for hl in pick(tier, &[l, 0, 65535], 2) {
                for h in v6hdrs(tier, hl) {
                    for r in pick(tier, &du, 3) {
                        v.push(Icmpv6Repr::DstUnreachable { reason: r, header: h, data: pat(l) });
                    }
                    for mtu in pick(tier, &U32S, 2) {
                        v.push(Icmpv6Repr::PktTooBig { mtu, header: h, data: pat(l) });
                    }
                    for r in pick(tier, &te, 2) {
                        v.push(Icmpv6Repr::TimeExceeded { reason: r, header: h, data: pat(l) });
                    }
                    for r in pick(tier, &pp, 2) {
                        for p in pick(tier, &U32S, 2) {
                            v.push(Icmpv6Repr::ParamProblem { reason: r, pointer: p, header: h, data: pat(l) });
                        }
                    }
                }
            }
        }
        // the NDISC / MLD domains are enumerated in full under their own types; inside
        // Icmpv6Repr (checksum + dispatch) every 7th / 5th value of them
        for (j, n) in ndisc_domain(tier).into_iter().enumerate() {
            if j % 7 == 0 || j < 3 {
                v.push(Icmpv6Repr::Ndisc(n));
            }
        }
        for (j, m) in mld_domain(tier).into_iter().enumerate() {
            if j % 5 == 0 || j < 3 {
                v.push(Icmpv6Repr::Mld(m));
            }
        }
        v.into_iter().map(|r| (r, c)).collect()
    }
    fn blen(r: &Icmpv6Repr, _: &Self::Ctx) -> usize {
        match r {
            Icmpv6Repr::Mld(m) => mld_blen(m),
            _ => r.buffer_len(),
        }
    }
    fn emit(r: &Icmpv6Repr, c: &Self::Ctx, buf: &mut [u8]) {
        let mut p = Icmpv6Packet::new_unchecked(buf);
        r.emit(&c.0, &c.1, &mut p, &c.2.emit_caps(Proto::Icmpv6));
        if c.2.device_fills() {
            p.fill_checksum(&c.0, &c.1);
        }
    }
    fn parse(b: &[u8], c: &Self::Ctx, s: bool, k: &mut dyn FnMut(Option<&Icmpv6Repr<'_>>)) {
        let r = Icmpv6Packet::new_checked(b).ok().and_then(|p| Icmpv6Repr::parse(&c.0, &c.1, &p, &c.2.parse_caps(Proto::Icmpv6, s)).ok());
        k(r.as_ref())
    }
    fn base_ctx(c: &Self::Ctx) -> Option<Self::Ctx> {
        (c.2 != Ck::Default).then_some((c.0, c.1, Ck::Default))
    }
    fn ctx_tag(c: &Self::Ctx) -> String {
        c.2.name().into()
    }
    fn tx_off(c: &Self::Ctx) -> bool {
        c.2.tx_off()
    }
    fn same(a: &Icmpv6Repr, b: &Icmpv6Repr, _: &Self::Ctx) -> bool {
        match (a, b) {
            (Icmpv6Repr::Mld(x), Icmpv6Repr::Mld(y)) => mld_same(x, y),
            // expected value = the value with its quoted payload cut to what buffer_len() admits
            _ => cut(a) == *b,
        }
    }
    fn show_lhs(r: &Icmpv6Repr) -> String {
        format!("{:#?}", cut(r))
    }
    fn tag(r: &Icmpv6Repr) -> String {
        match r {
            Icmpv6Repr::DstUnreachable { .. } => "DstUnreachable".into(),
            Icmpv6Repr::PktTooBig { .. } => "PktTooBig".into(),
            Icmpv6Repr::TimeExceeded { .. } => "TimeExceeded".into(),
            Icmpv6Repr::ParamProblem { .. } => "ParamProblem".into(),
            Icmpv6Repr::EchoRequest { .. } => "EchoRequest".into(),
            Icmpv6Repr::EchoReply { .. } => "EchoReply".into(),
            Icmpv6Repr::Ndisc(n) => format!("Ndisc-{}", ndisc_tag(n)),
            Icmpv6Repr::Mld(m) => format!("Mld-{}", mld_tag(m)),
            _ => "other".into(),
        }
    }
    fn cksum(_: &Icmpv6Repr) -> Option<std::ops::Range<usize>> {
        Some(2..4)
    }
    fn sig_tag(r: &Icmpv6Repr) -> String {
        match r {
            Icmpv6Repr::Ndisc(_) => "Ndisc".into(),
            Icmpv6Repr::Mld(_) => "Mld".into(),
            _ => Self::tag(r),
        }
    }
    fn dirty_cause(r: &Icmpv6Repr, off: &[usize]) -> Option<Vec<String>> {
        match r {
            Icmpv6Repr::Ndisc(n) => explain(ndisc_dirty(n), off),
            Icmpv6Repr::DstUnreachable { .. } | Icmpv6Repr::TimeExceeded { .. } if off == [4, 5, 6, 7] => Some(vec!["unused-field".into()]),
            _ => None,
        }
    }
    fn mut_params(tier: Tier) -> (usize, usize) {
        match tier {
            Tier::Quick => (64, 120),
            Tier::Thorough => (300, 120),
        }
    }
    fn domain_doc() -> &'static str {
        "per (src,dst) pseudo-header pair (3 pairs: link-local->multicast, global->ULA, unspecified->solicited-node): Echo request/reply (ident, seq_no in {0,1,0x8000,0xffff}, data length {0,1,2,3,1232}); DstUnreachable (7 known codes + Unknown(7), Unknown(255)), PktTooBig (mtu {0,1,2^31,2^32-1}), TimeExceeded (2 known + 2 unknown), ParamProblem (3 known + 2 unknown x pointer(4)), each x embedded Ipv6Repr (3 address pairs x 3 next headers x hop {0,64,255} x payload_len {data.len(),0,65535}) x data length {0,1,8,1192 = longest uncut, and 1193,1200,1232,1233,1500,2000 beyond the cut: emitted into exactly buffer_len() bytes, expected parse result = the value with data cut to buffer_len()-48 bytes}; plus every 7th NDISC value and every 5th MLD value of the NdiscRepr / MldRepr domains wrapped in Icmpv6Repr; x checksum capabilities of this protocol {default; None; Tx; Rx with the harness filling the checksum as the device would; emit default / parse None; emit Rx / parse Tx}, each emitted and parsed under that configuration"
    }
}

// ----------------------------------------------------------------------------------- NDISC
pub struct Ndisc;
impl Rt for Ndisc {
    const NAME: &'static str = "NdiscRepr";
    type R<'x> = NdiscRepr<'x>;
    type Ctx = ();
    fn chunk(tier: Tier, _i: usize) -> Vec<(NdiscRepr<'static>, ())> {
        ndisc_domain(tier).into_iter().map(|r| (r, ())).collect()
    }
    fn blen(r: &NdiscRepr, _: &()) -> usize {
        r.buffer_len()
    }
    fn emit(r: &NdiscRepr, _: &(), buf: &mut [u8]) {
        r.emit(&mut Icmpv6Packet::new_unchecked(&mut *buf));
        // the checksum field belongs to the enclosing Icmpv6Repr::emit, which always writes
        // it after this call; the harness stands in for it
        buf[2..4].copy_from_slice(&[0, 0]);
    }
    fn parse(b: &[u8], _: &(), _s: bool, k: &mut dyn FnMut(Option<&NdiscRepr<'_>>)) {
        let r = Icmpv6Packet::new_checked(b).ok().and_then(|p| NdiscRepr::parse(&p).ok());
        k(r.as_ref())
    }
    fn same(a: &NdiscRepr, b: &NdiscRepr, _: &()) -> bool {
        a == b
    }
    fn tag(r: &NdiscRepr) -> String {
        ndisc_tag(r).into()
    }
    fn sig_tag(_: &NdiscRepr) -> String {
        String::new()
    }
    fn dirty_cause(r: &NdiscRepr, off: &[usize]) -> Option<Vec<String>> {
        explain(ndisc_dirty(r), off)
    }
    fn mut_params(tier: Tier) -> (usize, usize) {
        match tier {
            Tier::Quick => (64, 140),
            Tier::Thorough => (300, 140),
        }
    }
    fn domain_doc() -> &'static str {
        "lladdr in {None, Ethernet 6-byte, IEEE 802.15.4 extended 8-byte} (the two lengths RawHardwareAddress::parse knows); RouterSolicit{lladdr}; RouterAdvert{hop_limit(4) x flags(4 combinations) x router_lifetime {0,1,65535 s} x reachable_time {0,1,2^32-1 ms} x retrans_time {0,2^32-1 ms} x lladdr(3) x mtu {None,0,1500,2^32-1} x prefix_info {None, 3 values}}; NeighborSolicit{target(13) x lladdr}; NeighborAdvert{flags (8 combinations) x target x lladdr}; Redirect{target x dest(13) x lladdr x redirected_hdr {None, data length {0,3,7,8,9,15,16,17,40} (around the 8-octet alignment of the option) with header.payload_len = data.len()}}; emitted through Icmpv6Packet without the checksum step (that step is covered by Icmpv6Repr)"
    }
}

// ---------------------------------------------------------------------------- NDISC options
pub struct NdOpt;
impl Rt for NdOpt {
    const NAME: &'static str = "NdiscOptionRepr";
    type R<'x> = NdiscOptionRepr<'x>;
    type Ctx = ();
    fn chunk(tier: Tier, _i: usize) -> Vec<(NdiscOptionRepr<'static>, ())> {
        let mut v = vec![];
        for l in lladdrs().into_iter().flatten() {
            v.push(NdiscOptionRepr::SourceLinkLayerAddr(l));
            v.push(NdiscOptionRepr::TargetLinkLayerAddr(l));
        }
        let pf = [NdiscPrefixInfoFlags::empty(), NdiscPrefixInfoFlags::ON_LINK | NdiscPrefixInfoFlags::ADDRCONF, NdiscPrefixInfoFlags::ON_LINK, NdiscPrefixInfoFlags::ADDRCONF];
        for pl in pick(tier, &[0u8, 128, 64, 255], 2) {
            for f in pick(tier, &pf, 2) {
                for vl in pick(tier, &[0u64, 0xffff_ffff, 1], 2) {
                    for pr in pick(tier, &[0xffff_ffffu64, 0, 1], 2) {
                        for p in pick(tier, &v6s(), 2) {
                            v.push(NdiscOptionRepr::PrefixInformation(NdiscPrefixInformation {
                                prefix_len: pl,
                                flags: f,
                                valid_lifetime: Duration::from_secs(vl),
                                preferred_lifetime: Duration::from_secs(pr),
                                prefix: p,
                            }));
                        }
                    }
                }
            }
        }
        // around the 8-octet alignment (8k-1, 8k, 8k+1) and at the largest option the length
        // octet admits: 8+40+1992 = 255*8
        for l in pick(tier, &[0usize, 8, 7, 9, 1992, 3, 1, 40, 15, 16, 17, 1200, 1991, 1985], 5) {
            for h in v6hdrs(tier, l) {
                v.push(NdiscOptionRepr::RedirectedHeader(NdiscRedirectedHeader { header: h, data: pat(l) }));
            }
        }
        for m in U32S {
            v.push(NdiscOptionRepr::Mtu(m));
        }
        // Unknown: any type the parser does not interpret, length >= 1 (0 is invalid on the
        // wire), data = the length*8-2 bytes the option format leaves
        for t in pick(tier, &[0u8, 255, 6, 14], 2) {
            for l in pick(tier, &[1u8, 255, 2], 2) {
                v.push(NdiscOptionRepr::Unknown { type_: t, length: l, data: pat(l as usize * 8 - 2) });
            }
        }
        v.into_iter().map(|r| (r, ())).collect()
    }
    fn blen(r: &NdiscOptionRepr, _: &()) -> usize {
        r.buffer_len()
    }
    fn emit(r: &NdiscOptionRepr, _: &(), buf: &mut [u8]) {
        r.emit(&mut NdiscOption::new_unchecked(buf))
    }
    fn parse(b: &[u8], _: &(), _s: bool, k: &mut dyn FnMut(Option<&NdiscOptionRepr<'_>>)) {
        let r = NdiscOption::new_checked(b).ok().and_then(|o| NdiscOptionRepr::parse(&o).ok());
        k(r.as_ref())
    }
    fn same(a: &NdiscOptionRepr, b: &NdiscOptionRepr, _: &()) -> bool {
        a == b
    }
    fn tag(r: &NdiscOptionRepr) -> String {
        match r {
            NdiscOptionRepr::SourceLinkLayerAddr(_) => "SourceLinkLayerAddr",
            NdiscOptionRepr::TargetLinkLayerAddr(_) => "TargetLinkLayerAddr",
            NdiscOptionRepr::PrefixInformation(_) => "PrefixInformation",
            NdiscOptionRepr::RedirectedHeader(_) => "RedirectedHeader",
            NdiscOptionRepr::Mtu(_) => "Mtu",
            NdiscOptionRepr::Unknown { .. } => "Unknown",
        }
        .into()
    }
    fn sig_tag(_: &NdiscOptionRepr) -> String {
        String::new()
    }
    fn dirty_cause(r: &NdiscOptionRepr, off: &[usize]) -> Option<Vec<String>> {
        let mut exp = vec![];
        ndopt_dirty(r, 0, &mut exp);
        explain(exp, off)
    }
    fn mut_params(tier: Tier) -> (usize, usize) {
        match tier {
            Tier::Quick => (64, 100),
            Tier::Thorough => (300, 100),
        }
    }
    fn domain_doc() -> &'static str {
        "Source/TargetLinkLayerAddr (6- and 8-byte addresses); PrefixInformation{prefix_len {0,64,128,255} x flags(4) x valid_lifetime {0,1,2^32-1 s} x preferred_lifetime (same) x prefix(13)}; RedirectedHeader{embedded Ipv6Repr(27) x data length {0,1,3,7,8,9,15,16,17,40,1200,1985,1991,1992} (8k-1, 8k, 8k+1 around the option's 8-octet unit; 1992 = the largest the length octet admits), header.payload_len = data.len()}; Mtu {0,1,2^31,2^32-1}; Unknown{type {0,6,14,255} x length {1,2,255} with data.len() = 8*length-2}"
    }
}

// ------------------------------------------------------------------------------------- MLD
pub struct Mld;
impl Rt for Mld {
    const NAME: &'static str = "MldRepr";
    type R<'x> = MldRepr<'x>;
    type Ctx = ();
    fn chunk(tier: Tier, _i: usize) -> Vec<(MldRepr<'static>, ())> {
        mld_domain(tier).into_iter().map(|r| (r, ())).collect()
    }
    fn blen(r: &MldRepr, _: &()) -> usize {
        mld_blen(r)
    }
    fn emit(r: &MldRepr, _: &(), buf: &mut [u8]) {
        r.emit(&mut Icmpv6Packet::new_unchecked(&mut *buf));
        // checksum field: see NdiscRepr
        buf[2..4].copy_from_slice(&[0, 0]);
    }
    fn parse(b: &[u8], _: &(), _s: bool, k: &mut dyn FnMut(Option<&MldRepr<'_>>)) {
        let r = Icmpv6Packet::new_checked(b).ok().and_then(|p| MldRepr::parse(&p).ok());
        k(r.as_ref())
    }
    fn same(a: &MldRepr, b: &MldRepr, _: &()) -> bool {
        mld_same(a, b)
    }
    fn tag(r: &MldRepr) -> String {
        mld_tag(r).into()
    }
    fn mut_params(tier: Tier) -> (usize, usize) {
        match tier {
            Tier::Quick => (64, 140),
            Tier::Thorough => (300, 140),
        }
    }
    fn domain_doc() -> &'static str {
        "Query{max_resp_code {0,1,0x8000,0xffff} x mcast_addr {ff02::1, ::, ff05::1:3} x s_flag x qrv {0,1,7} (3-bit field) x qqic {0,1,255} x 0..2 source addresses (num_srcs = number of 16-byte sources in data)}; Report{nr_mcast_addr_rcrds, data} with (0,0), (1,20), (2,40), (1,36 = one record with one source), (0xffff,20); ReportRecordReprs with 0, 1 (each of the 6 record types), 2 and 6 address records"
    }
}

// ----------------------------------------------------------------------- MLD address record
/// `buffer_len()` excludes the payload (sources + auxiliary data), `emit` does not write it:
/// declared length = 20 + payload.len(), payload copied in by the harness.
pub struct MldRec;
impl Rt for MldRec {
    const NAME: &'static str = "MldAddressRecordRepr";
    type R<'x> = MldAddressRecordRepr<'x>;
    type Ctx = ();
    fn chunk(tier: Tier, _i: usize) -> Vec<(MldAddressRecordRepr<'static>, ())> {
        let mut rt: Vec<MldRecordType> = (1..=6u8).map(MldRecordType::from).collect();
        rt.push(MldRecordType::Unknown(0));
        rt.push(MldRecordType::Unknown(255));
        let groups = [Ipv6Address::new(0xff02, 0, 0, 0, 0, 0, 0, 1), Ipv6Address::new(0xff05, 0, 0, 0, 0, 0, 1, 3), Ipv6Address::new(0xffff, 0xffff, 0xffff, 0xffff, 0xffff, 0xffff, 0xffff, 0xffff)];
        let mut v = vec![];
        for t in pick(tier, &rt, 3) {
            for g in pick(tier, &groups, 2) {
                for (n, aux, l) in pick(tier, &[(0u16, 0u8, 0usize), (1, 0, 16), (2, 1, 36), (0xffff, 255, 4)], 3) {
                    v.push((MldAddressRecordRepr { record_type: t, aux_data_len: aux, num_srcs: n, mcast_addr: g, payload: pat(l) }, ()));
                }
            }
        }
        v
    }
    fn blen(r: &MldAddressRecordRepr, _: &()) -> usize {
        r.buffer_len() + r.payload.len()
    }
    fn emit(r: &MldAddressRecordRepr, _: &(), buf: &mut [u8]) {
        let mut p = MldAddressRecord::new_unchecked(&mut *buf);
        r.emit(&mut p);
        p.payload_mut().copy_from_slice(r.payload);
    }
    fn parse(b: &[u8], _: &(), _s: bool, k: &mut dyn FnMut(Option<&MldAddressRecordRepr<'_>>)) {
        let r = MldAddressRecord::new_checked(b).ok().and_then(|p| MldAddressRecordRepr::parse(&p).ok());
        k(r.as_ref())
    }
    fn same(a: &MldAddressRecordRepr, b: &MldAddressRecordRepr, _: &()) -> bool {
        a == b
    }
    fn legal(r: &MldAddressRecordRepr, _: &()) -> bool {
        // `set_mcast_addr` documents a panic for a non-multicast address: outside the field's range
        r.mcast_addr.is_multicast()
    }
    fn domain_doc() -> &'static str {
        "record_type (6 known + Unknown(0), Unknown(255)) x multicast address(3; non-multicast is documented to panic) x (num_srcs, aux_data_len, payload length) in {(0,0,0),(1,0,16),(2,1,36),(0xffff,255,4)}"
    }
}

// ------------------------------------------------------------------------------------ IGMP
/// The maximum response time travels as an 8-bit code (RFC 3376 floating point form above
/// 12.7 s); only durations some code denotes are values of the field, and IGMPv1 queries
/// carry no response time (code 0 *is* the version marker), so the generator uses
/// {V1: 0} and {V2: the durations of a set of codes}.  The group is 0.0.0.0 or multicast
/// (anything else is rejected by the parser as not being IGMP at all).
pub struct Igmp;
fn code_ms(c: u8) -> u64 {
    let c = c as u64;
    let ds = if c < 128 { c } else { ((c & 0xf) | 0x10) << (((c >> 4) & 7) + 3) };
    ds * 100
}
impl Rt for Igmp {
    const NAME: &'static str = "IgmpRepr";
    type R<'x> = IgmpRepr;
    type Ctx = ();
    fn chunk(tier: Tier, _i: usize) -> Vec<(IgmpRepr, ())> {
        let groups = [Ipv4Address::new(224, 0, 0, 1), Ipv4Address::new(0, 0, 0, 0), Ipv4Address::new(239, 255, 255, 255), Ipv4Address::new(224, 0, 0, 22)];
        let codes: Vec<u8> = match tier {
            Tier::Quick => vec![1, 100, 127, 128, 0x8f, 0xff],
            Tier::Thorough => (1..=255).collect(),
        };
        let mut v = vec![];
        for g in pick(tier, &groups, 3) {
            v.push(IgmpRepr::MembershipQuery { max_resp_time: Duration::from_millis(0), group_addr: g, version: IgmpVersion::Version1 });
            for c in &codes {
                v.push(IgmpRepr::MembershipQuery { max_resp_time: Duration::from_millis(code_ms(*c)), group_addr: g, version: IgmpVersion::Version2 });
            }
            v.push(IgmpRepr::MembershipReport { group_addr: g, version: IgmpVersion::Version1 });
            v.push(IgmpRepr::MembershipReport { group_addr: g, version: IgmpVersion::Version2 });
            v.push(IgmpRepr::LeaveGroup { group_addr: g });
        }
        v.into_iter().map(|r| (r, ())).collect()
    }
    fn blen(r: &IgmpRepr, _: &()) -> usize {
        r.buffer_len()
    }
    fn emit(r: &IgmpRepr, _: &(), buf: &mut [u8]) {
        r.emit(&mut IgmpPacket::new_unchecked(buf))
    }
    fn parse(b: &[u8], _: &(), _s: bool, k: &mut dyn FnMut(Option<&IgmpRepr>)) {
        let r = IgmpPacket::new_checked(b).ok().and_then(|p| IgmpRepr::parse(&p).ok());
        k(r.as_ref())
    }
    fn same(a: &IgmpRepr, b: &IgmpRepr, _: &()) -> bool {
        a == b
    }
    fn tag(r: &IgmpRepr) -> String {
        match r {
            IgmpRepr::MembershipQuery { .. } => "MembershipQuery",
            IgmpRepr::MembershipReport { .. } => "MembershipReport",
            IgmpRepr::LeaveGroup { .. } => "LeaveGroup",
        }
        .into()
    }
    fn cksum(_: &IgmpRepr) -> Option<std::ops::Range<usize>> {
        Some(2..4)
    }
    fn dirty_cause(_: &IgmpRepr, off: &[usize]) -> Option<Vec<String>> {
        if off == [1] {
            Some(vec!["max-resp-code-byte".into()])
        } else {
            None
        }
    }
    fn mut_params(tier: Tier) -> (usize, usize) {
        match tier {
            Tier::Quick => (48, 64),
            Tier::Thorough => (200, 64),
        }
    }
    fn domain_doc() -> &'static str {
        "group in {224.0.0.1, 0.0.0.0, 239.255.255.255, 224.0.0.22} x {MembershipQuery v1 (max_resp_time 0), MembershipQuery v2 with the duration of every max-resp code 1..=255 (quick: 6 codes around the linear/exponential boundary), MembershipReport v1/v2, LeaveGroup}"
    }
}

/// Values outside the enumerated domain (see `super::probe`).
pub fn observations() -> Vec<serde_json::Value> {
    let h4 = |l| Ipv4Repr { src_addr: v4s()[0], dst_addr: v4s()[5], next_header: IpProtocol::Udp, payload_len: l, hop_limit: 64 };
    let h6 = |l| Ipv6Repr { src_addr: v6s()[0], dst_addr: v6s()[3], next_header: IpProtocol::Udp, payload_len: l, hop_limit: 64 };
    vec![
        super::probe::<Icmp4>(&Icmpv4Repr::DstUnreachable { reason: Icmpv4DstUnreachable::PortUnreachable, header: h4(100), data: pat(8) }, &Ck::Default),
        super::probe::<Icmp4>(&Icmpv4Repr::TimeExceeded { reason: Icmpv4TimeExceeded::TtlExpired, header: h4(4), data: pat(4) }, &Ck::Default),
        super::probe::<NdOpt>(&NdiscOptionRepr::RedirectedHeader(NdiscRedirectedHeader { header: h6(100), data: pat(8) }), &()),
        super::probe::<NdOpt>(&NdiscOptionRepr::SourceLinkLayerAddr(RawHardwareAddress::from_bytes(&[0x12, 0x34])), &()),
        super::probe::<Igmp>(&IgmpRepr::MembershipQuery { max_resp_time: Duration::from_millis(0), group_addr: v4s()[3], version: IgmpVersion::Version2 }, &()),
        super::probe::<Igmp>(&IgmpRepr::MembershipQuery { max_resp_time: Duration::from_millis(12850), group_addr: v4s()[3], version: IgmpVersion::Version2 }, &()),
        super::probe::<Igmp>(&IgmpRepr::MembershipReport { group_addr: v4s()[0], version: IgmpVersion::Version2 }, &()),
        super::probe::<MldRec>(&MldAddressRecordRepr { record_type: MldRecordType::ModeIsInclude, aux_data_len: 0, num_srcs: 0, mcast_addr: v6s()[0], payload: pat(0) }, &()),
    ]
}
