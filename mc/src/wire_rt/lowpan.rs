//! 6LoWPAN: IPHC, NHC extension header, NHC UDP, fragment header
use super::alpha::*;
use super::{Ck, Proto, Rt};
use crate::core::Tier;
use smoltcp::wire::*;

type Ll = Option<Ieee802154Address>;
const E1: [u8; 8] = [0x02, 0x11, 0x22, 0x33, 0x44, 0x55, 0x66, 0x77];
const E2: [u8; 8] = [0xff, 0xfe, 0xfd, 0xfc, 0xfb, 0xfa, 0xf9, 0xf8];
const S1: [u8; 2] = [0x12, 0x34];

fn lls() -> Vec<Ll> {
    vec![
        Some(Ieee802154Address::Extended(E1)),
        None,
        Some(Ieee802154Address::Short(S1)),
        Some(Ieee802154Address::Absent),
        Some(Ieee802154Address::Short([0xff, 0xff])),
        Some(Ieee802154Address::Extended(E2)),
    ]
}
fn contexts() -> Vec<Vec<SixlowpanAddressContext>> {
    vec![
        vec![],
        vec![SixlowpanAddressContext([0x20, 0x01, 0x0d, 0xb8, 0, 0, 0, 1])],
        vec![SixlowpanAddressContext([0x20, 0x01, 0x0d, 0xb8, 0, 0, 0, 1]), SixlowpanAddressContext([0xfd, 0, 0, 0, 0, 0, 0, 2])],
    ]
}

/// in fe80::/10 but not in fe80::/64
fn wide_ll(a: &Ipv6Address) -> bool {
    let o = a.octets();
    o[0] == 0xfe && o[1] & 0xc0 == 0x80 && o[..8] != [0xfe, 0x80, 0, 0, 0, 0, 0, 0]
}

fn ucast_class(a: &Ipv6Address) -> &'static str {
    let o = a.octets();
    if o == [0; 16] {
        "unspecified"
    } else if o[..8] == [0xfe, 0x80, 0, 0, 0, 0, 0, 0] {
        "fe80-64"
    } else if wide_ll(a) {
        "fe80-10-outside-fe80-64"
    } else {
        "full"
    }
}
/// fe80::/64 address whose link-layer address coincides with it in a way that is NOT one of
/// the two elision rules (short address <-> 0000:00ff:fe00:XXXX, extended address <-> EUI-64)
fn coincidence(a: &Ipv6Address, ll: &Ll) -> Option<&'static str> {
    let o = a.octets();
    if o[..8] != [0xfe, 0x80, 0, 0, 0, 0, 0, 0] {
        return None;
    }
    let short_form = o[8..14] == [0, 0, 0, 0xff, 0xfe, 0];
    match ll {
        Some(Ieee802154Address::Short(x)) if *x == [o[14], o[15]] && !short_form => Some("ll-short-equals-low16-of-other-iid"),
        Some(Ieee802154Address::Extended(e)) if short_form => {
            let mut eui = *e;
            eui[0] ^= 0x02;
            if eui[..] == o[8..] {
                Some("ll-extended-whose-eui64-has-short-form")
            } else {
                None
            }
        }
        _ => None,
    }
}

// ----------------------------------------------------------------------------------- IPHC
/// Ctx = (link-layer source, link-layer destination, address contexts) handed to `parse`;
/// for generated values the link-layer addresses are the Repr's own.
pub struct Iphc;
pub type IphcCtx = (Ll, Ll, Vec<SixlowpanAddressContext>);

/// fe80::/10 but not fe80::/64 ("link-local" by the prefix RFC 4291 reserves, yet not of the
/// fe80::/64 form the stateless IPHC modes can rebuild), with the three interface-identifier
/// forms the compressor distinguishes: derived from the extended link-layer address, the
/// 0000:00ff:fe00:XXXX short-address form, arbitrary
fn wide() -> [Ipv6Address; 5] {
    [
        Ipv6Address::new(0xfe80, 0, 0, 1, 0x0011, 0x2233, 0x4455, 0x6677), // IID = EUI-64 of E1
        Ipv6Address::new(0xfe90, 0, 0, 0, 0, 0xff, 0xfe00, 0x1234),        // IID = short form of S1
        Ipv6Address::new(0xfebf, 0xffff, 0, 0, 0, 0, 0, 1),                // arbitrary IID
        Ipv6Address::new(0xfe80, 0, 0, 1, 0, 0, 0, 0xabcd),
        Ipv6Address::new(0xfe90, 0, 0, 0, 0, 0xff, 0xfe00, 0xbeef),
    ]
}
/// unicast (and unspecified) addresses, used for source and destination alike
fn iphc_unicast(tier: Tier) -> Vec<Ipv6Address> {
    let w = wide();
    let all = [
        Ipv6Address::new(0xfe80, 0, 0, 0, 0x0011, 0x2233, 0x4455, 0x6677), // = EUI-64 of E1
        Ipv6Address::new(0, 0, 0, 0, 0, 0, 0, 0),
        Ipv6Address::new(0x2001, 0xdb8, 0, 0, 0, 0, 0, 1),
        Ipv6Address::new(0xfe80, 0, 0, 0, 0, 0xff, 0xfe00, 0x1234), // = short address S1
        Ipv6Address::new(0xfe80, 0, 0, 0, 0, 0, 0, 1),              // arbitrary IID, low 16 bits 0001
        w[0],
        w[1],
        w[2],
        Ipv6Address::new(0xfe80, 0, 0, 0, 0x0200, 0x00ff, 0xfe00, 0x1234), // short form with the U/L bit set
        Ipv6Address::new(0xfe80, 0, 0, 0, 0, 0xff, 0xfe00, 1),
        Ipv6Address::new(0xfe80, 0, 0, 0, 0x0200, 0xff, 0xfe00, 1),
        Ipv6Address::new(0xfe80, 0, 0, 0, 0, 0xff, 0xfe00, 0xffff),
        Ipv6Address::new(0, 0, 0, 0, 0, 0, 0, 1),
        w[3],
        w[4],
    ];
    pick(tier, &all, 9)
}
/// multicast destinations: the named forms, exactly one non-zero octet at every position
/// 2..=15, the same with a 16-bit group id behind it, and the largest member of each
/// compressed form (boundary on the other side)
fn iphc_multicast() -> Vec<Ipv6Address> {
    let mut v = vec![
        Ipv6Address::new(0xff02, 0, 0, 0, 0, 0, 0, 1),      // 8-bit form
        Ipv6Address::new(0xff0e, 1, 0, 0, 0, 0, 0, 1),      // no compressed form
        Ipv6Address::new(0xff02, 0, 0, 0, 0, 1, 0xff00, 1), // 48-bit form
        Ipv6Address::new(0xff05, 0, 0, 0, 0, 0, 1, 3),      // 32-bit form
        Ipv6Address::new(0xff02, 0, 0, 0, 0, 0, 0, 0xff),   // largest 8-bit form
        Ipv6Address::new(0xff01, 0, 0, 0, 0, 0, 0, 1),      // 8-bit shape but scope 1: 32-bit form
        Ipv6Address::new(0xffff, 0, 0, 0, 0, 0, 0xff, 0xffff),       // largest 32-bit form
        Ipv6Address::new(0xffff, 0, 0, 0, 0, 0xff, 0xffff, 0xffff),  // largest 48-bit form
        Ipv6Address::new(0xffff, 0xffff, 0xffff, 0xffff, 0xffff, 0xffff, 0xffff, 0xffff),
    ];
    for k in 2..=15usize {
        let mut o = [0u8; 16];
        o[0] = 0xff;
        o[1] = 0x35;
        o[k] = 0x80;
        v.push(Ipv6Address::from_octets(o)); // exactly one non-zero octet (RFC 3307 style ff35::/16)
        if k < 14 {
            o[14] = 0x12;
            o[15] = 0x34;
            v.push(Ipv6Address::from_octets(o)); // ... in front of a 16-bit group id
        }
        if k >= 13 {
            let mut o2 = [0u8; 16];
            o2[0] = 0xff;
            o2[1] = 0x02;
            o2[k] = 0x80;
            v.push(Ipv6Address::from_octets(o2)); // scope 2: around the 8-bit form
        }
    }
    v
}
/// link-layer addresses tried with IP address `a`: the fixed kinds plus the ones DERIVED from
/// `a` (where compressor and length computation have to agree on coincidences): the short
/// address equal to the low 16 bits, the extended address whose EUI-64 is the IID, and the
/// extended address 02:00:00:ff:fe:00:lo:hi whose EUI-64 looks like a short-address IID
fn iphc_lls(tier: Tier, a: &Ipv6Address) -> Vec<Ll> {
    let o = a.octets();
    let mut eui = [0u8; 8];
    eui.copy_from_slice(&o[8..]);
    eui[0] ^= 0x02;
    let mut v = vec![
        Some(Ieee802154Address::Short([o[14], o[15]])),
        Some(Ieee802154Address::Extended(eui)),
        Some(Ieee802154Address::Extended([0x02, 0, 0, 0xff, 0xfe, 0, o[14], o[15]])),
    ];
    for l in pick(tier, &lls(), 3) {
        if !v.contains(&l) {
            v.push(l);
        }
    }
    v
}
fn iphc_nhs(tier: Tier) -> Vec<SixlowpanNextHeader> {
    pick(
        tier,
        &[
            SixlowpanNextHeader::Compressed,
            SixlowpanNextHeader::Uncompressed(IpProtocol::Icmpv6),
            SixlowpanNextHeader::Uncompressed(IpProtocol::Udp),
            SixlowpanNextHeader::Uncompressed(IpProtocol::Unknown(0xfe)),
        ],
        2,
    )
}

impl Rt for Iphc {
    const NAME: &'static str = "SixlowpanIphcRepr";
    type R<'x> = SixlowpanIphcRepr;
    type Ctx = IphcCtx;
    fn nchunks(tier: Tier) -> usize {
        iphc_nhs(tier).len() * iphc_unicast(tier).len()
    }
    fn chunk(tier: Tier, i: usize) -> Vec<(SixlowpanIphcRepr, IphcCtx)> {
        let nhs = iphc_nhs(tier);
        let nh = nhs[i % nhs.len()];
        let s = iphc_unicast(tier)[i / nhs.len()];
        // traffic class / flow label: the four shapes the TF field has
        let tfs: [(Option<u8>, Option<u8>, Option<u16>); 4] = [(None, None, None), (Some(0x40), Some(0x3f), Some(0xffff)), (Some(0xc0), None, Some(0)), (Some(0), Some(0), None)];
        // destination x its link-layer addresses (for multicast the link-layer address plays
        // no role in the encoding: two kinds only)
        let mut dsts: Vec<(Ipv6Address, Vec<Ll>)> = iphc_unicast(tier).into_iter().map(|d| (d, iphc_lls(tier, &d))).collect();
        for d in iphc_multicast() {
            dsts.push((d, vec![Some(Ieee802154Address::Extended(E1)), None]));
        }
        let mut v = vec![];
        for ls in iphc_lls(tier, &s) {
            for (d, lds) in &dsts {
                for ld in lds {
                    for hl in pick(tier, &[64u8, 2, 1, 255, 0], 3) {
                        for tf in pick(tier, &tfs, 2) {
                            v.push((
                                SixlowpanIphcRepr { src_addr: s, ll_src_addr: ls, dst_addr: *d, ll_dst_addr: *ld, next_header: nh, hop_limit: hl, ecn: tf.0, dscp: tf.1, flow_label: tf.2 },
                                (ls, *ld, vec![]),
                            ));
                        }
                    }
                }
            }
        }
        v
    }
    fn blen(r: &SixlowpanIphcRepr, _: &IphcCtx) -> usize {
        r.buffer_len()
    }
    fn emit(r: &SixlowpanIphcRepr, _: &IphcCtx, buf: &mut [u8]) {
        r.emit(&mut SixlowpanIphcPacket::new_unchecked(buf));
    }
    fn parse(b: &[u8], c: &IphcCtx, _s: bool, k: &mut dyn FnMut(Option<&SixlowpanIphcRepr>)) {
        let r = SixlowpanIphcPacket::new_checked(b).ok().and_then(|p| SixlowpanIphcRepr::parse(&p, c.0, c.1, &c.2).ok());
        k(r.as_ref())
    }
    fn same(a: &SixlowpanIphcRepr, b: &SixlowpanIphcRepr, _: &IphcCtx) -> bool {
        a == b
    }
    fn tag(r: &SixlowpanIphcRepr) -> String {
        // which destination encoding class the value falls in (distinct emit code paths)
        let d = r.dst_addr.octets();
        if r.dst_addr.is_multicast() {
            if d[1] == 2 && d[2..15] == [0; 13] {
                "mcast8".into()
            } else if d[2..13] == [0; 11] {
                "mcast32".into()
            } else if d[2..11] == [0; 9] {
                "mcast48".into()
            } else {
                "mcast-full".into()
            }
        } else {
            ucast_class(&r.dst_addr).into()
        }
    }
    fn sig_tag_for(r: &SixlowpanIphcRepr, fields: &str) -> String {
        let mut t: Vec<String> = vec![];
        if fields.is_empty() {
            // panic / buffer dependence: name the address / link-layer address coincidences
            // (the places where length computation and emission must agree), if any
            // (which side shows it is in the detail text; the set of kinds keeps one defect
            // from spreading over src x dst combinations)
            for c in [coincidence(&r.src_addr, &r.ll_src_addr), coincidence(&r.dst_addr, &r.ll_dst_addr)].into_iter().flatten() {
                if !t.iter().any(|x| x == c) {
                    t.push(c.to_string());
                }
            }
            t.sort();
        } else {
            // a wrong address: the encoding class of that address only
            if fields.contains("src_addr") {
                t.push(format!("src-{}", ucast_class(&r.src_addr)));
            }
            if fields.contains("dst_addr") {
                t.push(format!("dst-{}", Self::tag(r)));
            }
        }
        t.join("+")
    }
    fn field_group(f: &str) -> String {
        match f {
            "ecn" | "dscp" | "flow_label" => "traffic_class_flow_label".into(),
            _ => f.into(),
        }
    }
    fn dirty_cause(r: &SixlowpanIphcRepr, off: &[usize]) -> Option<Vec<String>> {
        // buffer_len() counts 1/3/4 bytes for (ecn, dscp, flow_label) that emit (TF=0b11)
        // never writes: the last bytes of the buffer stay as they were
        let extra = match (r.ecn, r.dscp, r.flow_label) {
            (Some(_), Some(_), Some(_)) => 4,
            (Some(_), None, Some(_)) => 3,
            (Some(_), Some(_), None) => 1,
            _ => 0,
        };
        let n = r.buffer_len();
        if extra > 0 && off.iter().all(|&o| o >= n - extra) {
            Some(vec!["traffic-class-flow-label-bytes-unwritten".into()])
        } else {
            None
        }
    }
    fn mut_params(tier: Tier) -> (usize, usize) {
        match tier {
            Tier::Quick => (64, 64),
            Tier::Thorough => (300, 64),
        }
    }
    fn catalogue(tier: Tier) -> Vec<(Vec<u8>, IphcCtx)> {
        // every value of the 13 header bits after the 011 dispatch, followed by enough
        // in-line bytes for any mode; first in-line byte (the CID byte when CID=1) varied;
        // x link-layer address kinds x context tables
        let tails: Vec<u8> = pick(tier, &[0x00u8, 0x10, 0xf1], 1);
        let llp: Vec<(Ll, Ll)> = pick(
            tier,
            &[
                (Some(Ieee802154Address::Extended(E1)), Some(Ieee802154Address::Short(S1))),
                (None, None),
                (Some(Ieee802154Address::Short(S1)), Some(Ieee802154Address::Extended(E2))),
                (Some(Ieee802154Address::Absent), Some(Ieee802154Address::Absent)),
            ],
            2,
        );
        let ctxs = pick(tier, &[contexts()[2].clone(), contexts()[0].clone(), contexts()[1].clone()], 2);
        let mut v = vec![];
        for h in 0..8192u16 {
            for t in &tails {
                let mut b = vec![0x60 | (h >> 8) as u8, h as u8, *t];
                b.extend_from_slice(pat_at(17, 40));
                for ll in &llp {
                    for cx in &ctxs {
                        v.push((b.clone(), (ll.0, ll.1, cx.clone())));
                    }
                }
            }
        }
        v
    }
    fn domain_doc() -> &'static str {
        "emit side: src over 15 unicast kinds (:: ; global; ::1; fe80::/64 with IID = EUI-64 of an extended ll address, = short-address form 0000:00ff:fe00:XXXX (also with the U/L bit set: 0200:00ff:fe00:XXXX), arbitrary (fe80::1); 5 addresses in fe80::/10 outside fe80::/64 with the three IID forms) x ll_src over {Short(low 16 bits of the address), Extended(EUI-64 matching the IID), Extended(02:00:00:ff:fe:00:lo:hi), fixed: extended, None, short, Absent, broadcast short, other extended} x dst over the same unicast kinds (each with its derived + fixed ll_dst) and 47 multicast addresses (8/32/48-bit forms and their largest members, scope-1 and no-compressed-form cases, exactly one non-zero octet at every position 2..=15 alone and in front of a 16-bit group id, scope-2 variants around the 8-bit form; ll_dst in {extended, None}) x next_header {Compressed, Udp, Icmpv6, Unknown(0xfe)} x hop_limit {0,1,2,64,255} x (ecn,dscp,flow_label) in the four shapes of the TF field; parse side (hand-made catalogue): all 8192 IPHC base headers (every TF/NH/HLIM/CID/SAC/SAM/M/DAC/DAM combination) followed by in-line bytes, x 3 CID bytes x 4 link-layer address pairs (extended/short, none, short/extended, absent) x context tables of 2, 0 and 1 entries"
    }
}

// ------------------------------------------------------------------- NHC extension header
/// `buffer_len()` is the compressed header alone; the `length` bytes of extension header
/// content it announces follow it and belong to the caller (the interface writes them).
/// Declared length = `buffer_len()` + `length`, content pattern written by the harness
/// (the packet view's `check_len` may insist on the announced bytes being there).
pub struct NhcExt;
impl Rt for NhcExt {
    const NAME: &'static str = "SixlowpanExtHeaderRepr";
    type R<'x> = SixlowpanExtHeaderRepr;
    type Ctx = ();
    fn chunk(tier: Tier, _i: usize) -> Vec<(SixlowpanExtHeaderRepr, ())> {
        let ids = [
            SixlowpanExtHeaderId::HopByHopHeader,
            SixlowpanExtHeaderId::RoutingHeader,
            SixlowpanExtHeaderId::Header,
            SixlowpanExtHeaderId::FragmentHeader,
            SixlowpanExtHeaderId::DestinationOptionsHeader,
            SixlowpanExtHeaderId::MobilityHeader,
            SixlowpanExtHeaderId::Reserved,
        ];
        let nhs = [
            SixlowpanNextHeader::Compressed,
            SixlowpanNextHeader::Uncompressed(IpProtocol::Icmpv6),
            SixlowpanNextHeader::Uncompressed(IpProtocol::Udp),
            SixlowpanNextHeader::Uncompressed(IpProtocol::Unknown(0xfe)),
        ];
        let mut v = vec![];
        for id in pick(tier, &ids, 3) {
            for nh in pick(tier, &nhs, 2) {
                for l in pick(tier, &U8S, 2) {
                    v.push((SixlowpanExtHeaderRepr { ext_header_id: id, next_header: nh, length: l }, ()));
                }
            }
        }
        v
    }
    fn blen(r: &SixlowpanExtHeaderRepr, _: &()) -> usize {
        r.buffer_len() + r.length as usize
    }
    fn emit(r: &SixlowpanExtHeaderRepr, _: &(), buf: &mut [u8]) {
        let mut p = SixlowpanExtHeaderPacket::new_unchecked(&mut *buf);
        r.emit(&mut p);
        let n = p.payload_mut().len();
        p.payload_mut().copy_from_slice(pat(n));
    }
    fn parse(b: &[u8], _: &(), _s: bool, k: &mut dyn FnMut(Option<&SixlowpanExtHeaderRepr>)) {
        let r = SixlowpanExtHeaderPacket::new_checked(b).ok().and_then(|p| SixlowpanExtHeaderRepr::parse(&p).ok());
        k(r.as_ref())
    }
    fn same(a: &SixlowpanExtHeaderRepr, b: &SixlowpanExtHeaderRepr, _: &()) -> bool {
        a == b
    }
    fn domain_doc() -> &'static str {
        "ext_header_id (all 7) x next_header {Compressed, Icmpv6, Udp, Unknown(0xfe)} x length {0,1,64,255}; buffer = header + the `length` content bytes it announces (pattern written by the harness)"
    }
}

// -------------------------------------------------------------------------------- NHC UDP
/// Payload outside the Repr as for UDP: value = (repr, payload), declared length =
/// `header_len()` + payload.
/// no public way to fill the NHC checksum afterwards: the `RxDevice` mode is left out
const NHC_MODES: [Ck; 5] = [Ck::Default, Ck::None, Ck::Tx, Ck::DefaultThenNone, Ck::RxThenTx];
pub struct NhcUdp;
impl Rt for NhcUdp {
    const NAME: &'static str = "SixlowpanUdpNhcRepr";
    type R<'x> = (SixlowpanUdpNhcRepr, &'x [u8]);
    type Ctx = (Ipv6Address, Ipv6Address, Ck);
    fn nchunks(_tier: Tier) -> usize {
        NHC_MODES.len()
    }
    fn chunk(tier: Tier, i: usize) -> Vec<(Self::R<'static>, Self::Ctx)> {
        let m = NHC_MODES[i];
        // three classes: not compressible; 0xf0xx (8-bit form); 0xf0bx (4-bit form)
        let ports = [80u16, 0xf0b1, 0xf000, 0xf0bf, 0xf0ff, 1, 65535, 0xf0b0, 0xf0af, 0xf0c0, 0xefff, 0xf100];
        let a = v6s();
        let mut v = vec![];
        for c in pick(tier, &[(a[0], a[5]), (a[3], a[1])], 1) {
            for sp in pick(tier, &ports, 5) {
                for dp in pick(tier, &ports, 5) {
                    for l in pick(tier, &[0usize, 1, 100, 2, 3], 3) {
                        v.push(((SixlowpanUdpNhcRepr(UdpRepr { src_port: sp, dst_port: dp }), pat(l)), (c.0, c.1, m)));
                    }
                }
            }
        }
        v
    }
    fn blen(r: &Self::R<'_>, _: &Self::Ctx) -> usize {
        r.0.header_len() + r.1.len()
    }
    fn emit(r: &Self::R<'_>, c: &Self::Ctx, buf: &mut [u8]) {
        let pl = r.1;
        r.0.emit(&mut SixlowpanUdpNhcPacket::new_unchecked(buf), &c.0, &c.1, pl.len(), |p| p.copy_from_slice(pl), &c.2.emit_caps(Proto::Udp));
    }
    fn parse(b: &[u8], c: &Self::Ctx, s: bool, k: &mut dyn FnMut(Option<&Self::R<'_>>)) {
        let r = SixlowpanUdpNhcPacket::new_checked(b).ok().and_then(|p| SixlowpanUdpNhcRepr::parse(&p, &c.0, &c.1, &c.2.parse_caps(Proto::Udp, s)).ok().map(|r| (r, p.payload())));
        k(r.as_ref())
    }
    fn same(a: &Self::R<'_>, b: &Self::R<'_>, _: &Self::Ctx) -> bool {
        a.0 == b.0 && a.1 == b.1
    }
    fn base_ctx(c: &Self::Ctx) -> Option<Self::Ctx> {
        (c.2 != Ck::Default).then_some((c.0, c.1, Ck::Default))
    }
    fn ctx_tag(c: &Self::Ctx) -> String {
        c.2.name().into()
    }
    fn tx_off(c: &Self::Ctx) -> bool {
        c.2.tx_off()
    }
    fn cksum(r: &Self::R<'_>) -> Option<std::ops::Range<usize>> {
        // in-line checksum: the last two header octets
        let h = r.0.header_len();
        Some(h - 2..h)
    }
    fn tag(r: &Self::R<'_>) -> String {
        let class = |p: u16| match p {
            0xf0b0..=0xf0bf => "4bit",
            0xf000..=0xf0ff => "8bit",
            _ => "16bit",
        };
        format!("src{}-dst{}", class(r.0.src_port), class(r.0.dst_port))
    }
    fn field_group(f: &str) -> String {
        match f {
            "src_port" | "dst_port" => "ports".into(),
            _ => f.into(),
        }
    }
    fn sig_tag(r: &Self::R<'_>) -> String {
        // the encoding `emit` chooses (RFC 6282 P field)
        match (r.0.src_port, r.0.dst_port) {
            (0xf0b0..=0xf0bf, 0xf0b0..=0xf0bf) => "ports-4bit+4bit",
            (0xf000..=0xf0ff, _) => "ports-8bit+16bit",
            (_, 0xf000..=0xf0ff) => "ports-16bit+8bit",
            _ => "ports-16bit+16bit",
        }
        .into()
    }
    fn mut_params(tier: Tier) -> (usize, usize) {
        match tier {
            Tier::Quick => (64, 32),
            Tier::Thorough => (300, 32),
        }
    }
    fn domain_doc() -> &'static str {
        "(repr, payload): src_port x dst_port over {1, 80, 65535, 0xefff, 0xf100 (in-line), 0xf000, 0xf0af, 0xf0c0, 0xf0ff (8-bit form), 0xf0b0, 0xf0b1, 0xf0bf (4-bit form)} = all 3x3 port-class pairs with boundary values x payload length {0,1,2,3,100} x 2 pseudo-header address pairs x UDP checksum capabilities {default; None; Tx; emit default / parse None; emit Rx / parse Tx} (no Rx-with-device mode: nothing public fills the NHC checksum afterwards)"
    }
}

// ------------------------------------------------------------------------- fragment header
pub struct Frag;
impl Rt for Frag {
    const NAME: &'static str = "SixlowpanFragRepr";
    type R<'x> = SixlowpanFragRepr;
    type Ctx = ();
    fn chunk(tier: Tier, _i: usize) -> Vec<(SixlowpanFragRepr, ())> {
        let mut v = vec![];
        for size in pick(tier, &[1280u16, 0, 2047, 1], 3) {
            for tag in pick(tier, &U16S, 3) {
                v.push((SixlowpanFragRepr::FirstFragment { size, tag }, ()));
                for offset in pick(tier, &U8S, 3) {
                    v.push((SixlowpanFragRepr::Fragment { size, tag, offset }, ()));
                }
            }
        }
        v
    }
    fn blen(r: &SixlowpanFragRepr, _: &()) -> usize {
        r.buffer_len()
    }
    fn emit(r: &SixlowpanFragRepr, _: &(), buf: &mut [u8]) {
        r.emit(&mut SixlowpanFragPacket::new_unchecked(buf));
    }
    fn parse(b: &[u8], _: &(), _s: bool, k: &mut dyn FnMut(Option<&SixlowpanFragRepr>)) {
        let r = SixlowpanFragPacket::new_checked(b).ok().and_then(|p| SixlowpanFragRepr::parse(&p).ok());
        k(r.as_ref())
    }
    fn same(a: &SixlowpanFragRepr, b: &SixlowpanFragRepr, _: &()) -> bool {
        a == b
    }
    fn tag(r: &SixlowpanFragRepr) -> String {
        match r {
            SixlowpanFragRepr::FirstFragment { .. } => "FirstFragment",
            SixlowpanFragRepr::Fragment { .. } => "Fragment",
        }
        .into()
    }
    fn domain_doc() -> &'static str {
        "FirstFragment{size {0,1,1280,2047} (11-bit field) x tag {0,1,0x8000,0xffff}}; Fragment{same x offset {0,1,64,255}}"
    }
}
