//! IPv4, IPv6, IPv6 extension headers and options
use super::alpha::*;
use super::{Ck, Proto, Rt, CK_ALL};
use crate::core::Tier;
use smoltcp::wire::*;

// ----------------------------------------------------------------------------------- IPv4
/// `Ipv4Repr::buffer_len()` is the header only; a packet whose total length says
/// `payload_len` only passes `new_checked` with the payload present, so the declared length
/// is header + payload_len (as in the crate's own doc example).  The harness writes the
/// payload pattern (emit does not own those bytes).
pub struct V4;
impl Rt for V4 {
    const NAME: &'static str = "Ipv4Repr";
    type R<'x> = Ipv4Repr;
    type Ctx = Ck;
    fn nchunks(_tier: Tier) -> usize {
        CK_ALL.len()
    }
    fn chunk(tier: Tier, i: usize) -> Vec<(Ipv4Repr, Ck)> {
        let m = CK_ALL[i];
        let mut v = vec![];
        for s in pick(tier, &v4s(), 3) {
            for d in pick(tier, &v4s(), 3) {
                for p in pick(tier, &protos(), 4) {
                    for l in pick(tier, &[0usize, 1, 1480, 2, 3, 65515], 3) {
                        for h in pick(tier, &U8S, 2) {
                            v.push((Ipv4Repr { src_addr: s, dst_addr: d, next_header: p, payload_len: l, hop_limit: h }, m));
                        }
                    }
                }
            }
        }
        v
    }
    fn blen(r: &Ipv4Repr, _: &Ck) -> usize {
        r.buffer_len() + r.payload_len
    }
    fn emit(r: &Ipv4Repr, m: &Ck, buf: &mut [u8]) {
        let mut p = Ipv4Packet::new_unchecked(&mut *buf);
        r.emit(&mut p, &m.emit_caps(Proto::Ipv4));
        if m.device_fills() {
            p.fill_checksum();
        }
        let h = r.buffer_len();
        let n = buf.len() - h;
        buf[h..].copy_from_slice(pat(n));
    }
    fn parse(b: &[u8], m: &Ck, s: bool, k: &mut dyn FnMut(Option<&Ipv4Repr>)) {
        let r = Ipv4Packet::new_checked(b).ok().and_then(|p| Ipv4Repr::parse(&p, &m.parse_caps(Proto::Ipv4, s)).ok());
        k(r.as_ref())
    }
    fn same(a: &Ipv4Repr, b: &Ipv4Repr, _: &Ck) -> bool {
        a == b
    }
    fn base_ctx(m: &Ck) -> Option<Ck> {
        (*m != Ck::Default).then_some(Ck::Default)
    }
    fn ctx_tag(m: &Ck) -> String {
        m.name().into()
    }
    fn tx_off(m: &Ck) -> bool {
        m.tx_off()
    }
    fn cksum(_: &Ipv4Repr) -> Option<std::ops::Range<usize>> {
        Some(10..12)
    }
    fn mut_params(tier: Tier) -> (usize, usize) {
        match tier {
            Tier::Quick => (48, 64),
            Tier::Thorough => (400, 64),
        }
    }
    fn domain_doc() -> &'static str {
        "src(7 kinds) x dst(7) x next_header(12 known + Unknown(0xfe), Unknown(0xff)) x payload_len {0,1,2,3,1480,65515} x hop_limit {0,1,64,255} x checksum capabilities (ipv4) {default; Tx; None; Rx with the harness filling the checksum as the device would; emit default / parse None; emit Rx / parse Tx}; buffer = 20 + payload_len"
    }
}

// ----------------------------------------------------------------------------------- IPv6
pub struct V6;
impl Rt for V6 {
    const NAME: &'static str = "Ipv6Repr";
    type R<'x> = Ipv6Repr;
    type Ctx = ();
    fn chunk(tier: Tier, _i: usize) -> Vec<(Ipv6Repr, ())> {
        let mut v = vec![];
        for s in pick(tier, &v6s(), 3) {
            for d in pick(tier, &v6s(), 3) {
                for p in pick(tier, &protos(), 4) {
                    for l in pick(tier, &[0usize, 1, 1240, 2, 3, 65535], 3) {
                        for h in pick(tier, &U8S, 2) {
                            v.push((Ipv6Repr { src_addr: s, dst_addr: d, next_header: p, payload_len: l, hop_limit: h }, ()));
                        }
                    }
                }
            }
        }
        v
    }
    fn blen(r: &Ipv6Repr, _: &()) -> usize {
        r.buffer_len() + r.payload_len
    }
    fn emit(r: &Ipv6Repr, _: &(), buf: &mut [u8]) {
        r.emit(&mut Ipv6Packet::new_unchecked(&mut *buf));
        let h = r.buffer_len();
        let n = buf.len() - h;
        buf[h..].copy_from_slice(pat(n));
    }
    fn parse(b: &[u8], _: &(), _s: bool, k: &mut dyn FnMut(Option<&Ipv6Repr>)) {
        let r = Ipv6Packet::new_checked(b).ok().and_then(|p| Ipv6Repr::parse(&p).ok());
        k(r.as_ref())
    }
    fn same(a: &Ipv6Repr, b: &Ipv6Repr, _: &()) -> bool {
        a == b
    }
    fn mut_params(tier: Tier) -> (usize, usize) {
        match tier {
            Tier::Quick => (48, 64),
            Tier::Thorough => (400, 64),
        }
    }
    fn domain_doc() -> &'static str {
        "src(13 kinds: link-local, multicast, unspecified, global, loopback, EUI-derived, solicited-node, v4-mapped, ULA, site multicast, all-ones, two in fe80::/10 outside fe80::/64) x dst(13) x next_header(14) x payload_len {0,1,2,3,1240,65535} x hop_limit {0,1,64,255}; buffer = 40 + payload_len"
    }
}

// --------------------------------------------------------------- generic extension header
/// `Ipv6ExtHeaderRepr::header_len()` is 2 and `emit` writes only next-header and length;
/// the `data` the parser returns is the rest of the 8+8*length bytes, which the owner of the
/// header writes (the interface writes a hop-by-hop `Repr` there).  Declared length =
/// 8 + 8*length, `data` (exactly that long minus 2) is copied in by the harness.
pub struct ExtHdr;
impl Rt for ExtHdr {
    const NAME: &'static str = "Ipv6ExtHeaderRepr";
    type R<'x> = Ipv6ExtHeaderRepr<'x>;
    type Ctx = ();
    fn chunk(tier: Tier, _i: usize) -> Vec<(Ipv6ExtHeaderRepr<'static>, ())> {
        let mut v = vec![];
        for nh in pick(tier, &protos(), 4) {
            for len in pick(tier, &[0u8, 1, 255, 2], 2) {
                for off in pick(tier, &[0usize, 11], 1) {
                    v.push((Ipv6ExtHeaderRepr { next_header: nh, length: len, data: pat_at(off, len as usize * 8 + 6) }, ()));
                }
            }
        }
        v
    }
    fn blen(r: &Ipv6ExtHeaderRepr, _: &()) -> usize {
        8 + 8 * r.length as usize
    }
    fn emit(r: &Ipv6ExtHeaderRepr, _: &(), buf: &mut [u8]) {
        let mut h = Ipv6ExtHeader::new_unchecked(&mut *buf);
        r.emit(&mut h);
        h.payload_mut().copy_from_slice(r.data);
    }
    fn parse(b: &[u8], _: &(), _s: bool, k: &mut dyn FnMut(Option<&Ipv6ExtHeaderRepr<'_>>)) {
        let r = Ipv6ExtHeader::new_checked(b).ok().and_then(|h| Ipv6ExtHeaderRepr::parse(&h).ok());
        k(r.as_ref())
    }
    fn same(a: &Ipv6ExtHeaderRepr, b: &Ipv6ExtHeaderRepr, _: &()) -> bool {
        a == b
    }
    fn mut_params(tier: Tier) -> (usize, usize) {
        match tier {
            Tier::Quick => (48, 32),
            Tier::Thorough => (400, 32),
        }
    }
    fn domain_doc() -> &'static str {
        "next_header(14) x length {0,1,2,255} x 2 data patterns, data.len() = 8*length+6 (the only length the header format permits); buffer = 8+8*length"
    }
}

// ------------------------------------------------------------------------ fragment header
pub struct Frag;
impl Rt for Frag {
    const NAME: &'static str = "Ipv6FragmentRepr";
    type R<'x> = Ipv6FragmentRepr;
    type Ctx = ();
    fn chunk(tier: Tier, _i: usize) -> Vec<(Ipv6FragmentRepr, ())> {
        let mut v = vec![];
        for fo in pick(tier, &[0u16, 0x1fff, 1, 0x1000], 3) {
            for m in [false, true] {
                for id in pick(tier, &U32S, 3) {
                    v.push((Ipv6FragmentRepr { frag_offset: fo, more_frags: m, ident: id }, ()));
                }
            }
        }
        v
    }
    fn blen(r: &Ipv6FragmentRepr, _: &()) -> usize {
        r.buffer_len()
    }
    fn emit(r: &Ipv6FragmentRepr, _: &(), buf: &mut [u8]) {
        r.emit(&mut Ipv6FragmentHeader::new_unchecked(buf))
    }
    fn parse(b: &[u8], _: &(), _s: bool, k: &mut dyn FnMut(Option<&Ipv6FragmentRepr>)) {
        let r = Ipv6FragmentHeader::new_checked(b).ok().and_then(|h| Ipv6FragmentRepr::parse(&h).ok());
        k(r.as_ref())
    }
    fn same(a: &Ipv6FragmentRepr, b: &Ipv6FragmentRepr, _: &()) -> bool {
        a == b
    }
    fn domain_doc() -> &'static str {
        "frag_offset {0,1,0x1000,0x1fff} (13-bit field, unit 8 octets as the accessor returns it) x more_frags x ident {0,1,2^31,2^32-1}"
    }
}

// -------------------------------------------------------------------------------- options
pub fn option_alphabet(tier: Tier) -> Vec<Ipv6OptionRepr<'static>> {
    let all = [
        Ipv6OptionRepr::RouterAlert(Ipv6OptionRouterAlert::MulticastListenerDiscovery),
        Ipv6OptionRepr::PadN(0),
        Ipv6OptionRepr::Pad1,
        Ipv6OptionRepr::Unknown { type_: Ipv6OptionType::Unknown(0xc2), length: 4, data: pat(4) },
        Ipv6OptionRepr::PadN(4),
        Ipv6OptionRepr::RouterAlert(Ipv6OptionRouterAlert::Unknown(0xffff)),
        Ipv6OptionRepr::Unknown { type_: Ipv6OptionType::Rpl, length: 0, data: pat(0) },
        Ipv6OptionRepr::Unknown { type_: Ipv6OptionType::Unknown(0x3e), length: 1, data: pat(1) },
    ];
    pick(tier, &all, 4)
}
pub struct Opt;
impl Rt for Opt {
    const NAME: &'static str = "Ipv6OptionRepr";
    type R<'x> = Ipv6OptionRepr<'x>;
    type Ctx = ();
    fn chunk(tier: Tier, _i: usize) -> Vec<(Ipv6OptionRepr<'static>, ())> {
        let mut v = vec![(Ipv6OptionRepr::Pad1, ())];
        // incl. the PadN sizes that complete 8-octet alignment (total 2+n = 7, 8, 9)
        for n in pick(tier, &[0u8, 255, 6, 5, 7, 1, 2, 4, 254], 4) {
            v.push((Ipv6OptionRepr::PadN(n), ()));
        }
        for ra in [
            Ipv6OptionRouterAlert::MulticastListenerDiscovery,
            Ipv6OptionRouterAlert::Rsvp,
            Ipv6OptionRouterAlert::ActiveNetworks,
            Ipv6OptionRouterAlert::Unknown(3),
            Ipv6OptionRouterAlert::Unknown(0xffff),
        ] {
            v.push((Ipv6OptionRepr::RouterAlert(ra), ()));
        }
        // `Unknown` carries every type the build does not interpret (incl. the RPL option in
        // a build without proto-rpl); `data` is exactly `length` bytes (what the parser yields)
        for t in pick(tier, &[Ipv6OptionType::Unknown(0xc2), Ipv6OptionType::Rpl, Ipv6OptionType::Unknown(2), Ipv6OptionType::Unknown(0x3e), Ipv6OptionType::Unknown(0xff)], 3) {
            for l in pick(tier, &[0u8, 255, 6, 1, 2, 5, 7, 254], 4) {
                v.push((Ipv6OptionRepr::Unknown { type_: t, length: l, data: pat(l as usize) }, ()));
            }
        }
        v
    }
    fn blen(r: &Ipv6OptionRepr, _: &()) -> usize {
        r.buffer_len()
    }
    fn emit(r: &Ipv6OptionRepr, _: &(), buf: &mut [u8]) {
        r.emit(&mut Ipv6Option::new_unchecked(buf))
    }
    fn parse(b: &[u8], _: &(), _s: bool, k: &mut dyn FnMut(Option<&Ipv6OptionRepr<'_>>)) {
        let r = Ipv6Option::new_checked(b).ok().and_then(|o| Ipv6OptionRepr::parse(&o).ok());
        k(r.as_ref())
    }
    fn same(a: &Ipv6OptionRepr, b: &Ipv6OptionRepr, _: &()) -> bool {
        a == b
    }
    fn tag(r: &Ipv6OptionRepr) -> String {
        match r {
            Ipv6OptionRepr::Pad1 => "Pad1",
            Ipv6OptionRepr::PadN(_) => "PadN",
            Ipv6OptionRepr::RouterAlert(_) => "RouterAlert",
            Ipv6OptionRepr::Unknown { .. } => "Unknown",
            _ => "other",
        }
        .into()
    }
    fn mut_params(tier: Tier) -> (usize, usize) {
        match tier {
            Tier::Quick => (48, 40),
            Tier::Thorough => (400, 40),
        }
    }
    fn domain_doc() -> &'static str {
        "Pad1; PadN(n) n in {0,1,2,4,5,6,7 (around 8-octet alignment),254,255}; RouterAlert {MLD, RSVP, ActiveNetworks, Unknown(3), Unknown(0xffff)}; Unknown{type in {0xc2, Rpl(0x63, not interpreted in this build), 2, 0x3e, 0xff}, length {0,1,2,5,6,7,254,255}, data of exactly length bytes}"
    }
}

// ---------------------------------------------------------------------------- hop-by-hop
/// The `Repr` is the option area of the header (the 2 leading bytes are Ipv6ExtHeaderRepr's).
/// An empty option list is not a value of the domain: the option area of a hop-by-hop header
/// is at least 6 bytes, and the parser rejects an empty buffer.
pub struct Hbh;
impl Rt for Hbh {
    const NAME: &'static str = "Ipv6HopByHopRepr";
    type R<'x> = Ipv6HopByHopRepr<'x>;
    type Ctx = ();
    fn chunk(tier: Tier, _i: usize) -> Vec<(Ipv6HopByHopRepr<'static>, ())> {
        let al = option_alphabet(tier);
        // at most IPV6_HBH_MAX_OPTIONS (4 in the default build) options fit the Repr
        let maxn = match tier {
            Tier::Quick => 3,
            Tier::Thorough => 4,
        }
        .min(smoltcp::config::IPV6_HBH_MAX_OPTIONS);
        let mut v = vec![];
        let mut lists: Vec<Vec<usize>> = vec![vec![]];
        for _ in 0..maxn {
            let mut next = vec![];
            for l in &lists {
                for i in 0..al.len() {
                    let mut l2 = l.clone();
                    l2.push(i);
                    next.push(l2);
                }
            }
            for l in &next {
                let mut r = Ipv6HopByHopRepr { options: Default::default() };
                for &i in l {
                    r.options.push(al[i]).expect("HBH option capacity");
                }
                v.push((r, ()));
            }
            lists = next;
        }
        v
    }
    fn blen(r: &Ipv6HopByHopRepr, _: &()) -> usize {
        r.buffer_len()
    }
    fn emit(r: &Ipv6HopByHopRepr, _: &(), buf: &mut [u8]) {
        r.emit(&mut Ipv6HopByHopHeader::new_unchecked(buf))
    }
    fn parse(b: &[u8], _: &(), _s: bool, k: &mut dyn FnMut(Option<&Ipv6HopByHopRepr<'_>>)) {
        match Ipv6HopByHopHeader::new_checked(b) {
            Ok(h) => {
                let r = Ipv6HopByHopRepr::parse(&h).ok();
                k(r.as_ref())
            }
            Err(_) => k(None),
        }
    }
    fn same(a: &Ipv6HopByHopRepr, b: &Ipv6HopByHopRepr, _: &()) -> bool {
        a == b
    }
    fn mut_params(tier: Tier) -> (usize, usize) {
        match tier {
            Tier::Quick => (48, 64),
            Tier::Thorough => (400, 64),
        }
    }
    fn domain_doc() -> &'static str {
        "every list of 1..=4 options (quick: 1..=3) over the alphabet {RouterAlert(MLD), PadN(0), Pad1, Unknown(0xc2,len 4), PadN(4), RouterAlert(Unknown 0xffff), Unknown(Rpl,len 0), Unknown(0x3e,len 1)} (quick: first 4); 4 = IPV6_HBH_MAX_OPTIONS of this build"
    }
}

// -------------------------------------------------------------------------------- routing
pub struct Routing;
impl Rt for Routing {
    const NAME: &'static str = "Ipv6RoutingRepr";
    type R<'x> = Ipv6RoutingRepr<'x>;
    type Ctx = ();
    fn chunk(tier: Tier, _i: usize) -> Vec<(Ipv6RoutingRepr<'static>, ())> {
        let mut v = vec![];
        for sl in pick(tier, &U8S, 2) {
            for h in pick(tier, &v6s(), 3) {
                v.push((Ipv6RoutingRepr::Type2 { segments_left: sl, home_address: h }, ()));
            }
            for ci in pick(tier, &[0u8, 15, 1], 2) {
                for ce in pick(tier, &[0u8, 15, 8], 2) {
                    for pad in pick(tier, &[0u8, 15, 1], 2) {
                        for al in pick(tier, &[0usize, 16, 2, 8, 32], 3) {
                            v.push((Ipv6RoutingRepr::Rpl { segments_left: sl, cmpr_i: ci, cmpr_e: ce, pad, addresses: pat(al) }, ()));
                        }
                    }
                }
            }
        }
        v
    }
    fn blen(r: &Ipv6RoutingRepr, _: &()) -> usize {
        r.buffer_len()
    }
    fn emit(r: &Ipv6RoutingRepr, _: &(), buf: &mut [u8]) {
        r.emit(&mut Ipv6RoutingHeader::new_unchecked(buf))
    }
    fn parse(b: &[u8], _: &(), _s: bool, k: &mut dyn FnMut(Option<&Ipv6RoutingRepr<'_>>)) {
        match Ipv6RoutingHeader::new_checked(b) {
            Ok(h) => {
                let r = Ipv6RoutingRepr::parse(&h).ok();
                k(r.as_ref())
            }
            Err(_) => k(None),
        }
    }
    fn same(a: &Ipv6RoutingRepr, b: &Ipv6RoutingRepr, _: &()) -> bool {
        a == b
    }
    fn tag(r: &Ipv6RoutingRepr) -> String {
        match r {
            Ipv6RoutingRepr::Type2 { .. } => "Type2",
            Ipv6RoutingRepr::Rpl { .. } => "Rpl",
            _ => "other",
        }
        .into()
    }
    fn mut_params(tier: Tier) -> (usize, usize) {
        match tier {
            Tier::Quick => (48, 64),
            Tier::Thorough => (400, 64),
        }
    }
    fn domain_doc() -> &'static str {
        "Type2{segments_left {0,1,64,255} x home_address(13)}; Rpl{segments_left(4) x cmpr_i {0,1,15} x cmpr_e {0,8,15} x pad {0,1,15} (4-bit fields) x address bytes of length {0,2,8,16,32}}"
    }
}

/// Values outside the enumerated domain (see `super::probe`).
pub fn observations() -> Vec<serde_json::Value> {
    vec![
        super::probe::<Hbh>(&Ipv6HopByHopRepr { options: Default::default() }, &()),
        super::probe::<Opt>(&Ipv6OptionRepr::Unknown { type_: Ipv6OptionType::Unknown(0xc2), length: 2, data: pat(4) }, &()),
        super::probe::<Frag>(&Ipv6FragmentRepr { frag_offset: 0x2000, more_frags: false, ident: 1 }, &()),
    ]
}
