//! UDP, TCP (+ options)
use super::alpha::*;
use super::{Ck, Proto, Rt, CK_ALL};
use crate::core::Tier;
use smoltcp::wire::*;

pub type Addrs = (IpAddress, IpAddress);
/// pseudo-header addresses + checksum-capability mode
pub type AddrsCk = (IpAddress, IpAddress, Ck);

pub fn addr_pairs(tier: Tier) -> Vec<Addrs> {
    let a4 = v4s();
    let a6 = v6s();
    pick(
        tier,
        &[
            (IpAddress::Ipv4(a4[0]), IpAddress::Ipv4(a4[5])),
            (IpAddress::Ipv6(a6[0]), IpAddress::Ipv6(a6[3])),
            (IpAddress::Ipv4(a4[1]), IpAddress::Ipv4(a4[2])),
            (IpAddress::Ipv6(a6[10]), IpAddress::Ipv6(a6[1])),
        ],
        2,
    )
}

// ------------------------------------------------------------------------------------ UDP
/// The UDP payload lives outside `UdpRepr` (`emit` takes its length and a writer): the value
/// is (repr, payload), the declared length `header_len() + payload.len()`.
pub struct Udp;
impl Rt for Udp {
    const NAME: &'static str = "UdpRepr";
    type R<'x> = (UdpRepr, &'x [u8]);
    type Ctx = AddrsCk;
    fn nchunks(tier: Tier) -> usize {
        (addr_pairs(tier).len() + if tier == Tier::Thorough { 2 } else { 0 }) * CK_ALL.len()
    }
    fn chunk(tier: Tier, i: usize) -> Vec<(Self::R<'static>, AddrsCk)> {
        let m = CK_ALL[i % CK_ALL.len()];
        let i = i / CK_ALL.len();
        let pairs = addr_pairs(tier);
        let mut v: Vec<(Self::R<'static>, Addrs)> = vec![];
        if i < pairs.len() {
            for sp in pick(tier, &[1u16, 0, 65535, 80], 3) {
                for dp in pick(tier, &[80u16, 65535, 1], 2) {
                    for l in pick(tier, &[0usize, 1, 1472, 2, 3], 3) {
                        for off in pick(tier, &[0usize, 5], 1) {
                            v.push(((UdpRepr { src_port: sp, dst_port: dp }, pat_at(off, l)), pairs[i]));
                        }
                    }
                }
            }
        } else {
            // every 2-byte payload for one port pair, once over IPv4 and once over IPv6:
            // sweeps the checksum through all 65536 values (incl. the 0 -> 0xffff rule)
            static SW: std::sync::OnceLock<Vec<u8>> = std::sync::OnceLock::new();
            let sw = SW.get_or_init(|| (0..=65535u16).flat_map(|x| x.to_be_bytes()).collect());
            let c = pairs[i - pairs.len()];
            for x in 0..65536usize {
                v.push(((UdpRepr { src_port: 1, dst_port: 80 }, &sw[2 * x..2 * x + 2]), c));
            }
        }
        v.into_iter().map(|(r, c)| (r, (c.0, c.1, m))).collect()
    }
    fn blen(r: &Self::R<'_>, _: &AddrsCk) -> usize {
        r.0.header_len() + r.1.len()
    }
    fn emit(r: &Self::R<'_>, c: &AddrsCk, buf: &mut [u8]) {
        let pl = r.1;
        let mut p = UdpPacket::new_unchecked(buf);
        r.0.emit(&mut p, &c.0, &c.1, pl.len(), |p| p.copy_from_slice(pl), &c.2.emit_caps(Proto::Udp));
        if c.2.device_fills() {
            p.fill_checksum(&c.0, &c.1);
        }
    }
    fn parse(b: &[u8], c: &AddrsCk, s: bool, k: &mut dyn FnMut(Option<&Self::R<'_>>)) {
        let r = UdpPacket::new_checked(b).ok().and_then(|p| UdpRepr::parse(&p, &c.0, &c.1, &c.2.parse_caps(Proto::Udp, s)).ok().map(|r| (r, p.payload())));
        k(r.as_ref())
    }
    fn same(a: &Self::R<'_>, b: &Self::R<'_>, _: &AddrsCk) -> bool {
        a.0 == b.0 && a.1 == b.1
    }
    fn base_ctx(c: &AddrsCk) -> Option<AddrsCk> {
        (c.2 != Ck::Default).then_some((c.0, c.1, Ck::Default))
    }
    fn ctx_tag(c: &AddrsCk) -> String {
        // the pseudo-header family matters for UDP (zero checksum rules differ)
        if c.2 == Ck::Default {
            String::new()
        } else {
            format!("{}-over-{}", c.2.name(), if matches!(c.1, IpAddress::Ipv4(_)) { "ipv4" } else { "ipv6" })
        }
    }
    fn tx_off(c: &AddrsCk) -> bool {
        c.2.tx_off()
    }
    fn cksum(_: &Self::R<'_>) -> Option<std::ops::Range<usize>> {
        Some(6..8)
    }
    fn mut_params(tier: Tier) -> (usize, usize) {
        match tier {
            Tier::Quick => (48, 64),
            Tier::Thorough => (300, 64),
        }
    }
    fn domain_doc() -> &'static str {
        "(repr, payload) per pseudo-header pair (2 IPv4 pairs incl. broadcast/unspecified, 2 IPv6 pairs): src_port {0,1,80,65535} x dst_port {1,80,65535} (0 is not a destination) x payload length {0,1,2,3,1472} x 2 payload patterns; thorough adds all 65536 two-byte payloads for ports (1,80) over one IPv4 and one IPv6 pair (every checksum value); x checksum capabilities of this protocol {default; None; Tx; Rx with the harness filling the checksum as the device would; emit default / parse None; emit Rx / parse Tx}, each emitted and parsed under that configuration"
    }
}

// ------------------------------------------------------------------------------------ TCP
pub struct Tcp;
fn tcp_ports(tier: Tier) -> Vec<(u16, u16)> {
    match tier {
        Tier::Quick => vec![(1, 65535), (80, 80)],
        Tier::Thorough => {
            let p = [1u16, 80, 65535];
            let mut v = vec![];
            for a in p {
                for b in p {
                    v.push((a, b));
                }
            }
            v
        }
    }
}
const CONTROLS: [TcpControl; 5] = [TcpControl::None, TcpControl::Psh, TcpControl::Syn, TcpControl::Fin, TcpControl::Rst];
const SACKS: [[Option<(u32, u32)>; 3]; 4] = [
    [None, None, None],
    [Some((1, 2)), None, None],
    [Some((0, 0xffff_ffff)), Some((0x8000_0000, 1)), Some((0x7fff_ffff, 0x8000_0000))],
    [Some((0xffff_ffff, 0)), Some((5, 5)), None],
];
impl Rt for Tcp {
    const NAME: &'static str = "TcpRepr";
    type R<'x> = TcpRepr<'x>;
    type Ctx = AddrsCk;
    fn nchunks(tier: Tier) -> usize {
        pick(tier, &addr_pairs(Tier::Thorough), 2).len().min(2) * tcp_ports(tier).len() * CONTROLS.len() * CK_ALL.len()
    }
    fn chunk(tier: Tier, i: usize) -> Vec<(TcpRepr<'static>, AddrsCk)> {
        let m = CK_ALL[i % CK_ALL.len()];
        let i = i / CK_ALL.len();
        let ports = tcp_ports(tier);
        let ctl = CONTROLS[i % 5];
        let (sp, dp) = ports[(i / 5) % ports.len()];
        let c = addr_pairs(Tier::Thorough)[i / 5 / ports.len()];
        let mut v = vec![];
        for seq in pick(tier, &[0u32, 0xffff_ffff, 1, 0x7fff_ffff, 0x8000_0000], 2) {
            for ack in pick(tier, &[None, Some(0x8000_0000u32), Some(0), Some(0xffff_ffff)], 3) {
                for win in pick(tier, &[0u16, 65535, 1], 2) {
                    for ws in pick(tier, &[None, Some(14u8), Some(0)], 2) {
                        for mss in pick(tier, &[None, Some(536u16), Some(0), Some(65535)], 2) {
                            for sp_ok in [false, true] {
                                for sk in pick(tier, &SACKS, 3) {
                                    // SACK blocks only where the protocol has them: on a segment
                                    // that carries an ACK and is not offering SACK-permitted
                                    let has = sk[0].is_some();
                                    if has && (ack.is_none() || sp_ok) {
                                        continue;
                                    }
                                    for ts in pick(tier, &[None, Some(TcpTimestampRepr::new(0xffff_ffff, 1)), Some(TcpTimestampRepr::new(0, 0))], 2) {
                                        for l in pick(tier, &[0usize, 1, 1460, 2, 3], 3) {
                                            let r = TcpRepr {
                                                src_port: sp,
                                                dst_port: dp,
                                                control: ctl,
                                                seq_number: TcpSeqNumber(seq as i32),
                                                ack_number: ack.map(|a| TcpSeqNumber(a as i32)),
                                                window_len: win,
                                                window_scale: ws,
                                                max_seg_size: mss,
                                                sack_permitted: sp_ok,
                                                sack_ranges: sk,
                                                timestamp: ts,
                                                payload: pat(l),
                                            };
                                            // the option area is at most 40 bytes
                                            if r.header_len() > 60 {
                                                continue;
                                            }
                                            v.push((r, (c.0, c.1, m)));
                                        }
                                    }
                                }
                            }
                        }
                    }
                }
            }
        }
        v
    }
    fn blen(r: &TcpRepr, _: &AddrsCk) -> usize {
        r.buffer_len()
    }
    fn emit(r: &TcpRepr, c: &AddrsCk, buf: &mut [u8]) {
        let mut p = TcpPacket::new_unchecked(buf);
        r.emit(&mut p, &c.0, &c.1, &c.2.emit_caps(Proto::Tcp));
        if c.2.device_fills() {
            p.fill_checksum(&c.0, &c.1);
        }
    }
    fn parse(b: &[u8], c: &AddrsCk, s: bool, k: &mut dyn FnMut(Option<&TcpRepr<'_>>)) {
        let r = TcpPacket::new_checked(b).ok().and_then(|p| TcpRepr::parse(&p, &c.0, &c.1, &c.2.parse_caps(Proto::Tcp, s)).ok());
        k(r.as_ref())
    }
    fn same(a: &TcpRepr, b: &TcpRepr, _: &AddrsCk) -> bool {
        a == b
    }
    fn base_ctx(c: &AddrsCk) -> Option<AddrsCk> {
        (c.2 != Ck::Default).then_some((c.0, c.1, Ck::Default))
    }
    fn ctx_tag(c: &AddrsCk) -> String {
        c.2.name().into()
    }
    fn tx_off(c: &AddrsCk) -> bool {
        c.2.tx_off()
    }
    fn legal(r: &TcpRepr, _: &AddrsCk) -> bool {
        // what the protocol permits: at most 40 option bytes; SACK blocks only together with
        // an ACK and never next to SACK-permitted (a SYN option); `emit` leaves the blocks
        // out otherwise, by design
        let has = r.sack_ranges.iter().any(|s| s.is_some());
        r.header_len() <= 60 && (!has || (r.ack_number.is_some() && !r.sack_permitted))
    }
    fn cksum(_: &TcpRepr) -> Option<std::ops::Range<usize>> {
        Some(16..18)
    }
    fn mut_params(tier: Tier) -> (usize, usize) {
        match tier {
            Tier::Quick => (64, 80),
            Tier::Thorough => (400, 80),
        }
    }
    fn domain_doc() -> &'static str {
        "per pseudo-header pair (one IPv4, one IPv6): ports {1,80,65535}^2 x control {None,Psh,Syn,Fin,Rst} x seq {0,1,2^31-1,2^31,2^32-1} x ack {None,0,2^31,2^32-1} x window {0,1,65535} x window_scale {None,0,14} x mss {None,0,536,65535} x sack_permitted x SACK blocks {none, 1, 2 (prefix of the array), 3} (only with an ACK and without SACK-permitted) x timestamp {None,(0,0),(2^32-1,1)} x payload length {0,1,2,3,1460}, minus combinations whose options exceed 40 bytes; x checksum capabilities of this protocol {default; None; Tx; Rx with the harness filling the checksum as the device would; emit default / parse None; emit Rx / parse Tx}, each emitted and parsed under that configuration"
    }
}

// ----------------------------------------------------------------------------- TCP options
/// `TcpOption::parse` returns (rest, option); equality is asked of the option.
pub struct TcpOpt;
impl Rt for TcpOpt {
    const NAME: &'static str = "TcpOption";
    type R<'x> = TcpOption<'x>;
    type Ctx = ();
    fn chunk(tier: Tier, _i: usize) -> Vec<(TcpOption<'static>, ())> {
        let mut v = vec![TcpOption::EndOfList, TcpOption::NoOperation, TcpOption::SackPermitted];
        for m in U16S {
            v.push(TcpOption::MaxSegmentSize(m));
        }
        for w in [0u8, 14, 15, 255] {
            v.push(TcpOption::WindowScale(w));
        }
        for s in &SACKS[1..] {
            v.push(TcpOption::SackRange(*s));
        }
        for a in pick(tier, &U32S, 2) {
            for b in pick(tier, &U32S, 2) {
                v.push(TcpOption::TimeStamp { tsval: a, tsecr: b });
            }
        }
        // kinds the parser does not interpret, data up to what fits the 40-byte option area
        for k in pick(tier, &[6u8, 255, 7, 30, 254], 2) {
            for l in pick(tier, &[0usize, 38, 1, 2], 2) {
                v.push(TcpOption::Unknown { kind: k, data: pat(l) });
            }
        }
        v.into_iter().map(|r| (r, ())).collect()
    }
    fn blen(r: &TcpOption, _: &()) -> usize {
        r.buffer_len()
    }
    fn emit(r: &TcpOption, _: &(), buf: &mut [u8]) {
        r.emit(buf);
    }
    fn parse(b: &[u8], _: &(), _s: bool, k: &mut dyn FnMut(Option<&TcpOption<'_>>)) {
        let r = TcpOption::parse(b).ok().map(|(_, o)| o);
        k(r.as_ref())
    }
    fn same(a: &TcpOption, b: &TcpOption, _: &()) -> bool {
        a == b
    }
    fn tag(r: &TcpOption) -> String {
        match r {
            TcpOption::EndOfList => "EndOfList",
            TcpOption::NoOperation => "NoOperation",
            TcpOption::MaxSegmentSize(_) => "MaxSegmentSize",
            TcpOption::WindowScale(_) => "WindowScale",
            TcpOption::SackPermitted => "SackPermitted",
            TcpOption::SackRange(_) => "SackRange",
            TcpOption::TimeStamp { .. } => "TimeStamp",
            TcpOption::Unknown { .. } => "Unknown",
        }
        .into()
    }
    fn domain_doc() -> &'static str {
        "EndOfList, NoOperation, SackPermitted, MaxSegmentSize {0,1,0x8000,0xffff}, WindowScale {0,14,15,255}, SackRange with 1, 2, 3 blocks, TimeStamp (tsval, tsecr in {0,1,2^31,2^32-1}), Unknown{kind {6,7,30,254,255} x data length {0,1,2,38}}"
    }
}

/// Values outside the enumerated domain (see `super::probe`).
pub fn observations() -> Vec<serde_json::Value> {
    let c = addr_pairs(Tier::Quick)[0];
    let c = (c.0, c.1, Ck::Default);
    let base = TcpRepr {
        src_port: 1,
        dst_port: 80,
        control: TcpControl::Syn,
        seq_number: TcpSeqNumber(0),
        ack_number: Some(TcpSeqNumber(1)),
        window_len: 1,
        window_scale: None,
        max_seg_size: None,
        sack_permitted: true,
        sack_ranges: SACKS[1],
        timestamp: None,
        payload: pat(0),
    };
    vec![
        super::probe::<Tcp>(&base, &c),
        super::probe::<Tcp>(&TcpRepr { sack_permitted: false, ack_number: None, ..base }, &c),
        super::probe::<Tcp>(&TcpRepr { sack_permitted: false, sack_ranges: [None, Some((1, 2)), None], ..base }, &c),
        super::probe::<Tcp>(&TcpRepr { sack_permitted: false, sack_ranges: [None; 3], window_scale: Some(15), ..base }, &c),
        super::probe::<Tcp>(&TcpRepr { sack_permitted: false, sack_ranges: SACKS[2], timestamp: Some(TcpTimestampRepr::new(1, 2)), max_seg_size: Some(536), window_scale: Some(1), ..base }, &c),
        super::probe::<Udp>(&(UdpRepr { src_port: 1, dst_port: 0 }, pat(0)), &c),
        super::probe::<TcpOpt>(&TcpOption::SackRange([None; 3]), &()),
    ]
}
