//! Ethernet II, ARP, IEEE 802.15.4
use super::alpha::*;
use super::Rt;
use crate::core::Tier;
use smoltcp::wire::*;

// ------------------------------------------------------------------------------- Ethernet
pub struct Eth;
impl Rt for Eth {
    const NAME: &'static str = "EthernetRepr";
    type R<'x> = EthernetRepr;
    type Ctx = ();
    fn chunk(tier: Tier, _i: usize) -> Vec<(EthernetRepr, ())> {
        let mut v = vec![];
        let types = [
            EthernetProtocol::Ipv4,
            EthernetProtocol::Arp,
            EthernetProtocol::Ipv6,
            EthernetProtocol::Unknown(0),
            EthernetProtocol::Unknown(0xffff),
            EthernetProtocol::Unknown(0x88cc),
        ];
        for s in pick(tier, &macs(), 3) {
            for d in pick(tier, &macs(), 3) {
                for t in pick(tier, &types, 4) {
                    v.push((EthernetRepr { src_addr: s, dst_addr: d, ethertype: t }, ()));
                }
            }
        }
        v
    }
    fn blen(r: &EthernetRepr, _: &()) -> usize {
        r.buffer_len()
    }
    fn emit(r: &EthernetRepr, _: &(), buf: &mut [u8]) {
        r.emit(&mut EthernetFrame::new_unchecked(buf))
    }
    fn parse(b: &[u8], _: &(), _s: bool, k: &mut dyn FnMut(Option<&EthernetRepr>)) {
        let r = EthernetFrame::new_checked(b).ok().and_then(|f| EthernetRepr::parse(&f).ok());
        k(r.as_ref())
    }
    fn same(a: &EthernetRepr, b: &EthernetRepr, _: &()) -> bool {
        a == b
    }
    fn domain_doc() -> &'static str {
        "src x dst in {unicast, broadcast, zero, IPv4-mcast, IPv6-mcast} x ethertype {Ipv4, Arp, Ipv6, Unknown(0), Unknown(0xffff), Unknown(0x88cc)}; Unknown(x) only for x that is not a known value"
    }
}

// ------------------------------------------------------------------------------------ ARP
pub struct Arp;
impl Rt for Arp {
    const NAME: &'static str = "ArpRepr";
    type R<'x> = ArpRepr;
    type Ctx = ();
    fn chunk(tier: Tier, _i: usize) -> Vec<(ArpRepr, ())> {
        let ops = [ArpOperation::Request, ArpOperation::Reply, ArpOperation::Unknown(0), ArpOperation::Unknown(3), ArpOperation::Unknown(0xffff)];
        let mut v = vec![];
        for op in pick(tier, &ops, 3) {
            for sha in pick(tier, &macs(), 2) {
                for spa in pick(tier, &v4s(), 3) {
                    for tha in pick(tier, &macs(), 3) {
                        for tpa in pick(tier, &v4s(), 3) {
                            v.push((
                                ArpRepr::EthernetIpv4 {
                                    operation: op,
                                    source_hardware_addr: sha,
                                    source_protocol_addr: spa,
                                    target_hardware_addr: tha,
                                    target_protocol_addr: tpa,
                                },
                                (),
                            ));
                        }
                    }
                }
            }
        }
        v
    }
    fn blen(r: &ArpRepr, _: &()) -> usize {
        r.buffer_len()
    }
    fn emit(r: &ArpRepr, _: &(), buf: &mut [u8]) {
        r.emit(&mut ArpPacket::new_unchecked(buf))
    }
    fn parse(b: &[u8], _: &(), _s: bool, k: &mut dyn FnMut(Option<&ArpRepr>)) {
        let r = ArpPacket::new_checked(b).ok().and_then(|p| ArpRepr::parse(&p).ok());
        k(r.as_ref())
    }
    fn same(a: &ArpRepr, b: &ArpRepr, _: &()) -> bool {
        a == b
    }
    fn mut_params(tier: Tier) -> (usize, usize) {
        match tier {
            Tier::Quick => (48, 400),
            Tier::Thorough => (400, 400),
        }
    }
    fn domain_doc() -> &'static str {
        "EthernetIpv4: operation {Request, Reply, Unknown(0), Unknown(3), Unknown(0xffff)} x sha(5 MACs) x spa(7 IPv4) x tha(5) x tpa(7)"
    }
}

// ---------------------------------------------------------------------------- IEEE 802.15.4
pub struct L154;

const PANS: [Ieee802154Pan; 2] = [Ieee802154Pan(0xabcd), Ieee802154Pan(0xffff)];
fn addr_of(mode: u8, alt: usize) -> Ieee802154Address {
    match mode {
        0 => Ieee802154Address::Absent,
        1 => [Ieee802154Address::Short([0x12, 0x34]), Ieee802154Address::Short([0xff, 0xff])][alt % 2],
        _ => [
            Ieee802154Address::Extended([0x02, 0x11, 0x22, 0x33, 0x44, 0x55, 0x66, 0x77]),
            Ieee802154Address::Extended([0xff, 0xfe, 0xfd, 0xfc, 0xfb, 0xfa, 0xf9, 0xf8]),
        ][alt % 2],
    }
}

/// PAN-ID presence for (version, dst mode, src mode, PAN-ID compression): IEEE 802.15.4-2006
/// §7.2.1.1.5 for the 2003/2006 frame versions and IEEE 802.15.4-2015 table 7-2 for version 2.
/// None = combination not defined by the standard (not generated).
fn pan_presence(v2015: bool, d: u8, s: u8, comp: bool) -> Option<(bool, bool)> {
    if !v2015 {
        match (d, s, comp) {
            (0, 0, _) => None, // only legal for ACK/beacon-less frames; addressing-less, not generated
            (0, _, false) => Some((false, true)),
            (_, 0, false) => Some((true, false)),
            (0, _, true) | (_, 0, true) => None, // compression needs both addresses
            (_, _, true) => Some((true, false)),
            (_, _, false) => Some((true, true)),
        }
    } else {
        Some(match (d, s, comp) {
            (0, 0, false) => (false, false),
            (0, 0, true) => (true, false),
            (_, 0, false) => (true, false),
            (_, 0, true) => (false, false),
            (0, _, false) => (false, true),
            // the standard says no PAN IDs at all here, smoltcp's parser expects a source PAN
            // ID; not generated so that the disagreement (a parser matter) cannot be
            // mistaken for a round-trip failure
            (0, _, true) => return None,
            (2, 2, false) => (true, false),
            (2, 2, true) => (false, false),
            (_, _, false) => (true, true),
            (_, _, true) => (true, false),
        })
    }
}

impl Rt for L154 {
    const NAME: &'static str = "Ieee802154Repr";
    type R<'x> = Ieee802154Repr;
    type Ctx = ();
    fn chunk(tier: Tier, _i: usize) -> Vec<(Ieee802154Repr, ())> {
        let mut v = vec![];
        let ftypes = [Ieee802154FrameType::Data, Ieee802154FrameType::MacCommand, Ieee802154FrameType::Beacon, Ieee802154FrameType::Multipurpose];
        let versions = [Ieee802154FrameVersion::Ieee802154_2006, Ieee802154FrameVersion::Ieee802154, Ieee802154FrameVersion::Ieee802154_2003];
        for ft in pick(tier, &ftypes, 2) {
            for ver in pick(tier, &versions, 2) {
                let v2015 = ver == Ieee802154FrameVersion::Ieee802154;
                for d in 0..3u8 {
                    for s in 0..3u8 {
                        for comp in [false, true] {
                            let Some((dp, sp)) = pan_presence(v2015, d, s, comp) else { continue };
                            // value sets: 0/1 = two address sets with different PAN ids on the two
                            // sides, 2 = source PAN id equal to the destination PAN id
                            for alt in pick(tier, &[0usize, 2, 1], 2) {
                                for (fp, ar) in pick(tier, &[(false, false), (true, true), (false, true), (true, false)], 2) {
                                    for seq in pick(tier, &[0u8, 255, 1], 2) {
                                        v.push((
                                            Ieee802154Repr {
                                                frame_type: ft,
                                                // a secured frame needs an auxiliary security header the Repr cannot carry
                                                security_enabled: false,
                                                frame_pending: fp,
                                                ack_request: ar,
                                                sequence_number: Some(seq),
                                                pan_id_compression: comp,
                                                frame_version: ver,
                                                dst_pan_id: dp.then(|| PANS[alt % 2]),
                                                dst_addr: Some(addr_of(d, alt)),
                                                src_pan_id: sp.then(|| if alt == 2 { PANS[0] } else { PANS[(alt + 1) % 2] }),
                                                src_addr: Some(addr_of(s, alt + 1)),
                                            },
                                            (),
                                        ));
                                    }
                                }
                            }
                        }
                    }
                }
            }
        }
        v
    }
    fn blen(r: &Ieee802154Repr, _: &()) -> usize {
        r.buffer_len()
    }
    fn emit(r: &Ieee802154Repr, _: &(), buf: &mut [u8]) {
        r.emit(&mut Ieee802154Frame::new_unchecked(buf))
    }
    fn parse(b: &[u8], _: &(), _s: bool, k: &mut dyn FnMut(Option<&Ieee802154Repr>)) {
        let r = Ieee802154Frame::new_checked(b).ok().and_then(|f| Ieee802154Repr::parse(&f).ok());
        k(r.as_ref())
    }
    fn same(a: &Ieee802154Repr, b: &Ieee802154Repr, _: &()) -> bool {
        a == b
    }
    fn legal(r: &Ieee802154Repr, _: &()) -> bool {
        // (1) A frame with the security bit carries an auxiliary security header (variable
        // length) that the Repr has no field for: its declared length cannot hold a legal
        // secured frame.  (2) For frame types without addressing fields in the parser's view
        // (pre-2015 ACK, Extended, Fragment, reserved types) the parser yields no addresses
        // at all (`None`), whatever the mode bits of the (mutated, malformed) frame said;
        // `buffer_len`/`emit` are about frames with addressing fields.  Both outside the
        // proviso (lenient reading), counted as `mutants_parsed_but_outside_proviso`.
        !r.security_enabled && r.dst_addr.is_some() && r.src_addr.is_some()
    }
    fn sig_tag(r: &Ieee802154Repr) -> String {
        // coarse layout class: what `emit`/`buffer_len` assume is
        // [dst PAN][dst addr][src PAN iff !compression][src addr]
        if r.dst_pan_id.is_none() {
            "layout-without-dst-pan".into()
        } else if r.src_pan_id.is_some() == r.pan_id_compression {
            "layout-src-pan-not-as-compression-bit".into()
        } else {
            // the layout emit/buffer_len are written for; deliberately NOT named `layout-*`:
            // a failure here is a different matter from the two unsupported layouts above
            // and must not fall under a glob meant for them
            "consistent-layout".into()
        }
    }
    fn field_group(f: &str) -> String {
        match f {
            "dst_pan_id" | "dst_addr" | "src_pan_id" | "src_addr" => "addressing".into(),
            _ => f.into(),
        }
    }
    fn dirty_cause(_r: &Ieee802154Repr, off: &[usize]) -> Option<Vec<String>> {
        let fc = off.iter().any(|&o| o < 2);
        let rest = off.iter().any(|&o| o >= 2);
        Some(match (fc, rest) {
            (true, false) => vec!["frame-control".into()],
            (true, true) => vec!["frame-control".into(), "addressing-bytes".into()],
            _ => vec!["addressing-bytes".into()],
        })
    }
    fn tag(r: &Ieee802154Repr) -> String {
        // addressing layout class: the emit/parse code paths differ per layout
        let m = |a: &Option<Ieee802154Address>| match a {
            None => "none",
            Some(Ieee802154Address::Absent) => "absent",
            Some(Ieee802154Address::Short(_)) => "short",
            Some(Ieee802154Address::Extended(_)) => "ext",
        };
        format!(
            "{}dstpan-{}-{}srcpan-{}{}",
            if r.dst_pan_id.is_some() { "" } else { "no" },
            m(&r.dst_addr),
            if r.src_pan_id.is_some() { "" } else { "no" },
            m(&r.src_addr),
            if r.pan_id_compression { "-compr" } else { "" }
        )
    }
    fn domain_doc() -> &'static str {
        "frame_type {Data, MacCommand, Beacon, Multipurpose} x version {2006, 2015, 2003} x dst mode {absent, short, extended} x src mode (same) x PAN-ID compression, restricted to the combinations the standard defines, PAN-ID presence derived from the standard's tables (as the parser does) x frame_pending/ack_request x sequence number {0,255,1} x 3 address/PAN value sets (incl. broadcast short address and broadcast PAN, source PAN different from and equal to the destination PAN); security_enabled = false only (Repr cannot carry the auxiliary security header)"
    }
}

/// Values outside the enumerated domain (see `super::probe`).
pub fn observations() -> Vec<serde_json::Value> {
    let r = Ieee802154Repr {
        frame_type: Ieee802154FrameType::Data,
        security_enabled: true,
        frame_pending: false,
        ack_request: false,
        sequence_number: Some(1),
        pan_id_compression: true,
        frame_version: Ieee802154FrameVersion::Ieee802154_2006,
        dst_pan_id: Some(PANS[0]),
        dst_addr: Some(addr_of(1, 0)),
        src_pan_id: None,
        src_addr: Some(addr_of(2, 0)),
    };
    vec![
        super::probe::<L154>(&r, &()),
        super::probe::<Eth>(&EthernetRepr { src_addr: macs()[0], dst_addr: macs()[1], ethertype: EthernetProtocol::Unknown(0x0800) }, &()),
    ]
}
