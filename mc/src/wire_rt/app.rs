//! DHCPv4, DNS
use super::alpha::*;
use super::Rt;
use crate::core::Tier;
use smoltcp::wire::*;

// ----------------------------------------------------------------------------------- DHCP
/// `additional_options` is documented as emit-only ("When returned from `Repr::parse`, this
/// field will be `None`"), holding options "not known to smoltcp".  The value is therefore
/// (repr, observed): `observed` is filled by the harness' parse step with the options of the
/// packet whose kind `Repr::parse` does not interpret, and equality is
///   repr (with `additional_options` blanked) == parsed repr  &&
///   repr.additional_options == observed unknown options of the emitted packet.
/// For a value obtained by parsing, `additional_options` is empty, so the re-emitted packet
/// must carry no unknown option.  `observed` of the left-hand value is never looked at.
pub struct Dhcp;
pub type DhcpV<'x> = (DhcpRepr<'x>, Vec<(u8, &'x [u8])>);

const KNOWN_KINDS: [u8; 12] = [53, 50, 61, 54, 3, 1, 57, 58, 59, 51, 55, 6];

fn dhcp_msg_types(tier: Tier) -> Vec<DhcpMessageType> {
    let all = [
        DhcpMessageType::Discover,
        DhcpMessageType::Ack,
        DhcpMessageType::Unknown(9),
        DhcpMessageType::Offer,
        DhcpMessageType::Request,
        DhcpMessageType::Decline,
        DhcpMessageType::Nak,
        DhcpMessageType::Release,
        DhcpMessageType::Inform,
        DhcpMessageType::Unknown(0),
    ];
    pick(tier, &all, 3)
}
fn extra_sets() -> &'static [&'static [DhcpOption<'static>]] {
    static S: std::sync::OnceLock<Vec<&'static [DhcpOption<'static>]>> = std::sync::OnceLock::new();
    S.get_or_init(|| {
        vec![
            leak(vec![]),
            leak(vec![DhcpOption { kind: 12, data: b"host" }]),
            leak(vec![DhcpOption { kind: 60, data: &[] }, DhcpOption { kind: 43, data: pat(255) }]),
        ]
    })
}
const DHCP_LENS: [usize; 6] = [0, 1, 2, 253, 254, 255];
struct DhcpLenTables {
    single: Vec<&'static [DhcpOption<'static>]>,
    after_host: Vec<&'static [DhcpOption<'static>]>,
    pair: Vec<Vec<&'static [DhcpOption<'static>]>>,
}
fn dhcp_len_tables() -> &'static DhcpLenTables {
    static T: std::sync::OnceLock<DhcpLenTables> = std::sync::OnceLock::new();
    T.get_or_init(|| DhcpLenTables {
        single: DHCP_LENS.iter().map(|l| leak(vec![DhcpOption { kind: 43, data: pat(*l) }])).collect(),
        after_host: DHCP_LENS.iter().map(|l| leak(vec![DhcpOption { kind: 12, data: b"host" }, DhcpOption { kind: 43, data: pat(*l) }])).collect(),
        pair: DHCP_LENS
            .iter()
            .map(|a| DHCP_LENS.iter().map(|b| leak(vec![DhcpOption { kind: 60, data: pat(*a) }, DhcpOption { kind: 43, data: pat_at(1, *b) }])).collect())
            .collect(),
    })
}
fn base(mt: DhcpMessageType) -> DhcpRepr<'static> {
    DhcpRepr {
        message_type: mt,
        transaction_id: 0x12345678,
        secs: 0,
        client_hardware_address: macs()[0],
        client_ip: Ipv4Address::new(0, 0, 0, 0),
        your_ip: Ipv4Address::new(0, 0, 0, 0),
        server_ip: Ipv4Address::new(0, 0, 0, 0),
        router: None,
        subnet_mask: None,
        relay_agent_ip: Ipv4Address::new(0, 0, 0, 0),
        broadcast: false,
        requested_ip: None,
        client_identifier: None,
        server_identifier: None,
        parameter_request_list: None,
        dns_servers: None,
        max_size: None,
        lease_duration: None,
        renew_duration: None,
        rebind_duration: None,
        additional_options: &[],
    }
}
fn set_dns(r: &mut DhcpRepr<'static>, n: Option<usize>) {
    match n {
        None => r.dns_servers = None,
        Some(n) => {
            r.dns_servers = Some(Default::default());
            let v = r.dns_servers.as_mut().unwrap();
            for i in 0..n.min(DHCP_MAX_DNS_SERVER_COUNT) {
                v.push(v4s()[i]).expect("dns server capacity");
            }
        }
    }
}
/// option set number `k` (0 none, 1 everything, 2/3 mixed) for the header sweep
fn option_set(r: &mut DhcpRepr<'static>, k: usize) {
    let a = v4s();
    if k == 1 || k == 2 {
        r.requested_ip = Some(a[0]);
        r.server_identifier = Some(a[5]);
        r.max_size = Some(1500);
        set_dns(r, Some(3));
    }
    if k == 1 || k == 3 {
        r.client_identifier = Some(macs()[3]);
        r.router = Some(a[6]);
        r.subnet_mask = Some(Ipv4Address::new(255, 255, 255, 0));
        r.lease_duration = Some(0xffff_ffff);
        r.parameter_request_list = Some(&[1, 3, 6]);
        r.additional_options = extra_sets()[1];
    }
}

impl Rt for Dhcp {
    const NAME: &'static str = "DhcpRepr";
    type R<'x> = DhcpV<'x>;
    type Ctx = ();
    fn nchunks(tier: Tier) -> usize {
        dhcp_msg_types(tier).len()
    }
    fn chunk(tier: Tier, i: usize) -> Vec<(DhcpV<'static>, ())> {
        let mt = dhcp_msg_types(tier)[i];
        let a = v4s();
        let mut v: Vec<DhcpRepr<'static>> = vec![];
        // (a) header sweep
        for xid in [0u32, 0xffff_ffff] {
            for secs in [0u16, 0xffff] {
                for ch in [macs()[0], macs()[1]] {
                    for ci in [a[2], a[0]] {
                        for yi in [a[2], a[5]] {
                            for si in [a[2], a[1]] {
                                for gi in [a[2], a[6]] {
                                    for bc in [false, true] {
                                        for k in pick(tier, &[0usize, 1, 2, 3], 2) {
                                            let mut r = base(mt);
                                            r.transaction_id = xid;
                                            r.secs = secs;
                                            r.client_hardware_address = ch;
                                            r.client_ip = ci;
                                            r.your_ip = yi;
                                            r.server_ip = si;
                                            r.relay_agent_ip = gi;
                                            r.broadcast = bc;
                                            option_set(&mut r, k);
                                            v.push(r);
                                        }
                                    }
                                }
                            }
                        }
                    }
                }
            }
        }
        // (b) option sweep
        static PRL255: std::sync::OnceLock<&'static [u8]> = std::sync::OnceLock::new();
        let prl255 = *PRL255.get_or_init(|| pat(255));
        let prls: [Option<&'static [u8]>; 4] = [None, Some(&[1, 3, 6]), Some(&[]), Some(prl255)];
        for hdr in pick(tier, &[false, true], 1) {
            for rq in [None, Some(a[0])] {
                for cid in [None, Some(macs()[4])] {
                    for sid in [None, Some(a[1])] {
                        for rt in [None, Some(a[2])] {
                            for sm in [None, Some(Ipv4Address::new(255, 255, 0, 0))] {
                                for ms in pick(tier, &[None, Some(1500u16), Some(0), Some(0xffff)], 2) {
                                    for ld in pick(tier, &[None, Some(0xffff_ffffu32), Some(0)], 2) {
                                        for prl in pick(tier, &prls, 2) {
                                            for dns in pick(tier, &[None, Some(3usize), Some(0), Some(1), Some(2)], 2) {
                                                for ex in pick(tier, &[0usize, 1, 2], 2) {
                                                    let mut r = base(mt);
                                                    if hdr {
                                                        r.client_ip = a[0];
                                                        r.your_ip = a[5];
                                                        r.broadcast = true;
                                                    }
                                                    r.requested_ip = rq;
                                                    r.client_identifier = cid;
                                                    r.server_identifier = sid;
                                                    r.router = rt;
                                                    r.subnet_mask = sm;
                                                    r.max_size = ms;
                                                    r.lease_duration = ld;
                                                    r.parameter_request_list = prl;
                                                    set_dns(&mut r, dns);
                                                    r.additional_options = extra_sets()[ex];
                                                    v.push(r);
                                                }
                                            }
                                        }
                                    }
                                }
                            }
                        }
                    }
                }
            }
        }
        // (c) the T1/T2 fields
        for (t1, t2) in [(Some(1800u32), None), (None, Some(0xffff_ffffu32)), (Some(0), Some(1))] {
            let mut r = base(mt);
            r.lease_duration = Some(3600);
            r.renew_duration = t1;
            r.rebind_duration = t2;
            v.push(r);
        }
        // (d) length boundaries of the variable-length options (both tiers): the one-octet
        // length field admits 0..=255 data octets
        let t = dhcp_len_tables();
        for (li, l) in DHCP_LENS.iter().enumerate() {
            // parameter request list alone / next to every other option (incl. 3 DNS servers)
            let mut r = base(mt);
            r.parameter_request_list = Some(pat(*l));
            v.push(r);
            let mut r = base(mt);
            option_set(&mut r, 1);
            r.parameter_request_list = Some(pat(*l));
            v.push(r);
            // one additional option of that length alone / behind another one and next to
            // every other option
            let mut r = base(mt);
            r.additional_options = t.single[li];
            v.push(r);
            let mut r = base(mt);
            option_set(&mut r, 1);
            r.additional_options = t.after_host[li];
            v.push(r);
            // two additional options, every pair of lengths
            for lj in 0..DHCP_LENS.len() {
                let mut r = base(mt);
                r.additional_options = t.pair[li][lj];
                v.push(r);
            }
        }
        // everything at its maximum at once
        let mut r = base(mt);
        option_set(&mut r, 1);
        r.parameter_request_list = Some(pat(255));
        r.additional_options = t.pair[5][5];
        v.push(r);
        v.into_iter().map(|r| ((r, vec![]), ())).collect()
    }
    fn blen(r: &DhcpV, _: &()) -> usize {
        r.0.buffer_len()
    }
    fn emit(r: &DhcpV, c: &(), buf: &mut [u8]) {
        let _ = Self::emit_r(r, c, buf);
    }
    fn emit_r(r: &DhcpV, _: &(), buf: &mut [u8]) -> std::result::Result<(), String> {
        // DhcpRepr::emit is fallible (option writer); an Err on a buffer of the declared
        // length is reported as "emit-refuses"
        r.0.emit(&mut DhcpPacket::new_unchecked(buf)).map_err(|e| format!("{:?}", e))
    }
    fn parse(b: &[u8], _: &(), _s: bool, k: &mut dyn FnMut(Option<&DhcpV<'_>>)) {
        match DhcpPacket::new_checked(b) {
            Ok(p) => match DhcpRepr::parse(&p) {
                Ok(r) => {
                    let obs: Vec<(u8, &[u8])> = p.options().filter(|o| !KNOWN_KINDS.contains(&o.kind)).map(|o| (o.kind, o.data)).collect();
                    k(Some(&(r, obs)))
                }
                Err(_) => k(None),
            },
            Err(_) => k(None),
        }
    }
    fn same(a: &DhcpV, b: &DhcpV, _: &()) -> bool {
        let mut a0 = a.0.clone();
        let want: Vec<(u8, &[u8])> = a0.additional_options.iter().map(|o| (o.kind, o.data)).collect();
        a0.additional_options = &[];
        a0 == b.0 && want == b.1
    }
    fn tag(r: &DhcpV) -> String {
        format!("{:?}", r.0.message_type).split('(').next().unwrap_or("").to_string()
    }
    fn sig_tag(_: &DhcpV) -> String {
        String::new()
    }
    fn show_lhs(r: &DhcpV) -> String {
        format!("{:#?}", r.0)
    }
    fn show_rhs(p: &DhcpV) -> String {
        // the parsed repr with the observed unknown options in the place `same` compares them to
        let obs: Vec<DhcpOption> = p.1.iter().map(|(k, d)| DhcpOption { kind: *k, data: d }).collect();
        let mut q = p.0.clone();
        q.additional_options = &obs;
        format!("{:#?}", q)
    }
    fn field_group(f: &str) -> String {
        match f {
            "renew_duration" | "rebind_duration" => "renew_rebind_duration".into(),
            _ => f.into(),
        }
    }
    fn mut_params(tier: Tier) -> (usize, usize) {
        match tier {
            Tier::Quick => (24, 600),
            Tier::Thorough => (120, 600),
        }
    }
    fn domain_doc() -> &'static str {
        "per message type (8 known + Unknown(9), Unknown(0)): (a) header sweep: xid {0,2^32-1} x secs {0,65535} x chaddr(2) x ciaddr(2) x yiaddr(2) x siaddr(2) x giaddr(2) x broadcast x 4 option sets; (b) option sweep: 2 headers x requested_ip x client_identifier x server_identifier x router x subnet_mask (each None/Some) x max_size {None,0,1500,65535} x lease {None,0,2^32-1} x parameter_request_list {None, [], [1,3,6], 255 bytes} x dns_servers {None, 0..3 addresses} x additional_options {none, [hostname], [empty vendor class, 255-byte vendor info]}; (c) renew/rebind durations (None,Some) combinations; (d) in both tiers, the length boundaries {0,1,2,253,254,255} of the one-octet option length: parameter_request_list of each length alone and next to every other option (incl. the maximum of 3 DNS servers), one additional option of each length alone and behind another one next to every other option, two additional options with every pair of these lengths, and everything at its maximum at once"
    }
}

// ------------------------------------------------------------------------------------ DNS
/// `DnsRepr` has no `parse`; the way back goes through the `DnsPacket` accessors
/// (transaction id, flags, opcode) and `DnsQuestion::parse` on the payload.
pub struct Dns;
fn dns_names() -> Vec<&'static [u8]> {
    static N: std::sync::OnceLock<Vec<&'static [u8]>> = std::sync::OnceLock::new();
    N.get_or_init(|| {
        let mut max_label = vec![63u8];
        max_label.extend(std::iter::repeat(b'a').take(63));
        max_label.push(0);
        // 255 bytes: 3 labels of 63, one of 61, root
        let mut max_name = vec![];
        for l in [63usize, 63, 63, 61] {
            max_name.push(l as u8);
            max_name.extend(std::iter::repeat(b'x').take(l));
        }
        max_name.push(0);
        assert_eq!(max_name.len(), 255);
        // just below the limits: a 62-byte label, a 254-byte name
        let mut label62 = vec![62u8];
        label62.extend(std::iter::repeat(b'b').take(62));
        label62.push(0);
        let mut name254 = vec![];
        for l in [63usize, 63, 63, 60] {
            name254.push(l as u8);
            name254.extend(std::iter::repeat(b'y').take(l));
        }
        name254.push(0);
        assert_eq!(name254.len(), 254);
        vec![
            &b"\x03www\x07example\x03com\x00"[..],
            &b"\x00"[..],
            leak(max_label),
            leak(max_name),
            &b"\x01a\x00"[..],
            &b"\x03www\xc0\x0c"[..],
            leak(label62),
            leak(name254),
        ]
    })
    .clone()
}
impl Rt for Dns {
    const NAME: &'static str = "DnsRepr";
    type R<'x> = DnsRepr<'x>;
    type Ctx = ();
    fn chunk(tier: Tier, _i: usize) -> Vec<(DnsRepr<'static>, ())> {
        let ops = [DnsOpcode::Query, DnsOpcode::Status, DnsOpcode::Unknown(7), DnsOpcode::Unknown(2), DnsOpcode::Unknown(15), DnsOpcode::Unknown(8)];
        let types = [DnsQueryType::A, DnsQueryType::Aaaa, DnsQueryType::Unknown(255), DnsQueryType::Cname, DnsQueryType::Ns, DnsQueryType::Soa, DnsQueryType::Unknown(0)];
        // all 128 combinations of the 7 defined flag bits (quick: 4 of them)
        let bits: [u16; 7] = [0x8000, 0x0400, 0x0200, 0x0100, 0x0080, 0x0020, 0x0010];
        let flags: Vec<DnsFlags> = match tier {
            Tier::Quick => vec![DnsFlags::empty(), DnsFlags::RECURSION_DESIRED, DnsFlags::all(), DnsFlags::RESPONSE | DnsFlags::CHECK_DISABLED],
            Tier::Thorough => (0..128u16)
                .map(|m| {
                    let mut b = 0u16;
                    for (i, x) in bits.iter().enumerate() {
                        if m >> i & 1 == 1 {
                            b |= x;
                        }
                    }
                    DnsFlags::from_bits_truncate(b)
                })
                .collect(),
        };
        let mut v = vec![];
        for id in pick(tier, &U16S, 2) {
            for op in pick(tier, &ops, 3) {
                for f in &flags {
                    for n in pick(tier, &dns_names(), 4) {
                        for t in pick(tier, &types, 3) {
                            v.push((DnsRepr { transaction_id: id, opcode: op, flags: *f, question: DnsQuestion { name: n, type_: t } }, ()));
                        }
                    }
                }
            }
        }
        v
    }
    fn blen(r: &DnsRepr, _: &()) -> usize {
        r.buffer_len()
    }
    fn emit(r: &DnsRepr, _: &(), buf: &mut [u8]) {
        r.emit(&mut DnsPacket::new_unchecked(buf));
    }
    fn parse(b: &[u8], _: &(), _s: bool, k: &mut dyn FnMut(Option<&DnsRepr<'_>>)) {
        match DnsPacket::new_checked(b) {
            Ok(p) => match DnsQuestion::parse(p.payload()) {
                Ok((_, q)) => {
                    let r = DnsRepr { transaction_id: p.transaction_id(), opcode: p.opcode(), flags: p.flags(), question: q };
                    k(Some(&r))
                }
                Err(_) => k(None),
            },
            Err(_) => k(None),
        }
    }
    fn same(a: &DnsRepr, b: &DnsRepr, _: &()) -> bool {
        a == b
    }
    fn dirty_cause(_: &DnsRepr, off: &[usize]) -> Option<Vec<String>> {
        if off.iter().all(|&o| o == 2 || o == 3) {
            Some(vec!["flags-word".into()])
        } else {
            None
        }
    }
    fn mut_params(tier: Tier) -> (usize, usize) {
        match tier {
            Tier::Quick => (48, 100),
            Tier::Thorough => (300, 100),
        }
    }
    fn domain_doc() -> &'static str {
        "transaction_id {0,1,0x8000,0xffff} x opcode {Query, Status, Unknown(2), Unknown(7), Unknown(8), Unknown(15)} (4-bit field) x every combination of the 7 defined flag bits (128) x name {www.example.com, root, 'a', 'www'+compression pointer, one 63-byte label (the maximum) and one 62-byte label, a 255-byte name (the maximum) and a 254-byte name; the two maxima also in the quick tier} x type {A, AAAA, CNAME, NS, SOA, Unknown(0), Unknown(255)}; read back through DnsPacket::{transaction_id, opcode, flags} and DnsQuestion::parse"
    }
}
