//! C05 — sender monitor.
//! Part 1: every segment emitted in every tcp2 execution (both real endpoints monitored).
//! Part 2: tcp1 sender mode — one real socket, the explorer is the peer and answers with
//! arbitrary (also stale, shrinking, zero) ACK/window combinations; BFS with visited set.

use crate::core::*;
use crate::sendmon::{EmitCtx, SenderMon};
use crate::tcp1::{build_seg, One};
use crate::wirecheck as wc;
use serde_json::json;
use smoltcp::socket::tcp::State;

#[derive(Clone, Debug)]
pub struct TxCfg {
    pub name: &'static str,
    pub tx: usize,
    pub rx: usize,
    pub len: usize,
    pub chunk: usize,
    /// MSS option in the peer's SYN (None = absent)
    pub peer_mss: Option<u16>,
    /// window scale option in the peer's SYN (None = absent)
    pub peer_ws: Option<u8>,
    pub server: bool,
    pub mtu: usize,
    pub peer_isn: u32,
    /// the socket served an earlier connection (peer MSS 1460, window scale 7) that was reset
    pub reuse: bool,
    /// the socket has a timestamp generator (RFC 7323 timestamps offered / accepted)
    pub ts: bool,
    /// the peer's SYN carries a timestamp option (and so does every later segment of the peer)
    pub peer_ts: bool,
    /// alphabet includes writes / timer ticks during which the device refuses every frame
    pub bp: bool,
    /// congestion controller: 0 none (the window is the only limit), 1 Reno, 2 CUBIC. (With the
    /// reno/cubic cargo features on, a fresh socket defaults to CUBIC, so this is set explicitly.)
    pub cc: u8,
    /// (server only) an earlier peer's SYN (MSS 1460, window scale 7) was answered and then
    /// reset in SYN-RECEIVED: the socket went back to LISTEN by itself, without any API call
    pub synrcvd_rst: bool,
    /// (client only) simultaneous open: the peer's bare SYN (with its options) crosses ours; the
    /// socket goes SYN-SENT -> SYN-RECEIVED, the peer then acknowledges our SYN
    pub simul: bool,
    /// (server only) before the peer's handshake-completing ACK, a keep-alive-like segment
    /// (sequence number one below RCV.NXT, one garbage octet) makes the socket send a bare ACK
    /// from SYN-RECEIVED - a non-SYN segment before the connection is synchronized
    pub hs_probe: bool,
    /// the peer also sends DATA: segments of two octets carrying an ACK and a window, either in
    /// sequence or re-packetised (starting one octet before its SND.NXT: one old octet + one new)
    pub peer_data: bool,
}

#[derive(Clone, Debug, PartialEq)]
pub enum TxEv {
    /// peer data segment (see `TxCfg::peer_data`): `which`/`win` as for Ack, `back` = octets of
    /// overlap with what the peer sent before (0 or 1)
    AckData { which: u8, win: u8, back: u8 },
    /// peer sends an ACK: which = 0 dup of last, 1 last+1, 2 middle, 3 everything sent; win index
    Ack { which: u8, win: u8 },
    /// peer re-sends an earlier ACK segment verbatim (0 = the first one, 1 = the one before last)
    Stale(u8),
    AppWrite,
    AppClose,
    Tick,
    /// application write followed by a poll during which the device refuses every frame; the
    /// device accepts again afterwards (nothing is polled then)
    AppWriteBlocked,
    /// a timer tick during which the device refuses every frame
    TickBlocked,
}

pub struct Tx {
    cfg: TxCfg,
    w: One,
    mon: SenderMon,
    data: Vec<u8>,
    written: usize,
    closed: bool,
    last_ack: u32,
    acks_sent: Vec<(u32, u16)>,
    peer_seq: u32,
    peer_sent: u32,
    stale_used: bool,
    pending: Vec<Viol>,
}

/// NOP NOP timestamp(tsval 0x01020304, tsecr 0)
const TS_OPT: [u8; 12] = [1, 1, 8, 10, 1, 2, 3, 4, 0, 0, 0, 0];

fn syn_opts(cfg: &TxCfg) -> Vec<u8> {
    let mut o = vec![];
    if let Some(m) = cfg.peer_mss {
        o.extend_from_slice(&[2, 4, (m >> 8) as u8, m as u8]);
    }
    if let Some(s) = cfg.peer_ws {
        o.extend_from_slice(&[3, 3, s, 1]);
    }
    if cfg.peer_ts {
        o.extend_from_slice(&TS_OPT);
    }
    o
}

impl Tx {
    fn win_values(&self) -> Vec<u16> {
        let mss = match self.cfg.peer_mss {
            None | Some(0) => 536,
            Some(m) => m.max(48),
        };
        if self.cfg.peer_ws.map_or(false, |s| s >= 8) {
            return vec![0, 1, 1, 1, 2]; // scaled by 2^14: 0, 16 KiB, 32 KiB
        }
        vec![0, 1, 2, mss, 1000]
    }
    fn observe(&mut self, frames: Vec<Vec<u8>>) {
        let n = frames.len();
        let rq = self.w.sock().recv_queue();
        for f in frames {
            let ctx = EmitCtx {
                who: "socket",
                mtu: self.cfg.mtu,
                written: self.written,
                closed: self.closed,
                data: &self.data,
                rx_cap: self.cfg.rx,
                recv_queue_after: rq,
                only_frame_of_poll: n == 1,
                keep_alive: false,
                expect_isn: None,
            window_clamped_by_device: false,
            strict_latest_window: !self.stale_used,
            };
            let v = self.mon.check_emit(&f, &ctx);
            self.pending.extend(v);
        }
    }
    fn deliver(&mut self, seg: Vec<u8>) {
        if let Ok(ip) = wc::parse_ip(&seg) {
            if let Ok(t) = wc::parse_tcp(&ip, &seg) {
                self.mon.learn_seg(&t);
            }
        }
        self.w.dev.rx.push_back(seg);
        let f = self.w.poll();
        self.observe(f);
    }
}

impl Harness for Tx {
    type Cfg = TxCfg;
    type Ev = TxEv;
    fn new(cfg: &TxCfg) -> Tx {
        let mut w = One::with_mtu(cfg.rx, cfg.tx, 0x55, cfg.mtu);
        if cfg.ts {
            w.sock().set_tsval_generator(Some(|| 0x0a0b0c0d));
        }
        w.sock().set_congestion_control(match cfg.cc {
            1 => smoltcp::socket::tcp::CongestionControl::Reno,
            2 => smoltcp::socket::tcp::CongestionControl::Cubic,
            _ => smoltcp::socket::tcp::CongestionControl::None,
        });
        let mut t = Tx {
            cfg: cfg.clone(),
            mon: SenderMon::default(),
            data: crate::tcp2::pattern(0, cfg.len),
            written: 0,
            closed: false,
            last_ack: 0,
            acks_sent: vec![],
            peer_seq: cfg.peer_isn.wrapping_add(1),
            peer_sent: 0,
            stale_used: false,
            pending: vec![],
            w: One::new(1, 1, 0), // placeholder, swapped in below
        };
        let p = cfg.peer_isn;
        let opts = syn_opts(cfg);
        if cfg.reuse {
            // earlier connection on the same socket object, with different negotiated options
            let q = p.wrapping_add(0x2468_ace0);
            let o0 = [2u8, 4, 5, 180, 3, 3, 7, 1];
            let iss0;
            if cfg.server {
                w.sock().listen(80).unwrap();
                let mut fr = w.ingress_single(build_seg(q, None, wc::TCP_SYN, 1000, &o0, &[]));
                fr.extend(w.egress());
                iss0 = fr.iter().filter_map(|f| wc::parse_ip(f).ok().and_then(|ip| wc::parse_tcp(&ip, f).ok())).find(|t| t.has(wc::TCP_SYN)).map(|t| t.seq).unwrap_or(0);
                w.ingress_single(build_seg(q.wrapping_add(1), Some(iss0.wrapping_add(1)), 0, 1000, &[], &[]));
            } else {
                assert!(w.connect());
                let fr = w.egress();
                iss0 = fr.iter().filter_map(|f| wc::parse_ip(f).ok().and_then(|ip| wc::parse_tcp(&ip, f).ok())).find(|t| t.has(wc::TCP_SYN)).map(|t| t.seq).unwrap_or(0);
                w.ingress_single(build_seg(q, Some(iss0.wrapping_add(1)), wc::TCP_SYN, 1000, &o0, &[]));
            }
            w.egress();
            let _ = w.sock().send_slice(b"old connection data");
            w.egress();
            w.ingress_single(build_seg(q.wrapping_add(1), Some(iss0.wrapping_add(1)), wc::TCP_RST, 0, &[], &[]));
            w.egress();
            if w.state() != State::Closed {
                w.sock().abort();
                w.egress();
            }
        }
        if cfg.server {
            w.sock().listen(80).unwrap();
            if cfg.synrcvd_rst {
                let q = p.wrapping_add(0x1357_9bdf);
                let o0 = [2u8, 4, 5, 180, 3, 3, 7, 1];
                w.ingress_single(build_seg(q, None, wc::TCP_SYN, 1000, &o0, &[]));
                w.egress();
                assert!(w.state() == State::SynReceived, "earlier SYN not taken");
                w.ingress_single(build_seg(q.wrapping_add(1), None, wc::TCP_RST, 0, &[], &[]));
                w.egress();
                assert!(w.state() == State::Listen, "RST in SYN-RECEIVED did not return the socket to LISTEN: {}", w.state());
            }
            std::mem::swap(&mut t.w, &mut w);
            t.deliver(build_seg(p, None, wc::TCP_SYN, 1000, &opts, &[]));
            let iss = t.mon.iss.unwrap_or(0);
            t.last_ack = iss.wrapping_add(1);
            // with a large peer shift the handshake ACK's window field is small, so that the
            // highest right edge the socket is ever given stays below the amount of data queued
            let hs_win: u16 = if cfg.peer_ws.map_or(false, |s| s >= 8) { 1 } else { 1000 };
            if cfg.hs_probe {
                let probe = build_seg(p, Some(t.last_ack), 0, hs_win, if cfg.peer_ts { &TS_OPT } else { &[] }, &[0]);
                t.deliver(probe);
                if t.w.state() != State::SynReceived {
                    t.pending.push(Viol::new("MACHINERY/hs-probe", format!("state {} after the probe", t.w.state())));
                }
            }
            let a = build_seg(p.wrapping_add(1), Some(t.last_ack), 0, hs_win, if cfg.peer_ts { &TS_OPT } else { &[] }, &[]);
            t.acks_sent.push((t.last_ack, hs_win));
            t.deliver(a);
        } else {
            assert!(w.connect());
            std::mem::swap(&mut t.w, &mut w);
            let f = t.w.poll();
            t.observe(f);
            let iss = t.mon.iss.unwrap_or(0);
            t.last_ack = iss.wrapping_add(1);
            t.acks_sent.push((t.last_ack, 1000));
            if cfg.simul {
                t.deliver(build_seg(p, None, wc::TCP_SYN, 1000, &opts, &[]));
                if t.w.state() != State::SynReceived {
                    t.pending.push(Viol::new("MACHINERY/simultaneous-open", format!("state {} after the crossing SYN", t.w.state())));
                }
                t.deliver(build_seg(p.wrapping_add(1), Some(t.last_ack), 0, 1000, if cfg.peer_ts { &TS_OPT } else { &[] }, &[]));
            } else {
                t.deliver(build_seg(p, Some(t.last_ack), wc::TCP_SYN, 1000, &opts, &[]));
            }
        }
        if t.w.state() != State::Established {
            t.pending.push(Viol::new("MACHINERY/handshake-failed", format!("state {}", t.w.state())));
        }
        t
    }
    fn enabled(&self) -> Vec<(TxEv, u32)> {
        let mut v = vec![];
        for which in 0..4u8 {
            for win in 0..5u8 {
                v.push((TxEv::Ack { which, win }, 0));
            }
        }
        if self.cfg.peer_data && self.peer_sent < 8 {
            for which in [0u8, 3] {
                for win in 0..5u8 {
                    v.push((TxEv::AckData { which, win, back: 0 }, 0));
                    if self.peer_sent > 0 {
                        v.push((TxEv::AckData { which, win, back: 1 }, 0));
                    }
                }
            }
        }
        if self.acks_sent.len() >= 2 {
            v.push((TxEv::Stale(0), 0));
            v.push((TxEv::Stale(1), 0));
        }
        if self.written < self.data.len() {
            v.push((TxEv::AppWrite, 0));
            if self.cfg.bp {
                v.push((TxEv::AppWriteBlocked, 0));
            }
        } else if !self.closed {
            v.push((TxEv::AppClose, 0));
        }
        v.push((TxEv::Tick, 0));
        if self.cfg.bp {
            v.push((TxEv::TickBlocked, 0));
        }
        v
    }
    fn apply(&mut self, ev: &TxEv, out: &mut Vec<Viol>) {
        match *ev {
            TxEv::Ack { which, win } => {
                let nxt = self.mon.highest_sent.unwrap_or(self.last_ack);
                let span = wc::seq_diff(nxt, self.last_ack).max(0) as u32;
                let a = match which {
                    0 => self.last_ack,
                    1 => self.last_ack.wrapping_add(span.min(1)),
                    2 => self.last_ack.wrapping_add(span / 2),
                    _ => nxt,
                };
                let w = self.win_values()[win as usize];
                self.last_ack = a;
                self.acks_sent.push((a, w));
                let seg = build_seg(self.peer_seq, Some(a), 0, w, if self.cfg.peer_ts { &TS_OPT } else { &[] }, &[]);
                self.deliver(seg);
            }
            TxEv::AckData { which, win, back } => {
                let nxt = self.mon.highest_sent.unwrap_or(self.last_ack);
                let a = if which == 0 { self.last_ack } else { nxt };
                let w = self.win_values()[win as usize];
                self.last_ack = a;
                self.acks_sent.push((a, w));
                let seq = self.peer_seq.wrapping_sub(back as u32);
                let payload: Vec<u8> = (0..2u32).map(|i| 0x80u8.wrapping_add((self.peer_sent.wrapping_sub(back as u32).wrapping_add(i)) as u8)).collect();
                let seg = build_seg(seq, Some(a), wc::TCP_PSH, w, if self.cfg.peer_ts { &TS_OPT } else { &[] }, &payload);
                self.peer_seq = seq.wrapping_add(2);
                self.peer_sent = self.peer_sent + 2 - back as u32;
                self.deliver(seg);
            }
            TxEv::Stale(i) => {
                self.stale_used = true;
                let idx = if i == 0 { 0 } else { self.acks_sent.len() - 2 };
                let (a, w) = self.acks_sent[idx];
                let seg = build_seg(self.peer_seq, Some(a), 0, w, if self.cfg.peer_ts { &TS_OPT } else { &[] }, &[]);
                self.deliver(seg);
            }
            TxEv::AppWrite => {
                let n = self.cfg.chunk.min(self.data.len() - self.written);
                let d = self.data[self.written..self.written + n].to_vec();
                if let Ok(k) = self.w.sock().send_slice(&d) {
                    self.written += k;
                }
                let f = self.w.poll();
                self.observe(f);
            }
            TxEv::AppWriteBlocked => {
                let n = self.cfg.chunk.min(self.data.len() - self.written);
                let d = self.data[self.written..self.written + n].to_vec();
                if let Ok(k) = self.w.sock().send_slice(&d) {
                    self.written += k;
                }
                self.w.dev.tx_budget = Some(0);
                let f = self.w.poll();
                self.w.dev.tx_budget = None;
                if !f.is_empty() {
                    self.pending.push(Viol::new("MACHINERY/blocked-device-transmitted", format!("{} frames", f.len())));
                }
            }
            TxEv::TickBlocked => {
                if let Some(t) = self.w.poll_at() {
                    if t > self.w.now {
                        self.w.now = t;
                    }
                    self.w.dev.tx_budget = Some(0);
                    let f = self.w.poll();
                    self.w.dev.tx_budget = None;
                    if !f.is_empty() {
                        self.pending.push(Viol::new("MACHINERY/blocked-device-transmitted", format!("{} frames", f.len())));
                    }
                }
            }
            TxEv::AppClose => {
                self.w.sock().close();
                self.closed = true;
                let f = self.w.poll();
                self.observe(f);
            }
            TxEv::Tick => {
                if let Some(t) = self.w.poll_at() {
                    if t > self.w.now {
                        self.w.now = t;
                    }
                    let f = self.w.poll();
                    self.observe(f);
                }
            }
        }
        if std::env::var("MC_TRACE").is_ok() {
            let img = format!("{:?}", self.w.sockets.get::<smoltcp::socket::tcp::Socket>(self.w.h));
            let cut = img.find("timer:").unwrap_or(0);
            let end = img[cut..].find("assembler").map(|i| i + cut).unwrap_or(img.len());
            eprintln!("after {:?}: state {} {} poll_at {:?} now {}", ev, self.w.state(), &img[cut..end], self.w.poll_at(), self.w.now);
            let f = img.find("remote_win_len").unwrap_or(0);
            eprintln!("     {}", &img[f..(f + 400).min(img.len())]);
        }
        // C02 (i), against an adversarial peer: a live socket with unacknowledged or unsent data
        // (or an unacknowledged FIN) must have a finite wake-up time. Judged after the polls of
        // this event, with the device accepting frames.
        {
            let st = self.w.state();
            let sq = self.w.sock().send_queue();
            let live = !matches!(st, State::Closed | State::Listen | State::TimeWait);
            let needs = live && (sq > 0 || matches!(st, State::SynSent | State::SynReceived | State::FinWait1 | State::Closing | State::LastAck));
            if needs && self.w.poll_at().is_none() {
                self.pending.push(Viol::new(
                    format!("C02/no-deadline/adversarial-peer/{}", st),
                    format!("state {} send_queue {} but Interface::poll_at is None after {:?}", st, sq, ev),
                ));
            }
        }
        out.append(&mut self.pending);
    }
    fn fingerprint(&self) -> u128 {
        let img = format!("{:?}", self.w.sockets);
        fp128(&format!(
            "{}|{}|{}|{}|{:?}|{:?}|{:?}|{}|{}|{:?}|{}|{}",
            img, self.written, self.closed, self.last_ack, self.acks_sent.first(), self.acks_sent.last(), self.mon.max_edge, self.w.now,
            self.stale_used, self.mon.last_edge, self.peer_seq, self.peer_sent
        ))
    }
    fn outcome(&self) -> String {
        format!("{} data_segs {} retrans {} probes {}", self.w.state(), self.mon.data_segs, self.mon.retrans_segs, self.mon.probes)
    }
}

pub fn tx_configs(tier: Tier) -> Vec<(TxCfg, usize)> {
    let (mut d, dbig) = if tier == Tier::Quick { (6, 2) } else { (8, 3) };
    if let Ok(x) = std::env::var("TX_D") { d = x.parse().unwrap(); }
    let base = TxCfg { name: "base", tx: 64, rx: 64, len: 40, chunk: 16, peer_mss: Some(100), peer_ws: None, server: true, mtu: 1500, peer_isn: 0xffff_fff0, reuse: false, ts: false, peer_ts: false, bp: false, cc: 0, synrcvd_rst: false, simul: false, hs_probe: false, peer_data: false };
    vec![
        (base.clone(), d),
        (TxCfg { name: "mss-absent", peer_mss: None, len: 30, chunk: 30, ..base.clone() }, d),
        (TxCfg { name: "mss-0", peer_mss: Some(0), len: 30, chunk: 30, ..base.clone() }, d),
        (TxCfg { name: "mss-1", peer_mss: Some(1), tx: 128, len: 100, chunk: 100, ..base.clone() }, d),
        (TxCfg { name: "mss-47", peer_mss: Some(47), tx: 128, len: 100, chunk: 100, ..base.clone() }, d),
        (TxCfg { name: "mss-48-client", peer_mss: Some(48), tx: 128, len: 100, chunk: 100, server: false, ..base.clone() }, d),
        (TxCfg { name: "mss-536-mtu-100", peer_mss: Some(536), tx: 256, len: 200, chunk: 200, mtu: 100, ..base.clone() }, d),
        (TxCfg { name: "ws2", peer_ws: Some(2), tx: 256, len: 120, chunk: 60, ..base.clone() }, d),
        (TxCfg { name: "bigrx-no-peer-ws", rx: 70000, len: 20, chunk: 20, ..base.clone() }, dbig),
        (TxCfg { name: "bigrx-peer-ws0", rx: 70000, len: 20, chunk: 20, peer_ws: Some(0), ..base.clone() }, dbig),
        (TxCfg { name: "bigrx-client-no-peer-ws", rx: 70000, len: 20, chunk: 20, server: false, ..base.clone() }, dbig),
        // our own window shift (rx > 64 KiB) larger than the peer's, and more data than the peer's
        // largest window: the peer's window field must be read with the PEER's shift
        (TxCfg { name: "bigrx-peer-ws0-len2500", rx: 70000, tx: 4096, len: 2500, chunk: 2500, peer_mss: Some(536), peer_ws: Some(0), ..base.clone() }, dbig + 1),
        (TxCfg { name: "bigrx-client-peer-ws1-len2500", rx: 300000, tx: 4096, len: 2500, chunk: 2500, peer_mss: Some(536), peer_ws: Some(1), server: false, ..base.clone() }, dbig + 1),
        // the listener saw another peer's SYN before (reset in SYN-RECEIVED, no API call in between)
        (TxCfg { name: "synrcvd-rst-then-mss-absent", synrcvd_rst: true, peer_mss: None, tx: 2048, len: 1300, chunk: 1300, ..base.clone() }, d.min(5)),
        (TxCfg { name: "synrcvd-rst-then-bigrx-no-ws", synrcvd_rst: true, rx: 70000, len: 20, chunk: 20, ..base.clone() }, dbig),
        // congestion-controlled senders (the congestion window limits below the peer's window)
        (TxCfg { name: "simultaneous-open-mss-200", simul: true, server: false, peer_mss: Some(200), tx: 1024, len: 700, chunk: 700, ..base.clone() }, d.min(5)),
        (TxCfg { name: "simultaneous-open-mss-48-ws2", simul: true, server: false, peer_mss: Some(48), peer_ws: Some(2), tx: 256, len: 200, chunk: 200, ..base.clone() }, d.min(5)),
        (TxCfg { name: "bigrx-hs-probe-peer-ws1", hs_probe: true, rx: 100000, tx: 4096, len: 2500, chunk: 2500, peer_mss: Some(536), peer_ws: Some(1), ..base.clone() }, dbig),
        (TxCfg { name: "hs-probe-small", hs_probe: true, peer_ws: Some(3), ..base.clone() }, d.min(5)),
        (TxCfg { name: "peer-sends-data-too", peer_data: true, tx: 128, len: 100, chunk: 100, ..base.clone() }, d.min(5)),
        (TxCfg { name: "peer-sends-data-too-client-ws2", peer_data: true, server: false, peer_ws: Some(2), tx: 128, len: 100, chunk: 50, ..base.clone() }, d.min(5)),
        (TxCfg { name: "reno", cc: 1, tx: 256, len: 200, chunk: 100, peer_mss: Some(48), ..base.clone() }, d),
        (TxCfg { name: "cubic", cc: 2, tx: 256, len: 200, chunk: 100, peer_mss: Some(48), ..base.clone() }, d),
        // device back-pressure while the application writes / while timers fire
        (TxCfg { name: "blocked-device", bp: true, tx: 128, len: 48, chunk: 16, ..base.clone() }, d.min(6)),
        // window scale 14 / 15 (15 must be read as 14, RFC 7323) with more data than the real window
        (TxCfg { name: "peer-ws14", peer_ws: Some(14), rx: 64, tx: 40000, len: 36000, chunk: 36000, peer_mss: Some(1460), ..base.clone() }, 3),
        (TxCfg { name: "peer-ws15", peer_ws: Some(15), rx: 64, tx: 40000, len: 36000, chunk: 36000, peer_mss: Some(1460), ..base.clone() }, 3),
        // timestamps: 12 octets of options in every segment, which the MTU and MSS limits must absorb
        (TxCfg { name: "ts-mss-536-mtu-100", ts: true, peer_ts: true, peer_mss: Some(536), tx: 256, len: 200, chunk: 200, mtu: 100, ..base.clone() }, d),
        (TxCfg { name: "ts-mss-48-client", ts: true, peer_ts: true, peer_mss: Some(48), tx: 128, len: 100, chunk: 100, server: false, ..base.clone() }, d),
        (TxCfg { name: "ts-offered-peer-without", ts: true, peer_ts: false, peer_mss: Some(536), tx: 256, len: 200, chunk: 200, mtu: 100, ..base.clone() }, d.min(5)),
        // reused socket objects: nothing negotiated on the earlier connection may survive
        (TxCfg { name: "reuse-srv-mss-absent", reuse: true, peer_mss: None, tx: 2048, len: 1300, chunk: 1300, ..base.clone() }, d.min(5)),
        (TxCfg { name: "reuse-cli-mss-0", reuse: true, peer_mss: Some(0), server: false, tx: 2048, len: 1300, chunk: 1300, ..base.clone() }, d.min(5)),
        (TxCfg { name: "reuse-srv-bigrx-no-ws", reuse: true, rx: 70000, len: 20, chunk: 20, ..base.clone() }, dbig),
    ]
}

/// the sender BFS for C02: same exploration, only the finite-deadline clause is collected
pub fn explore_for_c02(rep: &mut Report, tier: Tier) {
    let lim = Limits { max_states: 3_000_000, max_wall_s: if tier == Tier::Quick { 30.0 } else { 600.0 } };
    for (cfg, d) in tx_configs(tier) {
        let mut samples = vec![];
        let mut found = vec![];
        match bfs::<Tx>("tcp1tx", &cfg, d, &lim, &mut found, &mut samples) {
            Ok(st) => rep.absorb(&format!("tcp1 sender vs adversarial peer cfg={} depth<={}", cfg.name, d), &st),
            Err(e) => rep.machinery_errors.push(e),
        }
        for f in found {
            if f.viol.sig.starts_with("MACHINERY") {
                rep.machinery_errors.push(f.viol.detail);
            } else if f.viol.sig.starts_with("C02/") || f.viol.sig.starts_with("panic/") {
                rep.found.push(f);
            }
        }
    }
}

pub fn run(tier: Tier) -> i32 {
    let mut rep = Report::new("C05", tier);
    // part 2 first (cheap)
    let lim = Limits { max_states: 3_000_000, max_wall_s: if tier == Tier::Quick { 30.0 } else { 600.0 } };
    for (cfg, d) in tx_configs(tier) {
        let mut samples = vec![];
        let mut found = vec![];
        let t0 = std::time::Instant::now();
        match bfs::<Tx>("tcp1tx", &cfg, d, &lim, &mut found, &mut samples) {
            Ok(st) => {
                eprintln!("tcp1tx cfg={} d<={} states={} transitions={} wall={:.1}s", cfg.name, d, st.states, st.transitions, t0.elapsed().as_secs_f64());
                rep.absorb(&format!("tcp1 sender cfg={} depth<={}", cfg.name, d), &st);
                if rep.samples.len() < 3 {
                    rep.samples.extend(samples);
                }
            }
            Err(e) => rep.machinery_errors.push(e),
        }
        for f in found {
            if f.viol.sig.starts_with("MACHINERY") {
                rep.machinery_errors.push(f.viol.detail);
            } else if f.viol.sig.starts_with("C05/") || f.viol.sig.starts_with("panic/") {
                rep.found.push(f);
            }
        }
    }
    crate::tcp2::explore_all(&mut rep, tier, &["C05/", "panic/"]);
    rep.cov("rule", json!("part 1: monitor over every segment of every execution of the deviation-bounded tcp2 search; part 2: BFS with visited set over one real socket whose peer (the explorer) sends ACK in {dup, +1, middle, all} x window in {0,1,2,mss,1000}, replays stale ACKs, with peer MSS in {absent,0,1,47,48,100,536}, window scale in {absent,0,1,2,14,15}, receive buffers up to 70000, application write/close as explicit events and timer ticks"));
    rep.finish()
}

fn tx_cfg_from(art: &serde_json::Value) -> Option<TxCfg> {
    let s = art["replay"]["config"].as_str()?;
    tx_configs(Tier::Thorough).into_iter().map(|c| c.0).find(|c| format!("{:?}", c) == s)
}
/// C02 = deviation-bounded two-endpoint search (tcp2) + the finite-deadline clause against the
/// adversarial peer of this module
pub fn run_c02(tier: Tier) -> i32 {
    let mut rep = Report::new("C02", tier);
    crate::tcp2::explore_all(&mut rep, tier, &["C02/", "panic/"]);
    explore_for_c02(&mut rep, tier);
    rep.cov("rule_adversarial_peer", json!("after every event of the tcp1 sender BFS (explorer plays the peer: ACK {dup,+1,middle,all} x window values incl. 0 and shrinking windows, stale ACK replays, writes, close, ticks, device refusing frames): a live socket with queued/unacknowledged data or an unacknowledged SYN/FIN must make Interface::poll_at return Some"));
    rep.finish()
}
pub fn replay_c02(art: &serde_json::Value) -> i32 {
    replay(art)
}

pub fn replay(art: &serde_json::Value) -> i32 {
    if art["replay"]["harness"].as_str() == Some("tcp1tx") {
        return match tx_cfg_from(art) {
            Some(c) => replay_artifact::<Tx>(&c, art),
            None => 2,
        };
    }
    crate::tcp2::replay_c01(art)
}
