//! C05 — sender monitor. Part 1: every segment emitted in every tcp2 execution (both real
//! endpoints monitored, see tcp2::on_emit). Part 2 (tcp1 sender mode, adversarial peer): TODO.
use crate::core::*;

pub fn run(tier: Tier) -> i32 {
    let mut rep = Report::new("C05", tier);
    crate::tcp2::explore_all(&mut rep, tier, &["C05/", "panic/"]);
    rep.finish()
}
pub fn replay(art: &serde_json::Value) -> i32 {
    crate::tcp2::replay_c01(art)
}
