//! mc-core: exhaustive explorers (E1), evidence writer, known-findings matcher.
//!
//! Everything here is generic; the harness modules drive the REAL smoltcp code.

use serde_json::{json, Value};
use std::collections::hash_map::DefaultHasher;
use std::collections::{BTreeMap, HashMap, HashSet};
use std::hash::{Hash, Hasher};
use std::panic::{catch_unwind, AssertUnwindSafe};
use std::path::PathBuf;
use std::sync::atomic::{AtomicBool, AtomicU64, Ordering};
use std::sync::Mutex;
use std::time::Instant;

pub fn verif_dir() -> PathBuf {
    if let Ok(d) = std::env::var("VERIF_DIR") {
        return PathBuf::from(d);
    }
    PathBuf::from("/verif")
}

#[derive(Clone, Copy, PartialEq, Eq, Debug)]
pub enum Tier {
    Quick,
    Thorough,
}
impl Tier {
    pub fn name(self) -> &'static str {
        match self {
            Tier::Quick => "quick",
            Tier::Thorough => "thorough",
        }
    }
}

/// A violation of a property established by an oracle on the real code.
#[derive(Clone, Debug)]
pub struct Viol {
    /// clause + minimal observable cause; identifies the failing input/history class
    pub sig: String,
    /// human readable explanation
    pub detail: String,
}
impl Viol {
    pub fn new(sig: impl Into<String>, detail: impl Into<String>) -> Viol {
        Viol { sig: sig.into(), detail: detail.into() }
    }
}

/// A violation together with what is needed to replay it.
#[derive(Clone, Debug)]
pub struct Found {
    pub viol: Viol,
    /// JSON object: {"harness":..., "config":..., "choices":[...], "events":[...]} or an input
    pub replay: Value,
}

pub fn fp128<T: Hash + ?Sized>(t: &T) -> u128 {
    let mut h1 = DefaultHasher::new();
    0x9e3779b97f4a7c15u64.hash(&mut h1);
    t.hash(&mut h1);
    let mut h2 = DefaultHasher::new();
    0xc2b2ae3d27d4eb4fu64.hash(&mut h2);
    t.hash(&mut h2);
    ((h1.finish() as u128) << 64) | (h2.finish() as u128)
}

pub fn panic_msg(e: Box<dyn std::any::Any + Send>) -> String {
    if let Some(s) = e.downcast_ref::<&str>() {
        s.to_string()
    } else if let Some(s) = e.downcast_ref::<String>() {
        s.clone()
    } else {
        "<non-string panic>".into()
    }
}

/// Silence the default panic hook (we catch and report panics ourselves) but keep the
/// location of the last panic for reports.
pub static LAST_PANIC_LOC: Mutex<String> = Mutex::new(String::new());
thread_local! {
    pub static TL_PANIC_LOC: std::cell::RefCell<String> = std::cell::RefCell::new(String::new());
}
pub fn install_quiet_panic_hook() {
    std::panic::set_hook(Box::new(|info| {
        let loc = info
            .location()
            .map(|l| format!("{}:{}", l.file(), l.line()))
            .unwrap_or_default();
        TL_PANIC_LOC.with(|c| *c.borrow_mut() = loc.clone());
        if let Ok(mut g) = LAST_PANIC_LOC.lock() {
            *g = loc;
        }
    }));
}
pub fn last_panic_loc() -> String {
    let l = TL_PANIC_LOC.with(|c| c.borrow().clone());
    if !l.is_empty() {
        return l;
    }
    // a panic raised on a worker thread and re-raised here: fall back to the last one seen
    LAST_PANIC_LOC.lock().map(|g| g.clone()).unwrap_or_default()
}
/// Strip the absolute prefix so signatures are stable wherever the subject tree lives:
/// "/repo/src/x.rs:12" and "/tmp/copy/src/x.rs:12" -> "src/x.rs"
pub fn panic_site() -> String {
    let l = last_panic_loc();
    let l = match (l.starts_with('/'), l.rfind("/src/")) {
        (true, Some(i)) => l[i + 1..].to_string(),
        _ => l,
    };
    // drop the line number: line numbers move with unrelated edits
    match l.rfind(':') {
        Some(i) => l[..i].to_string(),
        None => l,
    }
}

// ---------------------------------------------------------------------------------------
// Harness trait (replay based: a state is the list of choices that reaches it)
// ---------------------------------------------------------------------------------------

pub trait Harness: Sized {
    type Cfg: Clone + std::fmt::Debug + Sync + Send;
    type Ev: Clone + std::fmt::Debug;
    fn new(cfg: &Self::Cfg) -> Self;
    /// Enabled events with their deviation cost. Index 0 is the default environment
    /// answer. Empty = terminal.
    fn enabled(&self) -> Vec<(Self::Ev, u32)>;
    /// Apply one event to the real code and run all oracles.
    fn apply(&mut self, ev: &Self::Ev, out: &mut Vec<Viol>);
    /// Canonical fingerprint of everything that determines future behaviour.
    fn fingerprint(&self) -> u128;
    /// Called when a run ends (enabled() empty or horizon); end-of-run oracles.
    fn finish(&mut self, _horizon_hit: bool, _out: &mut Vec<Viol>) {}
    /// A label summarising the outcome of a run (for vacuity statistics).
    fn outcome(&self) -> String {
        String::new()
    }
}

pub struct RunResult<H: Harness> {
    pub h: Option<H>,
    pub viols: Vec<Viol>,
    pub events: Vec<String>,
    pub panicked: bool,
}

/// Replay a list of choices from the initial state. A choice out of range is a hard
/// machinery error (None returned).
pub fn replay_choices<H: Harness>(
    cfg: &H::Cfg,
    choices: &[u16],
    want_events: bool,
) -> Result<RunResult<H>, String> {
    let mut viols = Vec::new();
    let mut events = Vec::new();
    let r = catch_unwind(AssertUnwindSafe(|| H::new(cfg)));
    let mut h = match r {
        Ok(h) => h,
        Err(e) => {
            // the constructor drives the real code to the initial state: a panic there is
            // a finding about the subject unless it comes from the harness itself
            let site = panic_site();
            if !last_panic_loc().starts_with('/') {
                return Err(format!("harness construction panicked: {} at {}", panic_msg(e), last_panic_loc()));
            }
            viols.push(Viol::new(format!("panic/{}", site), format!("panic while reaching the initial state: {} at {}", panic_msg(e), last_panic_loc())));
            return Ok(RunResult { h: None, viols, events, panicked: true });
        }
    };
    for (i, &c) in choices.iter().enumerate() {
        let en = match catch_unwind(AssertUnwindSafe(|| h.enabled())) {
            Ok(en) => en,
            Err(e) => {
                viols.push(Viol::new(
                    format!("panic/{}", panic_site()),
                    format!("panic in enabled(): {} at {}", panic_msg(e), last_panic_loc()),
                ));
                return Ok(RunResult { h: None, viols, events, panicked: true });
            }
        };
        if c as usize >= en.len() {
            return Err(format!(
                "replay divergence: choice {} out of range ({} enabled) at step {}",
                c,
                en.len(),
                i
            ));
        }
        let ev = en[c as usize].0.clone();
        if want_events {
            events.push(format!("{:?}", ev));
        }
        let r = catch_unwind(AssertUnwindSafe(|| h.apply(&ev, &mut viols)));
        if let Err(e) = r {
            viols.push(Viol::new(
                format!("panic/{}", panic_site()),
                format!("panic applying {:?}: {} at {}", ev, panic_msg(e), last_panic_loc()),
            ));
            return Ok(RunResult { h: None, viols, events, panicked: true });
        }
    }
    Ok(RunResult { h: Some(h), viols, events, panicked: false })
}

#[derive(Default, Debug)]
pub struct Stats {
    pub states: u64,
    pub transitions: u64,
    pub real_steps: u64,
    pub traces_validated: u64,
    pub runs: u64,
    pub max_depth: u64,
    pub exhaustive: bool,
    pub cap_note: String,
    pub outcomes: BTreeMap<String, u64>,
    pub per_level: Vec<u64>,
}

pub struct Limits {
    pub max_states: u64,
    pub max_wall_s: f64,
}
impl Default for Limits {
    fn default() -> Self {
        Limits { max_states: 50_000_000, max_wall_s: 3600.0 }
    }
}

/// Level-synchronous BFS with visited set over fingerprints; states are choice histories.
/// Deterministic counts independent of thread count (dedup is done sequentially in history
/// order after each level).
pub fn bfs<H: Harness>(
    harness_name: &str,
    cfg: &H::Cfg,
    depth: usize,
    limits: &Limits,
    found: &mut Vec<Found>,
    samples: &mut Vec<Value>,
) -> Result<Stats, String>
where
    H::Cfg: Sync,
{
    use rayon::prelude::*;
    let t0 = Instant::now();
    let mut stats = Stats { exhaustive: true, ..Default::default() };
    let init = replay_choices::<H>(cfg, &[], false)?;
    let h0 = init.h.ok_or("initial state panicked")?;
    let fp0 = h0.fingerprint();
    drop(h0);
    let mut visited: HashSet<u128> = HashSet::new();
    visited.insert(fp0);
    stats.states = 1;
    stats.per_level.push(1);
    let mut frontier: Vec<(Vec<u16>, u128)> = vec![(vec![], fp0)];
    let mut seen_sigs: HashSet<String> = found.iter().map(|f| f.viol.sig.clone()).collect();
    let stop = AtomicBool::new(false);
    let steps = AtomicU64::new(0);
    let validated = AtomicU64::new(0);
    let mut deepest: Vec<u16> = vec![];
    for d in 0..depth {
        if frontier.is_empty() {
            break;
        }
        // expand each frontier state in parallel
        let results: Vec<Result<Vec<(Vec<u16>, u128, Vec<Viol>, bool)>, String>> = frontier
            .par_iter()
            .map(|(hist, fp)| {
                if stop.load(Ordering::Relaxed) {
                    return Ok(vec![]);
                }
                let r = replay_choices::<H>(cfg, hist, false)?;
                steps.fetch_add(hist.len() as u64, Ordering::Relaxed);
                let h = match r.h {
                    Some(h) => h,
                    None => return Err(format!("replay of visited state panicked: {:?}", hist)),
                };
                if h.fingerprint() != *fp {
                    return Err(format!(
                        "NONDETERMINISM: replay of {:?} reached a different fingerprint",
                        hist
                    ));
                }
                validated.fetch_add(1, Ordering::Relaxed);
                let n = h.enabled().len();
                drop(h);
                let mut out = Vec::with_capacity(n);
                for c in 0..n {
                    let mut h2 = hist.clone();
                    h2.push(c as u16);
                    let r = replay_choices::<H>(cfg, &h2, false)?;
                    steps.fetch_add(h2.len() as u64, Ordering::Relaxed);
                    // only violations produced by the LAST step are new
                    // (earlier ones were reported when the prefix was explored);
                    // we re-collect all and dedup by signature globally.
                    match r.h {
                        Some(h) => out.push((h2, h.fingerprint(), r.viols, false)),
                        None => out.push((h2, 0, r.viols, true)),
                    }
                }
                Ok(out)
            })
            .collect();
        let mut next: Vec<(Vec<u16>, u128)> = Vec::new();
        for r in results {
            let v = r?;
            for (hist, fp, viols, panicked) in v {
                stats.transitions += 1;
                for viol in viols {
                    if seen_sigs.insert(viol.sig.clone()) {
                        let ev = replay_choices::<H>(cfg, &hist, true).map(|r| r.events).unwrap_or_default();
                        found.push(Found {
                            viol,
                            replay: json!({"harness": harness_name, "config": format!("{:?}", cfg),
                                "choices": hist, "events": ev}),
                        });
                    }
                }
                if panicked {
                    continue;
                }
                if visited.insert(fp) {
                    stats.states += 1;
                    if hist.len() > deepest.len() {
                        deepest = hist.clone();
                    }
                    next.push((hist, fp));
                }
            }
        }
        stats.per_level.push(next.len() as u64);
        stats.max_depth = (d + 1) as u64;
        frontier = next;
        if stats.states > limits.max_states || t0.elapsed().as_secs_f64() > limits.max_wall_s {
            stats.exhaustive = false;
            stats.cap_note = format!(
                "cap hit after completing depth {} (states={}, wall={:.0}s)",
                d + 1,
                stats.states,
                t0.elapsed().as_secs_f64()
            );
            break;
        }
    }
    stats.real_steps = steps.load(Ordering::Relaxed);
    stats.traces_validated = validated.load(Ordering::Relaxed);
    if !deepest.is_empty() {
        if let Ok(r) = replay_choices::<H>(cfg, &deepest, true) {
            samples.push(json!({"harness": harness_name, "config": format!("{:?}", cfg), "deepest_history": r.events}));
        }
    }
    Ok(stats)
}

/// Deviation-bounded stateless search (iterative context bounding over environment events).
/// Explores every execution with at most `k` units of deviation cost; each execution is
/// continued under the default policy (choice 0) until the harness is terminal or `horizon`
/// events were applied.
pub fn devbound<H: Harness>(
    harness_name: &str,
    cfg: &H::Cfg,
    k: u32,
    horizon: usize,
    limits: &Limits,
    found_out: &mut Vec<Found>,
    samples: &mut Vec<Value>,
) -> Result<Stats, String>
where
    H::Cfg: Sync,
{
    let t0 = Instant::now();
    struct Shared {
        found: Vec<Found>,
        seen_sigs: HashSet<String>,
        outcomes: BTreeMap<String, u64>,
        per_level: Vec<u64>,
        sample_per_level: HashMap<u32, Value>,
        err: Option<String>,
        fps: HashSet<u128>,
        validated: u64,
    }
    let shared = Mutex::new(Shared {
        found: vec![],
        seen_sigs: found_out.iter().map(|f| f.viol.sig.clone()).collect(),
        outcomes: BTreeMap::new(),
        per_level: vec![0; (k + 1) as usize],
        sample_per_level: HashMap::new(),
        err: None,
        fps: HashSet::new(),
        validated: 0,
    });
    let runs = AtomicU64::new(0);
    let steps = AtomicU64::new(0);
    let maxlen = AtomicU64::new(0);
    let capped = AtomicBool::new(false);

    // one execution: replay prefix, then defaults. Returns (choices, points) where points[i] =
    // enabled costs at step i.
    struct Exec {
        choices: Vec<u16>,
        costs: Vec<Vec<u32>>, // per step, cost of each enabled alternative
        used: u32,
    }
    fn run_one<H: Harness>(
        cfg: &H::Cfg,
        prefix: &[u16],
        horizon: usize,
        viols: &mut Vec<Viol>,
        fps: &mut Vec<u128>,
    ) -> Result<(Exec, String), String> {
        let mut ex = Exec { choices: vec![], costs: vec![], used: 0 };
        let mut h = match catch_unwind(AssertUnwindSafe(|| H::new(cfg))) {
            Ok(h) => h,
            Err(e) => {
                let site = panic_site();
                if !last_panic_loc().starts_with('/') {
                    return Err(format!("harness construction panicked: {} at {}", panic_msg(e), last_panic_loc()));
                }
                viols.push(Viol::new(format!("panic/{}", site), format!("panic while reaching the initial state: {} at {}", panic_msg(e), last_panic_loc())));
                return Ok((ex, "panic".into()));
            }
        };
        let mut i = 0;
        let mut horizon_hit = false;
        loop {
            let en = match catch_unwind(AssertUnwindSafe(|| h.enabled())) {
                Ok(en) => en,
                Err(e) => {
                    viols.push(Viol::new(
                        format!("panic/{}", panic_site()),
                        format!("panic in enabled(): {} at {}", panic_msg(e), last_panic_loc()),
                    ));
                    return Ok((ex, "panic".into()));
                }
            };
            if en.is_empty() {
                break;
            }
            if i >= horizon {
                horizon_hit = true;
                break;
            }
            let c = if i < prefix.len() { prefix[i] as usize } else { 0 };
            if c >= en.len() {
                return Err(format!("replay divergence at step {} (choice {} of {})", i, c, en.len()));
            }
            ex.costs.push(en.iter().map(|e| e.1).collect());
            ex.choices.push(c as u16);
            ex.used += en[c].1;
            let ev = en[c].0.clone();
            let r = catch_unwind(AssertUnwindSafe(|| h.apply(&ev, viols)));
            if let Err(e) = r {
                viols.push(Viol::new(
                    format!("panic/{}", panic_site()),
                    format!("panic applying {:?}: {} at {}", ev, panic_msg(e), last_panic_loc()),
                ));
                return Ok((ex, "panic".into()));
            }
            if i + 1 >= prefix.len() {
                fps.push(h.fingerprint());
            }
            i += 1;
        }
        let r = catch_unwind(AssertUnwindSafe(|| {
            h.finish(horizon_hit, viols);
            h.outcome()
        }));
        match r {
            Ok(o) => Ok((ex, o)),
            Err(e) => {
                viols.push(Viol::new(
                    format!("panic/{}", panic_site()),
                    format!("panic in finish: {} at {}", panic_msg(e), last_panic_loc()),
                ));
                Ok((ex, "panic".into()))
            }
        }
    }

    fn explore<H: Harness>(
        name: &str,
        cfg: &H::Cfg,
        prefix: Vec<u16>,
        k: u32,
        horizon: usize,
        limits: &Limits,
        t0: Instant,
        shared: &Mutex<impl SharedAccess>,
        runs: &AtomicU64,
        steps: &AtomicU64,
        maxlen: &AtomicU64,
        capped: &AtomicBool,
    ) where
        H::Cfg: Sync,
    {
        if capped.load(Ordering::Relaxed) {
            return;
        }
        if t0.elapsed().as_secs_f64() > limits.max_wall_s || runs.load(Ordering::Relaxed) > limits.max_states {
            capped.store(true, Ordering::Relaxed);
            return;
        }
        let mut viols = vec![];
        let mut fps = vec![];
        let r = run_one::<H>(cfg, &prefix, horizon, &mut viols, &mut fps);
        let (ex, outcome) = match r {
            Ok(x) => x,
            Err(e) => {
                shared.lock().unwrap().set_err(e);
                capped.store(true, Ordering::Relaxed);
                return;
            }
        };
        runs.fetch_add(1, Ordering::Relaxed);
        steps.fetch_add(ex.choices.len() as u64, Ordering::Relaxed);
        // determinism proof on a deterministic 1/32 selection of runs: re-execute the recorded
        // choice list and require the identical fingerprint trace and outcome
        if (fp128(&ex.choices) & 31) == 0 {
            let mut v2 = vec![];
            let mut fps2 = vec![];
            match run_one::<H>(cfg, &ex.choices, horizon, &mut v2, &mut fps2) {
                Ok((ex2, outcome2)) => {
                    let tail = |f: &Vec<u128>| f.last().copied();
                    if ex2.choices != ex.choices || outcome2 != outcome || (outcome != "panic" && tail(&fps2) != tail(&fps)) || v2.len() != viols.len() {
                        shared.lock().unwrap().set_err(format!("NONDETERMINISM: replay of {:?} diverged", ex.choices));
                        capped.store(true, Ordering::Relaxed);
                        return;
                    }
                    shared.lock().unwrap().validated();
                }
                Err(e) => {
                    shared.lock().unwrap().set_err(e);
                    capped.store(true, Ordering::Relaxed);
                    return;
                }
            }
        }
        maxlen.fetch_max(ex.choices.len() as u64, Ordering::Relaxed);
        {
            let mut s = shared.lock().unwrap();
            s.record(name, &format!("{:?}", cfg), &ex.choices, ex.used, outcome, viols, fps, &|c| {
                replay_choices::<H>(cfg, c, true).map(|r| r.events).unwrap_or_default()
            });
        }
        // branch: for every step at or after the prefix, every alternative within budget
        let mut alts: Vec<Vec<u16>> = vec![];
        let mut cost_before = 0u32;
        for i in 0..ex.choices.len() {
            if i >= prefix.len() {
                for (alt, &c) in ex.costs[i].iter().enumerate() {
                    if alt == ex.choices[i] as usize {
                        continue;
                    }
                    // after the prefix the run took choice 0 everywhere, so alt != 0 here
                    if cost_before + c <= k {
                        let mut p = ex.choices[..i].to_vec();
                        p.push(alt as u16);
                        alts.push(p);
                    }
                }
            }
            cost_before += ex.costs[i][ex.choices[i] as usize];
        }
        use rayon::prelude::*;
        alts.into_par_iter().for_each(|p| {
            explore::<H>(name, cfg, p, k, horizon, limits, t0, shared, runs, steps, maxlen, capped)
        });
    }

    trait SharedAccess: Send {
        fn set_err(&mut self, e: String);
        fn validated(&mut self);
        #[allow(clippy::too_many_arguments)]
        fn record(
            &mut self,
            name: &str,
            cfg: &str,
            choices: &[u16],
            used: u32,
            outcome: String,
            viols: Vec<Viol>,
            fps: Vec<u128>,
            events: &dyn Fn(&[u16]) -> Vec<String>,
        );
    }
    impl SharedAccess for Shared {
        fn set_err(&mut self, e: String) {
            self.err = Some(e);
        }
        fn validated(&mut self) {
            self.validated += 1;
        }
        fn record(
            &mut self,
            name: &str,
            cfg: &str,
            choices: &[u16],
            used: u32,
            outcome: String,
            viols: Vec<Viol>,
            fps: Vec<u128>,
            events: &dyn Fn(&[u16]) -> Vec<String>,
        ) {
            *self.outcomes.entry(outcome.clone()).or_insert(0) += 1;
            if (used as usize) < self.per_level.len() {
                self.per_level[used as usize] += 1;
            }
            for f in fps {
                self.fps.insert(f);
            }
            self.sample_per_level.entry(used).or_insert_with(|| {
                json!({"harness": name, "config": cfg, "deviations": used, "outcome": outcome, "events": events(choices)})
            });
            for v in viols {
                if self.seen_sigs.insert(v.sig.clone()) {
                    self.found.push(Found {
                        viol: v,
                        replay: json!({"harness": name, "config": cfg, "choices": choices, "events": events(choices)}),
                    });
                }
            }
        }
    }

    explore::<H>(harness_name, cfg, vec![], k, horizon, limits, t0, &shared, &runs, &steps, &maxlen, &capped);
    let s = shared.into_inner().unwrap();
    if let Some(e) = s.err {
        return Err(e);
    }
    let mut stats = Stats { exhaustive: !capped.load(Ordering::Relaxed), ..Default::default() };
    if !stats.exhaustive {
        stats.cap_note = format!("cap hit inside deviation level <= {} (runs={})", k, runs.load(Ordering::Relaxed));
    }
    stats.runs = runs.load(Ordering::Relaxed);
    stats.transitions = steps.load(Ordering::Relaxed);
    stats.real_steps = stats.transitions;
    stats.states = s.fps.len() as u64;
    stats.traces_validated = s.validated;
    stats.max_depth = maxlen.load(Ordering::Relaxed);
    stats.outcomes = s.outcomes;
    stats.per_level = s.per_level;
    found_out.extend(s.found);
    let mut lv: Vec<_> = s.sample_per_level.into_iter().collect();
    lv.sort_by_key(|x| x.0);
    for (_, v) in lv {
        samples.push(v);
    }
    Ok(stats)
}

// ---------------------------------------------------------------------------------------
// Known findings + report
// ---------------------------------------------------------------------------------------

#[derive(Clone, Debug)]
pub struct KnownFinding {
    pub property: String,
    pub signature: String,
    pub status: String, // "known" | "fixed"
    pub what: String,
}

pub fn load_known_findings() -> Vec<KnownFinding> {
    let p = verif_dir().join("known_findings.json");
    let Ok(s) = std::fs::read_to_string(&p) else { return vec![] };
    let v: Value = serde_json::from_str(&s).expect("known_findings.json must be valid JSON");
    let mut out = vec![];
    if let Some(a) = v.get("findings").and_then(|x| x.as_array()) {
        for e in a {
            out.push(KnownFinding {
                property: e["property"].as_str().unwrap_or("").to_string(),
                signature: e["signature"].as_str().unwrap_or("").to_string(),
                status: e["status"].as_str().unwrap_or("known").to_string(),
                what: e["what"].as_str().unwrap_or("").to_string(),
            });
        }
    }
    out
}

fn sig_matches(pattern: &str, sig: &str) -> bool {
    // glob with '*' wildcards (each matches any substring)
    let parts: Vec<&str> = pattern.split('*').collect();
    if parts.len() == 1 {
        return pattern == sig;
    }
    let mut rest = sig;
    for (i, p) in parts.iter().enumerate() {
        if i == 0 {
            if !rest.starts_with(p) {
                return false;
            }
            rest = &rest[p.len()..];
        } else if i == parts.len() - 1 {
            return rest.ends_with(p);
        } else {
            match rest.find(p) {
                Some(k) => rest = &rest[k + p.len()..],
                None => return false,
            }
        }
    }
    true
}

fn sanitize(s: &str) -> String {
    let mut o: String = s
        .chars()
        .map(|c| if c.is_ascii_alphanumeric() || c == '-' || c == '_' || c == '.' { c } else { '_' })
        .collect();
    o.truncate(120);
    o
}

pub struct Report {
    pub id: String,
    pub tier: Tier,
    pub seed: u64,
    pub t0: Instant,
    pub found: Vec<Found>,
    pub samples: Vec<Value>,
    pub coverage: serde_json::Map<String, Value>,
    pub assumptions: Vec<String>,
    pub machinery_errors: Vec<String>,
}

impl Report {
    pub fn new(id: &str, tier: Tier) -> Report {
        let seed = std::env::var("VERIF_SEED").ok().and_then(|s| s.parse().ok()).unwrap_or(0);
        Report {
            id: id.to_string(),
            tier,
            seed,
            t0: Instant::now(),
            found: vec![],
            samples: vec![],
            coverage: serde_json::Map::new(),
            assumptions: vec![],
            machinery_errors: vec![],
        }
    }
    pub fn cov(&mut self, k: &str, v: Value) {
        self.coverage.insert(k.to_string(), v);
    }
    pub fn add_count(&mut self, k: &str, n: u64) {
        let cur = self.coverage.get(k).and_then(|v| v.as_u64()).unwrap_or(0);
        self.coverage.insert(k.to_string(), json!(cur + n));
    }
    pub fn and_exhaustive(&mut self, e: bool) {
        let cur = self.coverage.get("exhaustive").and_then(|v| v.as_bool()).unwrap_or(true);
        self.coverage.insert("exhaustive".to_string(), json!(cur && e));
    }
    pub fn absorb(&mut self, label: &str, st: &Stats) {
        self.add_count("states", st.states);
        self.add_count("transitions", st.transitions);
        self.add_count("traces_validated_against_impl", st.traces_validated);
        self.add_count("real_code_steps", st.real_steps);
        if st.runs > 0 {
            self.add_count("complete_runs", st.runs);
        }
        self.and_exhaustive(st.exhaustive);
        let mut parts = self
            .coverage
            .get("parts")
            .cloned()
            .unwrap_or_else(|| json!([]));
        parts.as_array_mut().unwrap().push(json!({
            "part": label, "states": st.states, "transitions": st.transitions, "runs": st.runs,
            "max_depth": st.max_depth, "exhaustive": st.exhaustive, "cap": st.cap_note,
            "per_level": st.per_level, "outcomes": st.outcomes,
        }));
        self.coverage.insert("parts".into(), parts);
    }
    pub fn violation(&mut self, sig: impl Into<String>, detail: impl Into<String>, replay: Value) {
        let sig = sig.into();
        if self.found.iter().any(|f| f.viol.sig == sig) {
            return;
        }
        self.found.push(Found { viol: Viol::new(sig, detail), replay });
    }

    /// Classify, write artefacts + evidence, print result lines; returns exit code.
    pub fn finish(mut self) -> i32 {
        let known = load_known_findings();
        let outdir = verif_dir().join("out").join(&self.id);
        let _ = std::fs::create_dir_all(&outdir);
        let mut n_viol: i64 = 0;
        let mut n_known = 0;
        let mut lines = vec![];
        let mut viol_list = vec![];
        let mut known_list = vec![];
        // stable order
        self.found.sort_by(|a, b| a.viol.sig.cmp(&b.viol.sig));
        let mut seen = HashSet::new();
        for f in &self.found {
            if !seen.insert(f.viol.sig.clone()) {
                continue;
            }
            let path = outdir.join(format!("{}.json", sanitize(&f.viol.sig)));
            let art = json!({
                "property": self.id, "signature": f.viol.sig, "detail": f.viol.detail, "replay": f.replay,
            });
            let _ = std::fs::write(&path, serde_json::to_string_pretty(&art).unwrap());
            let k = known
                .iter()
                .find(|k| k.property == self.id && k.status == "known" && sig_matches(&k.signature, &f.viol.sig));
            if let Some(k) = k {
                n_known += 1;
                let mut what: String = k.what.chars().take(200).collect();
                if what.len() < k.what.len() {
                    what.push_str("...");
                }
                lines.push(format!("KNOWN-FINDING: property={} {} [{}] replay={}", self.id, what, f.viol.sig, path.display()));
                known_list.push(json!({"signature": f.viol.sig, "detail": f.viol.detail}));
            } else {
                n_viol += 1;
                lines.push(format!("VIOLATION property={} replay={}", self.id, path.display()));
                lines.push(format!("  signature: {}", f.viol.sig));
                lines.push(format!("  detail: {}", f.viol.detail.lines().next().unwrap_or("")));
                viol_list.push(json!({"signature": f.viol.sig, "detail": f.viol.detail, "replay": path.display().to_string()}));
            }
        }
        let wall = self.t0.elapsed().as_secs_f64();
        if self.samples.is_empty() {
            self.samples.push(json!("no sample recorded"));
        }
        if self.samples.len() > 12 {
            self.samples.truncate(12);
        }
        self.coverage.insert("samples".into(), Value::Array(self.samples.clone()));
        self.coverage.entry("exhaustive").or_insert(json!(true));
        self.coverage.insert("violation_list".into(), Value::Array(viol_list));
        self.coverage.insert("known_findings".into(), Value::Array(known_list));
        if !self.machinery_errors.is_empty() {
            self.coverage.insert("machinery_errors".into(), json!(self.machinery_errors));
        }
        // merge results of other build variants (written by earlier runs of this same check)
        if let Ok(parts) = std::env::var("VERIF_MERGE_PARTS") {
            for part in parts.split_whitespace() {
                let pf = outdir.join(format!("part-{}.json", part));
                match std::fs::read_to_string(&pf).ok().and_then(|s| serde_json::from_str::<Value>(&s).ok()) {
                    Some(pv) => {
                        let pc = &pv["coverage"];
                        for k in ["states", "transitions", "traces_validated_against_impl", "real_code_steps", "complete_runs", "evaluations", "distinct_nontrivial"] {
                            if let Some(n) = pc.get(k).and_then(|v| v.as_u64()) {
                                let cur = self.coverage.get(k).and_then(|v| v.as_u64()).unwrap_or(0);
                                self.coverage.insert(k.to_string(), json!(cur + n));
                            }
                        }
                        let e = pc.get("exhaustive").and_then(|v| v.as_bool()).unwrap_or(false);
                        let cur = self.coverage.get("exhaustive").and_then(|v| v.as_bool()).unwrap_or(true);
                        self.coverage.insert("exhaustive".into(), json!(cur && e));
                        n_viol += pv["violations"].as_i64().unwrap_or(0);
                        self.coverage.insert(format!("variant_{}", part), pc.clone());
                    }
                    None => self.machinery_errors.push(format!("missing part file {}", pf.display())),
                }
            }
        }
        let ev = json!({
            "property_id": self.id,
            "tier": self.tier.name(),
            "seed": self.seed,
            "level": "model_checking",
            "coverage": Value::Object(self.coverage.clone()),
            "assumptions": self.assumptions,
            "wall_s": wall,
            "violations": n_viol,
        });
        let evdir = verif_dir().join("evidence");
        let _ = std::fs::create_dir_all(&evdir);
        let evpath = match std::env::var("VERIF_PART") {
            Ok(p) if !p.is_empty() => outdir.join(format!("part-{}.json", p)),
            _ => evdir.join(format!("{}.json", self.id)),
        };
        std::fs::write(&evpath, serde_json::to_string_pretty(&ev).unwrap()).expect("cannot write evidence");
        for l in &lines {
            println!("{}", l);
        }
        let g = |k: &str| self.coverage.get(k).and_then(|v| v.as_u64()).unwrap_or(0);
        println!(
            "[{}] tier={} states={} transitions={} validated={} exhaustive={} violations={} known={} wall={:.1}s",
            self.id,
            self.tier.name(),
            g("states"),
            g("transitions"),
            g("traces_validated_against_impl"),
            self.coverage.get("exhaustive").and_then(|v| v.as_bool()).unwrap_or(false),
            n_viol,
            n_known,
            wall
        );
        if !self.machinery_errors.is_empty() {
            for e in &self.machinery_errors {
                eprintln!("MACHINERY ERROR: {}", e);
            }
            return 2;
        }
        if n_viol > 0 {
            1
        } else {
            0
        }
    }
}

/// Generic replay of an artefact produced by bfs/devbound for harness H.
pub fn replay_artifact<H: Harness>(cfg: &H::Cfg, art: &Value) -> i32 {
    let choices: Vec<u16> = art["replay"]["choices"]
        .as_array()
        .map(|a| a.iter().map(|x| x.as_u64().unwrap_or(0) as u16).collect())
        .unwrap_or_default();
    match replay_choices::<H>(cfg, &choices, true) {
        Err(e) => {
            eprintln!("MACHINERY ERROR: {}", e);
            2
        }
        Ok(r) => {
            for (i, e) in r.events.iter().enumerate() {
                println!("{:3}: {}", i, e);
            }
            let mut viols = r.viols;
            if let Some(mut h) = r.h {
                if h.enabled().is_empty() {
                    h.finish(false, &mut viols);
                }
                println!("outcome: {}", h.outcome());
            }
            if viols.is_empty() {
                println!("no violation on replay");
                0
            } else {
                for v in viols {
                    println!("violation: {} :: {}", v.sig, v.detail);
                }
                1
            }
        }
    }
}
