//! C15 — the real `Assembler` explored exhaustively against a bitset reference.
//!
//! State = (real Assembler clone, reference bitset). The search is a BFS over all states
//! reachable with add / remove_front / add_then_remove_front / clear over the universe
//! 0..N; the oracle is evaluated on every transition.

use crate::core::*;
use serde_json::json;
use smoltcp::config::ASSEMBLER_MAX_SEGMENT_COUNT as MAX;
use smoltcp::storage::Assembler;
use std::collections::HashSet;

type Bits = u128;

fn runs(b: Bits, n: usize) -> Vec<(usize, usize)> {
    let mut v = vec![];
    let mut i = 0;
    while i < n {
        if (b >> i) & 1 == 1 {
            let s = i;
            while i < n && (b >> i) & 1 == 1 {
                i += 1;
            }
            v.push((s, i));
        } else {
            i += 1;
        }
    }
    v
}
fn range(o: usize, s: usize) -> Bits {
    if s == 0 {
        0
    } else if s >= 128 {
        !0
    } else {
        (((1 as Bits) << s) - 1) << o
    }
}

#[derive(Clone, Debug)]
enum Op {
    Add(usize, usize),
    RemoveFront,
    AddThenRemove(usize, usize),
    Clear,
}

fn observe(a: &Assembler) -> (Vec<(usize, usize)>, usize, bool) {
    (a.iter_data().collect(), a.peek_front(), a.is_empty())
}

/// apply op to both; returns violations
fn step(a: &mut Assembler, b: &mut Bits, n: usize, op: &Op, out: &mut Vec<Viol>, trace: &dyn Fn() -> String) {
    let before = observe(a);
    match *op {
        Op::Add(o, s) => {
            let exp = *b | range(o, s);
            let need = runs(exp, n).len();
            let r = a.add(o, s);
            if need <= MAX {
                if r.is_err() {
                    out.push(Viol::new(
                        format!("C15/add-refused-but-fits/max{}", MAX),
                        format!("add({},{}) refused although result needs {} <= {} ranges; {}", o, s, need, MAX, trace()),
                    ));
                    return;
                }
                *b = exp;
            } else {
                if r.is_ok() {
                    out.push(Viol::new(
                        format!("C15/add-accepted-beyond-max/max{}", MAX),
                        format!("add({},{}) accepted although result needs {} > {} ranges; {}", o, s, need, MAX, trace()),
                    ));
                    *b = exp;
                    return;
                } else if observe(a) != before {
                    out.push(Viol::new(
                        format!("C15/refused-add-changed-state/max{}", MAX),
                        format!("add({},{}) refused but tracker changed {:?} -> {:?}; {}", o, s, before, observe(a), trace()),
                    ));
                    return;
                }
            }
        }
        Op::RemoveFront => {
            let r = a.remove_front();
            let rs = runs(*b, n);
            let exp = if let Some(&(0, e)) = rs.first() { e } else { 0 };
            if r != exp {
                out.push(Viol::new(
                    "C15/remove_front-wrong-length",
                    format!("remove_front returned {} expected {}; {}", r, exp, trace()),
                ));
            }
            *b >>= exp;
        }
        Op::AddThenRemove(o, s) => {
            let exp = *b | range(o, s);
            let need = runs(exp, n).len();
            let r = a.add_then_remove_front(o, s);
            let must_ok = o == 0 || need <= MAX;
            match r {
                Ok(removed) => {
                    if !must_ok {
                        out.push(Viol::new(
                            format!("C15/atrf-accepted-beyond-max/max{}", MAX),
                            format!("add_then_remove_front({},{}) accepted, needs {} ranges; {}", o, s, need, trace()),
                        ));
                    }
                    let rs = runs(exp, n);
                    let e = if let Some(&(0, e)) = rs.first() { e } else { 0 };
                    if removed != e {
                        out.push(Viol::new(
                            "C15/atrf-wrong-length",
                            format!("add_then_remove_front({},{}) returned {} expected {}; {}", o, s, removed, e, trace()),
                        ));
                    }
                    *b = exp >> e;
                }
                Err(_) => {
                    if must_ok {
                        out.push(Viol::new(
                            if o == 0 { "C15/atrf-offset0-failed".to_string() } else { format!("C15/atrf-refused-but-fits/max{}", MAX) },
                            format!("add_then_remove_front({},{}) failed (needs {} ranges, max {}); {}", o, s, need, MAX, trace()),
                        ));
                        return;
                    }
                    if observe(a) != before {
                        out.push(Viol::new(
                            format!("C15/refused-atrf-changed-state/max{}", MAX),
                            format!("add_then_remove_front({},{}) refused but tracker changed; {}", o, s, trace()),
                        ));
                        return;
                    }
                }
            }
        }
        Op::Clear => {
            a.clear();
            *b = 0;
        }
    }
    // full observation vs reference
    let (data, peek, empty) = observe(a);
    let rs = runs(*b, n);
    if data != rs {
        out.push(Viol::new(
            format!("C15/ranges-differ/{}", op_kind(op)),
            format!("after {:?}: tracker reports {:?}, reference {:?}; {}", op, data, rs, trace()),
        ));
    }
    let exp_peek = if let Some(&(0, e)) = rs.first() { e } else { 0 };
    if peek != exp_peek {
        out.push(Viol::new(
            format!("C15/peek_front-differs/{}", op_kind(op)),
            format!("after {:?}: peek_front {} expected {}; {}", op, peek, exp_peek, trace()),
        ));
    }
    if empty != (*b == 0) {
        out.push(Viol::new(
            format!("C15/is_empty-differs/{}", op_kind(op)),
            format!("after {:?}: is_empty {} but reference {:?}; {}", op, empty, rs, trace()),
        ));
    }
}
fn op_kind(op: &Op) -> &'static str {
    match op {
        Op::Add(..) => "add",
        Op::RemoveFront => "remove_front",
        Op::AddThenRemove(..) => "add_then_remove_front",
        Op::Clear => "clear",
    }
}

fn all_ops(n: usize) -> Vec<Op> {
    let mut ops = vec![Op::RemoveFront, Op::Clear];
    for o in 0..=n {
        for s in 0..=(n - o) {
            ops.push(Op::Add(o, s));
            ops.push(Op::AddThenRemove(o, s));
        }
    }
    ops
}

struct Node {
    a: Assembler,
    b: Bits,
    parent: usize,
    op: Option<Op>,
    depth: u32,
}

fn path(nodes: &[Node], mut i: usize) -> Vec<String> {
    let mut v = vec![];
    while let Some(op) = &nodes[i].op {
        v.push(format!("{:?}", op));
        i = nodes[i].parent;
    }
    v.reverse();
    v
}

/// BFS from `start` states over universe n, depth limit (None = to fixpoint).
fn explore(
    rep: &mut Report,
    label: &str,
    n: usize,
    ops: &[Op],
    start: Vec<(Assembler, Bits, Vec<Op>)>,
    max_depth: Option<u32>,
) {
    use rayon::prelude::*;
    let mut nodes: Vec<Node> = vec![];
    let mut seen: HashSet<u128> = HashSet::new();
    let mut frontier: Vec<usize> = vec![];
    for (a, b, _pre) in &start {
        if seen.insert(fp128(&format!("{:?}", a))) {
            nodes.push(Node { a: a.clone(), b: *b, parent: 0, op: None, depth: 0 });
            frontier.push(nodes.len() - 1);
        }
    }
    let pre: Vec<String> = start.first().map(|s| s.2.iter().map(|o| format!("{:?}", o)).collect()).unwrap_or_default();
    let mut transitions = 0u64;
    let mut refusals = 0u64;
    let mut maxd = 0;
    let mut distinct_sets: HashSet<Bits> = HashSet::new();
    let mut depth = 0u32;
    while !frontier.is_empty() {
        for &i in &frontier {
            distinct_sets.insert(nodes[i].b);
        }
        if let Some(md) = max_depth {
            if depth >= md {
                break;
            }
        }
        // expand the whole level in parallel on the real code; dedup sequentially (deterministic)
        struct Succ {
            parent: usize,
            opi: usize,
            a: Option<Assembler>,
            b: Bits,
            key: u128,
            viols: Vec<Viol>,
            noop: bool,
        }
        let nodes_ref = &nodes;
        let pre_ref = &pre;
        let seen_ref = &seen;
        let tcount = std::sync::atomic::AtomicU64::new(0);
        let rcount = std::sync::atomic::AtomicU64::new(0);
        let results: Vec<Vec<Succ>> = frontier
            .par_iter()
            .map(|&i| {
                let mut out = Vec::new();
                let mut local: HashSet<u128> = HashSet::new();
                let mut buf = String::new();
                for (opi, op) in ops.iter().enumerate() {
                    tcount.fetch_add(1, std::sync::atomic::Ordering::Relaxed);
                    let mut a = nodes_ref[i].a.clone();
                    let mut b = nodes_ref[i].b;
                    let tr = || format!("prefix {:?} then history {:?} then {:?}", pre_ref, path(nodes_ref, i), op);
                    let r = std::panic::catch_unwind(std::panic::AssertUnwindSafe(|| {
                        let mut v = vec![];
                        step(&mut a, &mut b, n, op, &mut v, &tr);
                        (a, b, v)
                    }));
                    match r {
                        Ok((a2, b2, v)) => {
                            let noop = matches!(op, Op::Add(..) | Op::AddThenRemove(..)) && a2 == nodes_ref[i].a && b2 == nodes_ref[i].b;
                            if noop {
                                rcount.fetch_add(1, std::sync::atomic::Ordering::Relaxed);
                            }
                            if v.is_empty() {
                                // keep only successors that are new w.r.t. the visited set of
                                // earlier levels and w.r.t. this node's own successors
                                if a2 == nodes_ref[i].a {
                                    continue;
                                }
                                use std::fmt::Write;
                                buf.clear();
                                write!(buf, "{:?}", a2).unwrap();
                                let key = fp128(&buf);
                                if seen_ref.contains(&key) || !local.insert(key) {
                                    continue;
                                }
                                out.push(Succ { parent: i, opi, a: Some(a2), b: b2, key, viols: v, noop });
                            } else {
                                out.push(Succ { parent: i, opi, a: None, b: b2, key: 0, viols: v, noop });
                            }
                        }
                        Err(e) => {
                            let v = vec![Viol::new(
                                format!("C15/panic/{}/{}", op_kind(op), panic_site()),
                                format!("panic {} ; {}", panic_msg(e), tr()),
                            )];
                            out.push(Succ { parent: i, opi, a: None, b: 0, key: 0, viols: v, noop: false });
                        }
                    }
                }
                out
            })
            .collect();
        transitions += tcount.load(std::sync::atomic::Ordering::Relaxed);
        refusals += rcount.load(std::sync::atomic::Ordering::Relaxed);
        let mut next = vec![];
        for v in results {
            for s in v {
                if !s.viols.is_empty() {
                    // record and do not expand a state the oracle already disagrees on
                    let mut hist = path(&nodes, s.parent);
                    hist.push(format!("{:?}", ops[s.opi]));
                    for vi in s.viols {
                        rep.violation(vi.sig.clone(), vi.detail.clone(), json!({"harness":"asm","n":n,"max":MAX,"prefix":pre,"ops":hist}));
                    }
                    continue;
                }
                let _ = s.noop;
                if seen.insert(s.key) {
                    nodes.push(Node { a: s.a.unwrap(), b: s.b, parent: s.parent, op: Some(ops[s.opi].clone()), depth: depth + 1 });
                    maxd = maxd.max(depth + 1);
                    next.push(nodes.len() - 1);
                }
            }
        }
        frontier = next;
        depth += 1;
    }
    // validate: re-execute every state's recorded history from the start state on a fresh
    // real Assembler and require the identical tracker (determinism / trace reproduction)
    let mut validated = 0u64;
    for i in 0..nodes.len() {
        let mut chain = vec![];
        let mut j = i;
        while nodes[j].op.is_some() {
            chain.push(j);
            j = nodes[j].parent;
        }
        let mut a = nodes[j].a.clone();
        let mut b = nodes[j].b;
        for &c in chain.iter().rev() {
            let mut out = vec![];
            step(&mut a, &mut b, n, nodes[c].op.as_ref().unwrap(), &mut out, &|| String::new());
        }
        if a != nodes[i].a || b != nodes[i].b {
            rep.machinery_errors.push(format!("asm: replay of history {:?} diverged", path(&nodes, i)));
            break;
        }
        validated += 1;
    }
    let st = Stats {
        states: nodes.len() as u64,
        transitions,
        real_steps: transitions,
        traces_validated: validated,
        max_depth: maxd as u64,
        exhaustive: true,
        ..Default::default()
    };
    rep.absorb(label, &st);
    rep.add_count("distinct_range_sets", distinct_sets.len() as u64);
    rep.add_count("noop_or_refused_insertions", refusals);
    // sample: deepest state
    if let Some((i, _)) = nodes.iter().enumerate().max_by_key(|(_, n)| n.depth) {
        rep.samples.push(json!({"part": label, "universe": n, "max_ranges": MAX, "prefix": pre,
            "deepest_history": path(&nodes, i), "ranges": runs(nodes[i].b, n)}));
    }
}

pub fn replay(art: &serde_json::Value) -> i32 {
    let r = &art["replay"];
    let n = r["n"].as_u64().unwrap_or(12) as usize;
    let parse = |s: &str| -> Option<Op> {
        let s = s.trim();
        let nums: Vec<usize> = s
            .split(|c: char| !c.is_ascii_digit())
            .filter(|x| !x.is_empty())
            .map(|x| x.parse().unwrap())
            .collect();
        if s.starts_with("AddThenRemove") {
            Some(Op::AddThenRemove(nums[0], nums[1]))
        } else if s.starts_with("Add") {
            Some(Op::Add(nums[0], nums[1]))
        } else if s.starts_with("RemoveFront") {
            Some(Op::RemoveFront)
        } else if s.starts_with("Clear") {
            Some(Op::Clear)
        } else {
            None
        }
    };
    let mut a = Assembler::new();
    let mut b: Bits = 0;
    let mut bad = 0;
    for key in ["prefix", "ops"] {
        for o in r[key].as_array().cloned().unwrap_or_default() {
            let op = parse(o.as_str().unwrap_or("")).expect("bad op");
            let mut out = vec![];
            step(&mut a, &mut b, n, &op, &mut out, &|| String::new());
            println!("{:?} -> tracker {:?} reference {:?}", op, a.iter_data().collect::<Vec<_>>(), runs(b, n));
            for v in out {
                println!("violation: {} :: {}", v.sig, v.detail);
                bad += 1;
            }
        }
    }
    if bad > 0 {
        1
    } else {
        println!("no violation on replay");
        0
    }
}

pub fn run(tier: Tier) -> i32 {
    let mut rep = Report::new("C15", tier);
    rep.cov("max_ranges_in_this_build", json!(MAX));
    rep.assumptions.push("reference = bitset over the universe, shifted on front removal; trusted".into());
    rep.assumptions.push(format!("universe bounded (offset+size <= N); configured maximum in this build = {}", MAX));
    if MAX <= 8 {
        let n = if tier == Tier::Quick { 12 } else { 16 };
        explore(&mut rep, &format!("all-reachable-states N={} MAX={}", n, MAX), n, &all_ops(n), vec![(Assembler::new(), 0, vec![])], None);
        rep.cov("rule", json!("BFS to fixpoint over every state of the real Assembler reachable by add/remove_front/add_then_remove_front/clear with every (offset,size), offset+size<=N; state key = Debug image of the real tracker; oracle evaluated on every transition"));
    } else {
        // large maximum: (1) every state over a small universe (limit unreachable),
        let n = if tier == Tier::Quick { 10 } else { 14 };
        explore(&mut rep, &format!("all-reachable-states N={} MAX={}", n, MAX), n, &all_ops(n), vec![(Assembler::new(), 0, vec![])], None);
        // (2) neighbourhood of the full comb 1010..10 over N=2*MAX+6
        let n2 = 2 * MAX + 6;
        let mut a = Assembler::new();
        let mut b: Bits = 0;
        let mut pre = vec![];
        for i in 0..MAX {
            a.add(2 * i, 1).expect("comb construction");
            b |= range(2 * i, 1);
            pre.push(Op::Add(2 * i, 1));
        }
        let small2: Vec<Op> = all_ops(n2).into_iter().filter(|o| match o { Op::Add(_, s) | Op::AddThenRemove(_, s) => *s <= 4 || *s >= n2 - 2, _ => true }).collect();
        if tier == Tier::Quick {
            explore(&mut rep, &format!("comb-neighbourhood N={} MAX={} depth<=2 sizes<=4 or >=N-2", n2, MAX), n2, &small2, vec![(a.clone(), b, pre.clone())], Some(2));
        } else {
            explore(&mut rep, &format!("comb-neighbourhood N={} MAX={} depth<=2 all ops", n2, MAX), n2, &all_ops(n2), vec![(a.clone(), b, pre.clone())], Some(2));
        }
        if tier == Tier::Thorough {
            let small: Vec<Op> = all_ops(n2).into_iter().filter(|o| match o { Op::Add(_, s) | Op::AddThenRemove(_, s) => *s <= 3, _ => true }).collect();
            explore(&mut rep, &format!("comb-neighbourhood N={} MAX={} depth<=3 sizes<=3", n2, MAX), n2, &small, vec![(a, b, pre)], Some(3));
        }
        rep.cov("rule", json!("MAX=32 build: BFS to fixpoint over a small universe plus every state within d operations of the 32-run comb (limit reached)"));
    }
    rep.finish()
}
